"""Minimal reproducers of the deviations of attrs from the given properties found
while building the Coq model.  Each function returns None when the property holds
on that input and a short string describing the failure otherwise.  They are run
first by every check of the named property (regression corpus): for a `fixed:`
entry of known_findings.json a non-None result is a VIOLATION again.

Run stand-alone:  PYTHONPATH=/repo/src python defects.py
"""
import copy
import pickle
import sys
import collections

import attr
import attrs


def F1_C20_disabled_restores():
    from attr import validators as v
    old = v.get_disabled()
    try:
        v.set_disabled(True)
        with v.disabled():
            pass
        if v.get_disabled() is not True:
            return "validators.disabled() exit re-enabled validators that were disabled on entry"
    finally:
        v.set_disabled(old)


def F2_C16_attrs_hash_sticky():
    deco = attr.s(auto_detect=True, frozen=True)

    @deco
    class A:
        x = attr.ib()

        def __hash__(self):
            return 1

    @deco
    class B:
        x = attr.ib()

    @attr.s(auto_detect=True, frozen=True)
    class B2:
        x = attr.ib()

    a = "__hash__" in B.__dict__ and getattr(B.__hash__, "__qualname__", "").startswith("F2")
    if ("__hash__" in B.__dict__) != ("__hash__" in B2.__dict__):
        return "shared attr.s(...) decorator stops generating __hash__ after a class with own __hash__"


def F3_C16_define_on_setattr_sticky():
    @attrs.frozen
    class Base:
        pass

    deco = attrs.define()

    @deco
    class A(Base):
        x: int = attrs.field(converter=int, default=0)

    @deco
    class B:
        x: int = attrs.field(converter=int, default=0)

    b = B()
    b.x = "5"
    if b.x != 5:
        return "shared define() decorator lost convert-on-assignment after a frozen-base class"
    deco2 = attrs.define()

    @deco2
    class C:
        x: int = attrs.field(converter=int, default=0)

    try:

        @deco2
        class D(Base):
            x: int = attrs.field(converter=int, default=0)
    except ValueError:
        return "shared define() decorator rejects a frozen-base class after a mutable class"


def F4_C16_make_class_pops():
    def post(self):
        pass

    d = {"x": attr.ib(), "__attrs_post_init__": post}
    attr.make_class("A", d)
    if "__attrs_post_init__" not in d:
        return "make_class removed __attrs_post_init__ from the caller's dict"


def F7_C05_frozen_hooked_noinit():
    @attr.s(frozen=True)
    class Base:
        x = attr.ib(default=1)

    try:

        @attr.s
        class Sub(Base):
            y = attr.ib(init=False, on_setattr=lambda i, a, v: v)
    except ValueError:
        return None
    s = Sub()
    try:
        s.x = 2
    except attr.exceptions.FrozenInstanceError:
        return "frozen+hook accepted (still frozen)"
    return "subclass of a frozen class became mutable (init=False hooked field accepted)"


def F8_C08_property_setter_super():
    class Base:
        @property
        def p(self):
            return 1

    @attr.s(slots=True)
    class C(Base):
        x = attr.ib(default=0)

        @property
        def q(self):
            return 1

        @q.setter
        def q(self, v):
            super().__init__()
            object.__setattr__(self, "x", v)

    c = C()
    try:
        c.q = 3
    except TypeError:
        return "super() used only in a property setter is not rebound to the slotted class"


def F9_C13_nested_namedtuple():
    NT = collections.namedtuple("NT", "a b")

    @attr.s
    class C:
        x = attr.ib()

    try:
        r = attr.asdict(C([NT(1, 2)]), retain_collection_types=True)
    except TypeError:
        return "asdict: namedtuple nested in a list with retain_collection_types raises TypeError"
    if r != {"x": [NT(1, 2)]}:
        return "asdict: wrong result %r" % (r,)


def F10_C02_pre_init_args():
    seen = []

    @attr.s
    class C:
        a = attr.ib()
        b = attr.ib(default=2)
        c = attr.ib(factory=list)

        def __attrs_pre_init__(self, a, b, c):
            seen.append((a, b, c))

    C(1, 3, [5])
    if seen != [(1, 3, [5])]:
        return "pre-init received %r instead of the passed (1, 3, [5])" % (seen,)


def F11_C01_frozen_dict_over_slot():
    @attr.s(slots=True)
    class K0:
        e = attr.ib(default=0)

    @attr.s(frozen=True)
    class K1(K0):
        e = attr.ib(default=1)

    try:
        if K1().e != 1:
            return "wrong value"
    except AttributeError:
        return "frozen dict subclass redefining a slotted base's field: value unreadable"


def F12_C07_plain_class_in_mro():
    @attr.s(collect_by_mro=True)
    class K0:
        c = attr.ib(default=0)

    class K1(K0):
        pass

    @attr.s(collect_by_mro=True)
    class K2(K0):
        c = attr.ib(default=2)

    @attr.s(collect_by_mro=True)
    class K4(K1, K2):
        pass

    if K4().c != 2:
        return "collect_by_mro: undecorated class re-contributed a stale definition (got %r)" % (K4().c,)


def F5_C17_module_globals():
    import types
    m = types.ModuleType("verif_f5_mod")
    sys.modules[m.__name__] = m
    try:
        src = (
            "import attr\n"
            "_config = None\n"
            "_compat = None\n"
            "@attr.s\n"
            "class C:\n"
            "    x = attr.ib(validator=lambda i, a, v: None)\n"
        )
        exec(compile(src, "<f5>", "exec"), m.__dict__)
        try:
            repr(m.C(1))
        except AttributeError:
            return "module-level _config/_compat override the generated methods' helpers"
    finally:
        del sys.modules[m.__name__]


def F6_C17_helper_name_collision():
    calls = []

    @attr.s
    class C:
        y = attr.ib(converter=lambda v: ("conv", v))
        converter_y = attr.ib(validator=lambda i, a, v: calls.append(a.name))

    try:
        c = C(1, 2)
    except Exception as e:
        return "fields y / converter_y collide on __attr_converter_y: %s" % type(e).__name__
    if c.y != ("conv", 1):
        return "fields y / converter_y collide on __attr_converter_y (y=%r)" % (c.y,)


def F13_C13_single_field_namedtuple():
    NT1 = collections.namedtuple("NT1", "a")

    @attr.s
    class C:
        x = attr.ib()

    r = attr.asdict(C(NT1(5)), retain_collection_types=True)
    if r != {"x": NT1(5)}:
        return "asdict: single-field namedtuple rebuilt as %r" % (r,)
    r = attr.astuple(C([NT1(5)]), retain_collection_types=True)
    if r != ([NT1(5)],):
        return "astuple: single-field namedtuple rebuilt as %r" % (r,)


def F14_C13_nested_collection_in_key():
    @attr.s
    class C:
        x = attr.ib()

    try:
        r = attr.asdict(C({(1, (2, 3)): 0}))
    except TypeError:
        return "asdict: collection nested in a collection-valued dict key -> TypeError (unhashable)"
    if r != {"x": {(1, (2, 3)): 0}}:
        return "asdict: wrong result %r" % (r,)


def F15_C04_cache_slot_below_slotted_base():
    @attr.s(slots=True, frozen=True, cache_hash=True)
    class A:
        x = attr.ib()

    @attr.s(frozen=True, cache_hash=True)
    class B(A):
        y = attr.ib()

    try:
        if hash(B(1, 2)) != hash(B(1, 2)):
            return "unstable hash"
    except AttributeError:
        return "frozen dict cache_hash class below a slotted cache_hash class: hash() raises AttributeError"


def F16_C10_dict_subclass_of_slotted_loses_fields():
    @attr.s(slots=True)
    class S:
        a = attr.ib()

    @attr.s
    class D(S):
        b = attr.ib()

    d = copy.copy(D(1, 2))
    try:
        if (d.a, d.b) != (1, 2):
            return "copy lost or changed a field"
    except AttributeError:
        return "copy.copy of a dict attrs subclass of a slotted attrs class lost the subclass's own field"


def F17_C12_assoc_stale_cached_hash():
    import warnings
    @attr.s(unsafe_hash=True, cache_hash=True)
    class D:
        a = attr.ib()

    x = D(1)
    hash(x)
    with warnings.catch_warnings():
        warnings.simplefilter("ignore")
        y = attr.assoc(x, a=2)
    if hash(y) != hash(D(2)):
        return "assoc: the changed copy answers the original's cached hash"


def F18_C12_assoc_accepts_tuple_methods():
    import warnings
    @attr.s
    class D:
        a = attr.ib()

    with warnings.catch_warnings():
        warnings.simplefilter("ignore")
        try:
            attr.assoc(D(1), count=3)
        except attr.exceptions.AttrsAttributeNotFoundError:
            return None
        except Exception as e:
            return "assoc(count=...) raised %s" % type(e).__name__
    return "assoc(inst, count=3) did not raise AttrsAttributeNotFoundError"


class _Falsy:
    """a callable object whose truth value is False"""
    def __init__(self, fn):
        self.fn = fn

    def __call__(self, *a):
        return self.fn(*a)

    def __bool__(self):
        return False


def F24_C02_C20_falsy_validator_runs_in_init():
    log = []
    v = _Falsy(lambda i, a, x: log.append(x))

    @attr.s
    class A:
        x = attr.ib(validator=v)

    @attr.s(on_setattr=attr.setters.validate)
    class B:
        x = attr.ib(default=0, validator=v)

    A(1)
    if log != [1]:
        return "generated __init__ did not run a falsy validator object (log %r)" % (log,)
    b = B()
    del log[:]
    b.x = 5
    if log != [5]:
        return "setters.validate did not run a falsy validator object on assignment (log %r)" % (log,)
    del log[:]
    attr.validate(A(2))
    if log != [2, 2]:
        return "attr.validate / __init__ disagree on a falsy validator (log %r)" % (log,)

    @attr.s
    class E:
        x = attr.ib(default=1, validator=[])
    try:
        attr.validate(E())
    except TypeError:
        return "validator=[] makes attr.validate() call a list"


def F25_C01_falsy_key_kept_on_attribute():
    k = _Falsy(lambda s: s.lower())

    @attr.s(frozen=True, order=True)
    class B:
        x = attr.ib(eq=k, order=k)

    a = attr.fields(B).x
    if a.eq_key is not k or a.order_key is not k:
        return "a falsy key callable was dropped from the Attribute"
    if not (B("a") == B("A")) or hash(B("a")) != hash(B("A")) or not (B("a") < B("B")):
        return "a falsy key callable is not applied by ==/hash/<"


def F26_C02_falsy_field_hook_kept():
    log = []
    h = _Falsy(lambda i, a, x: (log.append(("hook", x)), x * 2)[1])

    @attr.s(on_setattr=attr.setters.validate)
    class C:
        x = attr.ib(default=0, on_setattr=h, validator=lambda i, a, x: log.append(("clsval", x)))

    c = C()
    del log[:]
    c.x = 3
    if c.x != 6 or log != [("hook", 3)]:
        return "a falsy field-level on_setattr hook was replaced by the class-level hook: x=%r log=%r" % (c.x, log)


def F27_C01_falsy_converter_on_assignment():
    cv = _Falsy(lambda x: int(x))

    @attrs.define
    class D:
        x: int = attrs.field(converter=cv)

    d = D("1")
    d.x = "2"
    if D("1").x != 1 or d.x != 2:
        return "falsy converter: __init__ gives %r, assignment gives %r" % (D("1").x, d.x)


ALL = {k: v for k, v in list(globals().items()) if k[0] in "FK" and k[1].isdigit()}

if __name__ == "__main__":
    for k, f in ALL.items():
        print(k, "->", f())
