"""C06 - on_setattr: assignment stores hook-chain(value); failure keeps the old value;
hook resolution along the bases; definition-time rejections."""
from __future__ import annotations

import random
from collections import Counter

import attr
import attrs
from attr import setters

from . import initgen as g
from . import vlib
from .driver import Case
from .vlib import b, lst, pair, q

PROP = "C06"
HEADER = "From Attrs Require Import Base Core.Attr Core.Init Core.InitCorr C06.Model C06.Corr."
CASE_TYPE = "case"
CHECK = "check_case"
MODEL = "model_of"
RULE = ("seeded random linear class chains (depth 1-4, plain non-attrs classes interposed): per attrs class "
        "{attr.s | define} x slots x frozen (rare) x auto_detect x class body __setattr__ (rare) x class-level "
        "on_setattr {None, NO_OP, validate, convert, frozen, user hook, [convert,validate], [validate,convert], "
        "[h1,validate,h2], [h,convert], [convert,h], [], (convert,validate) tuple, setters.pipe(convert,validate)}; "
        "per field {default none/value/factory x init x converter none/plain/Converter(takes_self,takes_field) x "
        "validator x on_setattr from the same set x redefinition of inherited names}.  Every class of every chain "
        "is a class under test: a definition ValueError is compared with the model's decision; otherwise a fresh "
        "instance (state observed) gets assignment histories (length <=3 quick / <=5 thorough) over all field "
        "names and a non-field name, each history once fault-free, once per callback position with that callback "
        "raising a marked exception (plain / KeyError / AttributeError subclass, identity checked), and with "
        "validators globally disabled; after EACH step compared: outcome (ok / marker index / exception class), "
        "every name whose value changed with its new value, the callbacks of the step with their arguments.  "
        "assigned values are fresh tokens or the very object currently stored under the name (obj.f = obj.f); "
        "converters and user hooks include ones that return None (symbols nil_*, compared under the interpretation "
        "nil_* -> None); user hooks (single and list members), validators and converters are, with probability 0.3 "
        "each, callable OBJECTS that are falsy (__bool__ False / __len__ 0).  define-default classes: o.f = x against a fresh C(f=x) (value and callbacks).  Each case is evaluated "
        "against the faithful model and against the property-level reference resolution.  distinct = distinct case "
        "term; non-trivial = rejected definition or class whose resolved __setattr__ is not object's")
EXTRA_TRUSTED = ["the field tuple attr.fields(cls), the MRO __slots__ and __dict__ presence of the class under test are "
                 "read from the real class and given to the model (field collection is C07's model); the initial "
                 "instance state is the observed one (construction is C01/C02's model)"]
ASSUMPTIONS = ["user callables are symbolic: they record their arguments and return a fresh term; they do not "
               "mutate the instance", "linear single-inheritance chains; plain classes in between define nothing"]

EXTRA_TRUSTED = EXTRA_TRUSTED + [
    "harness/translate_c06.py (fail-closed Python-subset -> Gallina translator for setters.pipe/frozen/validate/"
    "convert, the sa_attrs loop and the __setattr__ closure of _ClassBuilder.add_setattr) and the hand-written "
    "meaning of its primitives in coq/theories/C06/TieBase.v (calling a validator / converter object / hook, "
    "_OBJ_SETATTR, Attribute reads, truthiness, `is`, `or`, dict item assignment, KeyError on lookup)"]

NF = "nf"          # a name that is never a field


def pre_build():
    from . import translate_c06
    translate_c06.regenerate()


def translated_tie():
    from . import translate_c06
    status = translate_c06.regenerate()
    if all(v == "translated" for v in status.values()):
        # safety net: a generated file that does not typecheck is a translator defect, never a verdict
        ok, log = vlib.make(["theories/Gen/C06_setters.vo"])
        if not ok:
            status["Gen/C06_setters.v"] = "untranslatable: the generated definitions do not typecheck (%s)" % (
                " ".join(log.split())[-200:])
    return status, "theories/C06/Tie.vo"


# --------------------------------------------------------------------------------------
# recorder with several marked exception kinds


class KeyMarker(g.Marker, KeyError):
    pass


class AttrMarker(g.Marker, AttributeError):
    pass


KINDS = [g.Marker, KeyMarker, AttrMarker]


class Rec6(g.Recorder):
    def __init__(self):
        super().__init__()
        self.kind = 0
        self.last = None

    def reset(self, fault_at=None, kind=0):
        super().reset(fault_at)
        self.kind = kind
        self.last = None

    def cb(self, ev):
        idx = len(self.trace)
        self.trace.append(ev)
        if self.fault_at is not None and idx == self.fault_at:
            self.last = KINDS[self.kind % len(KINDS)](idx)
            raise self.last


class _recorder:
    """The instrumented callables of initgen report to initgen.REC: swap ours in for the run."""

    def __enter__(self):
        self.old = g.REC
        g.REC = Rec6()
        return g.REC

    def __exit__(self, *a):
        g.REC = self.old
        from attr import _config
        _config._run_validators = True


# --------------------------------------------------------------------------------------
# on_setattr tags

OS_TAGS = ["NO_OP", "user", "validate", "convert", "frozen", "list_cv", "list_vc", "list_user2", "list_uc",
           "list_cu", "list_empty", "tuple_cv", "list_vf", "nil_user", "list_nil", "list_nil_v", "list_nil_u"]
CLS_ONLY = ["pipe_cv"]


def hooks_model(tag, uid):
    H = lambda n: 'HUser %s' % q(n + "_" + uid)
    return {
        "validate": ["HValidate"], "convert": ["HConvert"], "frozen": ["HFrozen"], "user": [H("h")],
        "list_cv": ["HConvert", "HValidate"], "tuple_cv": ["HConvert", "HValidate"], "pipe_cv": ["HConvert", "HValidate"],
        "list_vc": ["HValidate", "HConvert"], "list_user2": [H("h1"), "HValidate", H("h2")],
        "list_uc": [H("h"), "HConvert"], "list_cu": ["HConvert", H("h")], "list_empty": [],
        "list_vf": ["HValidate", "HFrozen"],
        "nil_user": [H("nil_h")], "list_nil": [H("nil_h")], "list_nil_v": [H("nil_h"), "HValidate"],
        "list_nil_u": [H("nil_h"), H("h")],
    }[tag]


class FalsyBool:
    """A callable OBJECT whose truth value is False: "is there a hook / validator / converter" must be
    decided with `is not None`, never by truthiness."""

    def __init__(self, fn):
        self.fn, self.sym, self.ann = fn, fn.sym, getattr(fn, "ann", None)

    def __call__(self, *a):
        return self.fn(*a)

    def __bool__(self):
        return False


class FalsyLen:
    """... falsy through an empty __len__."""

    def __init__(self, fn):
        self.fn, self.sym, self.ann = fn, fn.sym, getattr(fn, "ann", None)

    def __call__(self, *a):
        return self.fn(*a)

    def __len__(self):
        return 0


def falsify(fn, how):
    return fn if not how else {"bool": FalsyBool, "len": FalsyLen}[how](fn)


def pick_falsy(rng, p=0.3):
    return rng.choice(["bool", "len"]) if rng.random() < p else None


def resolve(tag, uid, falsy=None):
    """falsy: every user-written hook of this setting (alone or as a list member) is a falsy callable object"""
    if tag is None:
        return None
    if tag == "NO_OP":
        return setters.NO_OP
    h = lambda n: falsify(g.mk_hook(n + "_" + uid), falsy)
    mk_nil = mk_nil_hook
    mk_nil_hook_ = lambda n: falsify(mk_nil(n), falsy)
    return {
        "validate": lambda: setters.validate, "convert": lambda: setters.convert, "frozen": lambda: setters.frozen,
        "user": lambda: h("h"), "list_cv": lambda: [setters.convert, setters.validate],
        "tuple_cv": lambda: (setters.convert, setters.validate),
        "pipe_cv": lambda: setters.pipe(setters.convert, setters.validate),
        "list_vc": lambda: [setters.validate, setters.convert],
        "list_user2": lambda: [h("h1"), setters.validate, h("h2")],
        "list_uc": lambda: [h("h"), setters.convert], "list_cu": lambda: [setters.convert, h("h")],
        "list_empty": lambda: [], "list_vf": lambda: [setters.validate, setters.frozen],
        "nil_user": lambda: mk_nil_hook_("nil_h_" + uid), "list_nil": lambda: [mk_nil_hook_("nil_h_" + uid)],
        "list_nil_v": lambda: [mk_nil_hook_("nil_h_" + uid), setters.validate],
        "list_nil_u": lambda: [mk_nil_hook_("nil_h_" + uid), h("h")],
    }[tag]()


def mk_nil_hook(hn):
    """A hook without a return statement: the assigned value becomes None."""
    def hook(inst, a, value):
        g.REC.cb(("hook", a.name, hn, value))
    hook.sym = hn
    return hook


def mk_nil_converter(fld, fn, kind):
    """A "blank -> None" style converter: reports its call, returns None (symbol prefix nil_)."""
    if kind[0] == "plain":
        def conv(v):
            g.REC.cb(("conv", fld, fn, [v]))
        conv.sym, conv.ann = fn, None
        return conv
    _, ts, tf, _ = kind

    def conv(v, *extra):
        g.REC.cb(("conv", fld, fn, [v] + list(extra)))
    conv.sym, conv.ann = fn, None
    return attr.Converter(conv, takes_self=ts, takes_field=tf)


def conv_sym(f):
    return ("nil_c_" if f.get("conv_nil") else "c_") + f["uid"]


def enc_hooks(hs):
    return lst(hs)


def enc_cls_os(tag, uid):
    if tag is None:
        return "COsNone"
    if tag == "NO_OP":
        return "COsNoOp"
    hs = hooks_model(tag, uid)
    if tag in ("validate", "convert", "frozen", "user", "nil_user"):
        return "(COsSingle (%s))" % hs[0] if " " in hs[0] else "(COsSingle %s)" % hs[0]
    return "(COsPipe %s)" % enc_hooks(hs)


def enc_fld_os(tag, uid):
    if tag is None:
        return "OsNone"
    if tag == "NO_OP":
        return "OsNoOp"
    return "(OsPipe %s)" % enc_hooks(hooks_model(tag, uid))


# --------------------------------------------------------------------------------------
# specifications (JSON-able; "base" nests)

NAMES = ["x", "y", "z", "_p", "w"]
CONV_KINDS = [None, None, ("plain", False), ("conv", False, False, False), ("conv", True, False, False),
              ("conv", False, True, False), ("conv", True, True, False)]


def gen_field(rng, name, uid, p_hook):
    f = {"name": name, "uid": "%s_%s" % (name.strip("_"), uid)}
    r = rng.random()
    f["default"] = None if r < 0.45 else ("value" if r < 0.75 else ["factory", rng.random() < 0.4])
    f["init"] = rng.random() < 0.85
    f["converter"] = rng.choice(CONV_KINDS)
    f["conv_nil"] = f["converter"] is not None and rng.random() < 0.2
    f["validator"] = rng.random() < 0.45
    f["on_setattr"] = rng.choice(OS_TAGS) if rng.random() < p_hook else None
    f["falsy_hook"], f["falsy_val"], f["falsy_conv"] = pick_falsy(rng), pick_falsy(rng), pick_falsy(rng)
    return f


def gen_spec(rng, uid, base, force=None):
    """base: a Built or None.  force: overrides of a scenario template (see TEMPLATES)."""
    force = force or {}
    if force.get("kind") == "plain" or (not force and base is not None and base.spec["kind"] == "attrs"
                                        and rng.random() < 0.22):
        return {"kind": "plain", "uid": uid, "base": base.spec}
    api = rng.choice(["attrs", "define"])
    s = {"kind": "attrs", "uid": uid, "api": api, "base": base.spec if base is not None else None}
    s["slots"] = rng.random() < 0.5
    base_frozen = base is not None and base.frozen
    s["frozen"] = rng.random() < 0.07
    frozen_eff = s["frozen"] or base_frozen
    r = rng.random()
    p_cls = 0.25 if frozen_eff else 0.5
    s["on_setattr"] = rng.choice(OS_TAGS + CLS_ONLY) if r < p_cls else None
    s["falsy_hook"] = pick_falsy(rng)
    s["auto_detect"] = None if rng.random() < 0.8 else rng.random() < 0.5
    s["user_setattr"] = rng.random() < 0.08
    n_fields = rng.choice([0, 1, 1, 2, 2, 3])
    pool = NAMES[:]
    rng.shuffle(pool)
    names = pool[:n_fields]
    inherited = base.field_names if base is not None else []
    if inherited and names and rng.random() < 0.4:
        names[0] = rng.choice(inherited)
        names = list(dict.fromkeys(names))
    p_hook = 0.12 if frozen_eff else 0.4
    s["fields"] = [gen_field(rng, n, uid, p_hook) for n in names]
    # scenario overrides
    for k_ in ("api", "slots", "frozen", "auto_detect", "user_setattr"):
        if k_ in force:
            s[k_] = force[k_]
    hooks = force.get("hooks")
    if hooks == "none":
        s["on_setattr"] = "NO_OP" if s["api"] == "define" and rng.random() < 0.7 else None
        if s["api"] == "define" and s["on_setattr"] is None:
            for f in s["fields"]:
                f["converter"], f["validator"] = None, False
            if base is not None and base.cls is not None and any(
                    a.validator is not None or a.converter is not None for a in attr.fields(base.cls)):
                s["on_setattr"] = "NO_OP"
        for f in s["fields"]:
            f["on_setattr"] = None if rng.random() < 0.8 else "NO_OP"
    elif hooks == "some":
        if not s["fields"]:
            s["fields"] = [gen_field(rng, rng.choice(NAMES), uid, 0.4)]
        if rng.random() < 0.5:
            s["on_setattr"] = rng.choice(["user", "list_user2", "list_uc", "frozen", "list_empty", "list_vf"])
        else:
            s["fields"][0]["on_setattr"] = rng.choice([t for t in OS_TAGS if t != "NO_OP"])
    elif hooks == "cls_some":
        # hooks at class level only: the fields (and so the subclasses' inherited fields) carry none
        if not s["fields"]:
            s["fields"] = [gen_field(rng, rng.choice(NAMES), uid, 0.0)]
        s["on_setattr"] = rng.choice(["user", "list_user2", "list_uc", "frozen", "list_empty", "list_vf", "list_cu"])
        for f in s["fields"]:
            f["on_setattr"] = None
    elif hooks == "convert_only":
        # class-level setters.convert where every converting field also validates
        s["on_setattr"] = "convert"
        if not s["fields"]:
            s["fields"] = [gen_field(rng, rng.choice(NAMES), uid, 0.0)]
        for f in s["fields"]:
            f["on_setattr"] = None
            if f["converter"] is None and rng.random() < 0.7:
                f["converter"] = rng.choice(CONV_KINDS[2:])
            f["validator"] = f["converter"] is not None or f["validator"]
    elif hooks in ("validate_only", "convert_novalid"):
        # the reset of a class-level setters.validate / setters.convert looks at the right kind of field
        s["on_setattr"] = "validate" if hooks == "validate_only" else "convert"
        if not s["fields"]:
            s["fields"] = [gen_field(rng, rng.choice(NAMES), uid, 0.0)]
        for f in s["fields"]:
            f["on_setattr"] = None
            f["validator"] = hooks == "validate_only"
            f["converter"] = None if hooks == "validate_only" else rng.choice(CONV_KINDS[2:])
    elif hooks == "explicit":
        s["on_setattr"] = rng.choice([t for t in OS_TAGS + CLS_ONLY if t != "NO_OP"])
    elif hooks == "noinit_field":
        # a field-level hook on a field that takes no part in __init__ (init=False, no default)
        if not s["fields"]:
            s["fields"] = [gen_field(rng, rng.choice(NAMES), uid, 0.0)]
        s["on_setattr"] = None if s["api"] == "attrs" or s["frozen"] else "NO_OP"
        for f in s["fields"]:
            f["on_setattr"] = None
        f0 = rng.choice(s["fields"])
        f0["init"], f0["default"] = False, None
        f0["on_setattr"] = rng.choice(OS_TAGS)
    elif hooks == "noop_cls":
        s["on_setattr"] = "NO_OP"
        for f in s["fields"]:
            f["on_setattr"] = None
    return s


# scenario templates: one dict of overrides per level, root first
TEMPLATES = [
    # hooked root, unhooked middle, unhooked leaf whose body writes an undetected __setattr__
    [{"hooks": "cls_some", "frozen": False, "user_setattr": False},
     {"hooks": "none", "frozen": False, "user_setattr": False, "slots": False},
     {"hooks": "none", "frozen": False, "user_setattr": True, "api": "attrs", "auto_detect": None, "slots": False}],
    [{"hooks": "cls_some", "frozen": False, "user_setattr": False},
     {"hooks": "none", "frozen": False, "user_setattr": False, "slots": True},
     {"hooks": "none", "frozen": False, "user_setattr": True, "api": "attrs", "auto_detect": None, "slots": False}],
    [{"hooks": "cls_some", "frozen": False, "user_setattr": False}, {"hooks": "none", "frozen": False, "user_setattr": False},
     {"hooks": "none", "frozen": False, "user_setattr": True}],
    # slotted confused and what is defined below it
    [{"hooks": "some", "frozen": False, "user_setattr": False}, {"kind": "plain"},
     {"hooks": "none", "frozen": False, "slots": True, "user_setattr": False}, {"hooks": "none", "frozen": False}],
    [{"hooks": "some", "frozen": False, "user_setattr": False}, {"kind": "plain"},
     {"hooks": "none", "frozen": False, "slots": False, "user_setattr": False}, {"frozen": False}],
    # frozen bases
    [{"frozen": True, "hooks": "none", "user_setattr": False}, {"api": "define", "frozen": False, "hooks": "explicit"}],
    [{"frozen": True, "hooks": "none", "user_setattr": False}, {"api": "define", "frozen": False}, {"frozen": False}],
    [{"frozen": True, "hooks": "none", "user_setattr": False}, {"kind": "plain"}, {"frozen": False, "user_setattr": True}],
    [{"frozen": True, "hooks": "some", "user_setattr": False}],
    [{"frozen": True, "hooks": "none", "user_setattr": False},
     {"frozen": False, "user_setattr": True, "auto_detect": None, "api": "attrs", "hooks": "some"}, {"frozen": False}],
    # own __setattr__ with and without hooks below a hooked class
    [{"hooks": "some", "frozen": False, "user_setattr": False}, {"user_setattr": True, "auto_detect": True, "frozen": False}],
    [{"hooks": "some", "frozen": False, "user_setattr": False},
     {"user_setattr": True, "auto_detect": True, "frozen": False, "hooks": "none"}, {"hooks": "none", "frozen": False}],
    # the builder's reset of class-level validate / convert
    [{"hooks": "convert_only", "frozen": False, "user_setattr": False}],
    [{"hooks": "none", "frozen": False}, {"hooks": "convert_only", "frozen": False, "user_setattr": False}],
    [{"hooks": "validate_only", "frozen": False, "user_setattr": False, "api": "attrs"}],
    [{"hooks": "convert_novalid", "frozen": False, "user_setattr": False, "api": "attrs"}],
    # frozen (own / inherited) with a hook on an init=False field without default (F7)
    [{"frozen": True, "hooks": "noinit_field", "user_setattr": False}],
    [{"frozen": True, "hooks": "none", "user_setattr": False}, {"frozen": False, "hooks": "noinit_field", "user_setattr": False}],
    [{"frozen": False, "hooks": "noinit_field", "user_setattr": False}],
    # frozen=True on a class with a detected body __setattr__
    [{"frozen": True, "user_setattr": True, "auto_detect": True, "hooks": "none"}],
    # define(on_setattr=NO_OP) below a frozen class is fine
    [{"frozen": True, "hooks": "none", "user_setattr": False},
     {"api": "define", "frozen": False, "hooks": "noop_cls", "user_setattr": False}],
]


def mk_user_setattr(tag):
    def __setattr__(self, name, val):
        g.REC.cb(("hook", name, tag, val))
        object.__setattr__(self, name, val)
    return __setattr__


class Built:
    """A real class built from a spec on top of an already built base."""

    def __init__(self, spec, base):
        self.spec = spec
        self.base = base
        self.cls = None
        self.def_error = None
        self.build()

    def build(self):
        s = self.spec
        bases = (self.base.cls,) if self.base is not None else (object,)
        name = "K" + s["uid"]
        if s["kind"] == "plain":
            self.cls = type(name, bases, {})
            return
        body = {}
        for f in s["fields"]:
            kw = {"kw_only": True}
            fu = f["uid"]
            if f["default"] == "value":
                kw["default"] = g.Dflt(f["name"])
            elif f["default"] is not None:
                kw["default"] = attr.Factory(g.mk_factory(f["name"], "f_" + fu, f["default"][1]),
                                             takes_self=f["default"][1])
            if not f["init"]:
                kw["init"] = False
            if f["converter"] is not None:
                mk = mk_nil_converter if f.get("conv_nil") else g.mk_converter
                cv = mk(f["name"], conv_sym(f), tuple(f["converter"]))
                if f.get("falsy_conv"):
                    if isinstance(cv, attr.Converter):
                        cv = attr.Converter(falsify(cv.converter, f["falsy_conv"]), takes_self=cv.takes_self,
                                            takes_field=cv.takes_field)
                    else:
                        cv = falsify(cv, f["falsy_conv"])
                kw["converter"] = cv
            if f["validator"]:
                kw["validator"] = falsify(g.mk_validator(f["name"], "v_" + fu), f.get("falsy_val"))
            if f["on_setattr"] is not None:
                kw["on_setattr"] = resolve(f["on_setattr"], fu, f.get("falsy_hook"))
            body[f["name"]] = attr.ib(**kw) if s["api"] == "attrs" else attrs.field(**kw)
        if s["user_setattr"]:
            body["__setattr__"] = mk_user_setattr("U_" + s["uid"])
        kwargs = {}
        if s["slots"] != (s["api"] == "define"):
            kwargs["slots"] = s["slots"]
        if s["frozen"]:
            kwargs["frozen"] = True
        if s["auto_detect"] is not None:
            kwargs["auto_detect"] = s["auto_detect"]
        if s["on_setattr"] is not None:
            kwargs["on_setattr"] = resolve(s["on_setattr"], s["uid"], s.get("falsy_hook"))
        if s["api"] == "attrs":
            kwargs["eq"] = False
        try:
            raw = type(name, bases, body)
            deco = attr.s if s["api"] == "attrs" else attrs.define
            self.cls = deco(**kwargs)(raw)
        except ValueError as e:
            self.def_error = ("ValueError", str(e))
        except Exception as e:
            self.def_error = (type(e).__name__, str(e))

    @property
    def frozen(self):
        """The finished class is frozen (own or inherited); read like attrs itself does."""
        if self.cls is None:
            return False
        from attr._make import _frozen_setattrs
        return self.cls.__setattr__ is _frozen_setattrs

    @property
    def field_names(self):
        return [a.name for a in attr.fields(self.cls)] if self.cls is not None and attr.has(self.cls) else []

    def chain(self):
        out, c = [], self
        while c is not None:
            out.append(c)
            c = c.base
        return out


def build_from_json(spec):
    base = build_from_json(spec["base"]) if spec.get("base") is not None else None
    return Built(spec, base)


# --------------------------------------------------------------------------------------
# encoding a chain


def field_hooks(bt):
    """name -> model hooks of the nearest definition of that field along the chain."""
    out = {}
    for c in bt.chain():
        if c.spec["kind"] != "attrs":
            continue
        for f in c.spec["fields"]:
            if f["name"] not in out:
                out[f["name"]] = (hooks_model(f["on_setattr"], f["uid"])
                                  if f["on_setattr"] not in (None, "NO_OP") else None)
    return {k: v for k, v in out.items() if v is not None}


def enc_attr_from_spec(f):
    d = f["default"]
    dk = "DNothing" if d is None else ("DValue" if d == "value" else "(DFactory %s %s)" % (q("f_" + f["uid"]), b(d[1])))
    vk = "(Some %s)" % q("v_" + f["uid"]) if f["validator"] else "None"
    c = f["converter"]
    if c is None:
        ck = "CNone"
    elif c[0] == "plain":
        ck = "(CPlain %s %s)" % (q(conv_sym(f)), b(c[1]))
    else:
        ck = "(CConverter %s %s %s %s)" % (q(conv_sym(f)), b(c[1]), b(c[2]), b(c[3]))
    return ("(Build_attribute %s %s %s true false None false None None %s None %s true false %s (Some %s))"
            % (q(f["name"]), dk, vk, b(f["init"]), ck, enc_fld_os(f["on_setattr"], f["uid"]),
               q(f["name"].lstrip("_"))))


def enc_attrs_of(bt):
    """The field tuple of a class: from the real class, or (rejected definitions) from the spec."""
    s = bt.spec
    if bt.cls is not None:
        fh = {k: v for k, v in field_hooks(bt).items()}
        return lst(g.enc_attribute(a, _FH(fh)) for a in attr.fields(bt.cls))
    terms = []
    own = {f["name"] for f in s["fields"]}
    if bt.base is not None and bt.base.field_names:
        fh = _FH(field_hooks(bt.base))
        for a in attr.fields(bt.base.cls):
            if a.name not in own:
                terms.append(g.enc_attribute(a.evolve(inherited=True), fh))
    terms.extend(enc_attr_from_spec(f) for f in s["fields"])
    return lst(terms)


class _FH(dict):
    """enc_attribute asks owner_fields.get(name, default): an empty pipe must stay an empty pipe."""

    def get(self, k, default=None):
        return self[k] if k in self else default


def eff_auto_detect(s):
    return s["auto_detect"] if s["auto_detect"] is not None else (s["api"] == "define")


def enc_cls(bt, head):
    s = bt.spec
    if s["kind"] == "plain":
        return "Plain"
    if head and bt.cls is not None:
        mro_sl = lst(q(n) for n in g.mro_slots(bt.cls))
        has_dict = any("__dict__" in c.__dict__ for c in bt.cls.__mro__)
    else:
        mro_sl, has_dict = "[]", True
    return ("(Attrs (Build_acls %s %s %s %s %s %s %s %s %s))"
            % ("ApiAttrs" if s["api"] == "attrs" else "ApiDefine", enc_attrs_of(bt), b(s["slots"]), b(s["frozen"]),
               enc_cls_os(s["on_setattr"], s["uid"]), b(eff_auto_detect(s)),
               "(Some %s)" % q("U_" + s["uid"]) if s["user_setattr"] else "None", mro_sl, b(has_dict)))


def enc_chain(bt):
    return lst(enc_cls(c, i == 0) for i, c in enumerate(bt.chain()))


def confused_shape(cls):
    """The MRO resolves __setattr__ to the hooked closure attrs generated for ANOTHER class and on the way
    there is a slotted attrs class whose direct base is not an attrs class (test_slotted_confused)."""
    mro = cls.__mro__
    owner_i = next((i for i, c in enumerate(mro) if "__setattr__" in c.__dict__), None)
    if owner_i in (None, 0):
        return False
    owner = mro[owner_i]
    if owner is object or not owner.__dict__.get("__attrs_own_setattr__", False):
        return False
    for c in mro[:owner_i]:
        if ("__attrs_attrs__" in c.__dict__ and "__slots__" in c.__dict__
                and "__attrs_attrs__" not in c.__bases__[0].__dict__):
            return True
    return False


def frozen_base_hidden_shape(bt):
    """The class body defines __setattr__, a base class is frozen, frozen= is not passed, and hooks are asked
    for (class level or any field): attr.s reads the frozen-ness off cls.__setattr__, which the body hides."""
    s = bt.spec
    if not (s["user_setattr"] and not s["frozen"] and bt.base is not None and bt.base.frozen):
        return False
    if s["on_setattr"] not in (None, "NO_OP"):
        return True
    return bt.cls is not None and any(a.on_setattr is not None for a in attr.fields(bt.cls))


# --------------------------------------------------------------------------------------
# real side


def init_kwargs(bt, counter):
    kw = {}
    for n, _k, _d in g.signature_of(bt.cls):
        counter[0] += 1
        kw[n] = g.Tok(counter[0])
    return kw


def make_instance(bt, kw, fallback_vals):
    """Through the constructor; if that raises (hooks running inside __init__ of a confused class),
    through __new__ + object.__setattr__."""
    cls = bt.cls
    g.REC.cls = cls
    g.REC.reset(None)
    try:
        return cls(**kw)
    except Exception:
        o = cls.__new__(cls)
        for a in attr.fields(cls):
            try:
                object.__setattr__(o, a.name, fallback_vals[a.name])
            except AttributeError:
                pass
        return o


def read_state(o, names):
    return [(n, getattr(o, n, g.UNSET)) for n in names]


def enc_state(state):
    return lst(pair(q(n), "None" if v is g.UNSET else "(Some %s)" % g.pv(v)) for n, v in state)


def js_state(state):
    return [(n, "<unset>" if v is g.UNSET else g.js_val(v)) for n, v in state]


def same(a, c):
    return a is c or (a is not g.UNSET and c is not g.UNSET and g.enc_val(a) == g.enc_val(c))


def run_history(bt, kw, fb, names, ops, fault_at, von, kind):
    """ops: (name, token, same): same=True assigns back the very object currently stored under that name
    (obj.f = obj.f; what obj.f += ... does for containers), token when nothing is stored.
    Returns (coq term of the ops as executed, coq term of the seen list, json, number of callbacks)."""
    from attr import _config
    o = make_instance(bt, kw, fb)
    REC = g.REC
    REC.reset(fault_at, kind)
    prev = read_state(o, names)
    seen_t, seen_js, ops_t = [], [], []
    _config._run_validators = von
    try:
        for name, tok, same_obj in ops:
            v = tok
            if same_obj:
                cur_v = getattr(o, name, g.UNSET)
                if cur_v is not g.UNSET:
                    v = cur_v
            ops_t.append(pair(q(name), g.enc_val(v)))
            n0 = len(REC.trace)
            try:
                setattr(o, name, v)
                tag_t, tag_js = "OOk", "ok"
            except g.Marker as m:
                if m is REC.last:
                    tag_t, tag_js = "(OMarker %d)" % m.idx, "marker %d (%s) propagated" % (m.idx, type(m).__name__)
                else:
                    tag_t, tag_js = "(OExc %s)" % q("foreign marker"), "a different exception object"
            except BaseException as e:
                tag_t, tag_js = "(OExc %s)" % q(type(e).__name__), "exception " + type(e).__name__
            cur = read_state(o, names)
            changed = [c for p, c in zip(prev, cur) if not same(p[1], c[1])]
            evs = REC.trace[n0:]
            seen_t.append("(%s, %s, %s)" % (tag_t, enc_state(changed), lst(g.enc_event(e) for e in evs)))
            seen_js.append({"assign": name, "value": ("the stored object: " if same_obj and v is not tok else "") + g.js_val(v),
                            "outcome": tag_js, "changed": js_state(changed),
                            "callbacks": [g.js_event(e) for e in evs]})
            prev = cur
    finally:
        _config._run_validators = True
    return lst(ops_t), lst(seen_t), seen_js, len(REC.trace)


def gen_histories(rng, names, hooked, tier, counter):
    max_len = 3 if tier == "quick" else 5
    n_seq = 3 if tier == "quick" else 4

    def tok():
        counter[0] += 1
        return g.Tok(counter[0])

    seqs = []
    first = names[:]
    rng.shuffle(first)
    seqs.append([(n, tok(), rng.random() < 0.25) for n in first[:max_len]])
    weights = [3 if n in hooked else 1 for n in names]
    for _ in range(n_seq - 1):
        ln = rng.randint(1, max_len)
        seq = []
        for _i in range(ln):
            if seq and rng.random() < 0.35:
                # again the same name: a new value, or the object that is stored there now
                seq.append((seq[-1][0], tok(), rng.random() < 0.5))
            else:
                seq.append((rng.choices(names, weights)[0], tok(), rng.random() < 0.2))
        seqs.append(seq)
    return seqs


def field_events_of(trace, fname):
    return [e for e in trace if (e[0] == "conv" and e[1] == fname) or (e[0] == "val" and e[1] == fname)]


def meta_entries(bt, kw, fb, counter):
    """define's default: o.f = x against C(f=x)."""
    s = bt.spec
    if not (s["api"] == "define" and s["on_setattr"] is None and not bt.frozen):
        return [], []
    cls = bt.cls
    terms, js = [], []
    for a in attr.fields(cls):
        if a.on_setattr is not None or not a.init:
            continue
        counter[0] += 1
        x = g.Tok(counter[0])
        o = make_instance(bt, kw, fb)
        g.REC.reset(None)
        try:
            setattr(o, a.name, x)
            r1 = getattr(o, a.name, g.UNSET)
        except Exception:
            r1 = g.UNSET
        ev1 = list(g.REC.trace)
        g.REC.reset(None)
        try:
            o2 = cls(**dict(kw, **{a.alias: x}))
            r2 = getattr(o2, a.name, g.UNSET)
        except Exception:
            r2 = g.UNSET
        ev2 = field_events_of(g.REC.trace, a.name)
        ov = lambda v: "None" if v is g.UNSET else "(Some %s)" % g.pv(v)
        terms.append("(Build_meta %s %s %s %s %s %s)" % (
            q(a.name), g.pv(x), ov(r1), lst(g.enc_event(e) for e in ev1), ov(r2), lst(g.enc_event(e) for e in ev2)))
        js.append({"field": a.name, "x": repr(x), "after_assignment": "<unset>" if r1 is g.UNSET else g.js_val(r1),
                   "after_construction": "<unset>" if r2 is g.UNSET else g.js_val(r2),
                   "assignment_callbacks": [g.js_event(e) for e in ev1],
                   "construction_callbacks": [g.js_event(e) for e in ev2]})
    return terms, js


def describe(bt):
    return bt.spec


def cases_for(bt, sub_seed, tier):
    """All cases of one class under test (head of its chain)."""
    s = bt.spec
    inp = {"spec": describe(bt), "sub_seed": sub_seed, "tier": tier}
    chain_t = enc_chain(bt)
    if bt.cls is None:
        if bt.def_error[0] != "ValueError":
            # not a rejection the property talks about: let it surface as a mismatch
            term = "(Build_case [] false [] [] [] false true)"
            return [Case(term, inp, {"definition": bt.def_error}, sig={"layer": "model", "definition": bt.def_error[0]})]
        term = "(Build_case %s false [] [] [] false true)" % chain_t
        return [Case(term, inp, {"definition": list(bt.def_error)}, sig={"layer": "model", "definition": "rejected"},
                     nontrivial=True, key=term)]
    rng = random.Random(sub_seed)
    cls = bt.cls
    counter = [0]
    kw = init_kwargs(bt, counter)
    fb = {}
    for a in attr.fields(cls):
        counter[0] += 1
        fb[a.name] = g.Tok(counter[0])
    names = [a.name for a in attr.fields(cls)] + [NF]
    o = make_instance(bt, kw, fb)
    init_state = read_state(o, names)
    own_tbl = cls.__dict__.get("__attrs_own_setattr__", False)
    hooked = set()
    if own_tbl:
        fh = field_hooks(bt)
        hooked = {a.name for a in attr.fields(cls) if a.on_setattr is not setters.NO_OP
                  and (a.name in fh or a.on_setattr is None)}
    runs_t, seen = [], []
    seqs = gen_histories(rng, names, hooked, tier, counter)
    for si, ops in enumerate(seqs):
        ops_js = [(n_, "stored object" if sm else repr(v)) for n_, v, sm in ops]
        ot, t, js, n = run_history(bt, kw, fb, names, ops, None, True, 0)
        runs_t.append("(Build_run true None %s %s)" % (ot, t))
        seen.append({"ops": ops_js, "validators": True, "fault": None, "steps": js})
        for j in range(n):
            kind = (j + si) % len(KINDS)
            ot2, t2, js2, _ = run_history(bt, kw, fb, names, ops, j, True, kind)
            runs_t.append("(Build_run true (Some %d) %s %s)" % (j, ot2, t2))
            seen.append({"ops": ops_js, "validators": True, "fault": "%d:%s" % (j, KINDS[kind].__name__), "steps": js2})
        if si == 0 or (si == 1 and tier == "thorough"):
            ot3, t3, js3, n3 = run_history(bt, kw, fb, names, ops, None, False, 0)
            runs_t.append("(Build_run false None %s %s)" % (ot3, t3))
            seen.append({"ops": ops_js, "validators": False, "fault": None, "steps": js3})
            if n3:
                j = rng.randrange(n3)
                ot4, t4, js4, _ = run_history(bt, kw, fb, names, ops, j, False, 1)
                runs_t.append("(Build_run false (Some %d) %s %s)" % (j, ot4, t4))
                seen.append({"ops": ops_js, "validators": False, "fault": "%d:KeyMarker" % j, "steps": js4})
    meta_t, meta_js = meta_entries(bt, kw, fb, counter)
    shapes = []
    if confused_shape(cls):
        shapes.append(("hooked-attrs-base/plain-class/slotted-attrs-class", {"resolved_owner_is_other_attrs_class": True}))
    if frozen_base_hidden_shape(bt):
        shapes.append(("frozen-base/class-body-__setattr__/hooks", {"definition": "accepted"}))
    flag = bool(shapes)
    body = "%s true %s %s %s" % (chain_t, enc_state(init_state), lst(runs_t), lst(meta_t))
    term = "(Build_case %s %s true)" % (body, b(flag))
    resolved = next((c for c in cls.__mro__ if "__setattr__" in c.__dict__), object)
    obs = {"initial_state": js_state(init_state), "runs": seen, "define_default": meta_js,
           "resolved_setattr_owner": resolved.__name__, "flagged_shapes": [n for n, _ in shapes]}
    facts = {"layer": "model", "definition": "accepted"}
    out = [Case(term, inp, obs, sig=facts, nontrivial=resolved is not object, key=term)]
    if flag:
        pterm = "(Build_case %s false false)" % body
        pf = {"layer": "property", "shape": "+".join(n for n, _ in shapes)}
        for _n, extra_facts in shapes:
            pf.update(extra_facts)
        out.append(Case(pterm, dict(inp, layer="property"), obs, sig=pf, nontrivial=True, key=pterm))
    return out


# --------------------------------------------------------------------------------------
# driver interface

_dist = Counter()


def note(bt):
    s = bt.spec
    _dist["kind=" + s["kind"]] += 1
    if s["kind"] != "attrs":
        return
    _dist["api=" + s["api"]] += 1
    _dist["slots=%s" % s["slots"]] += 1
    _dist["cls_on_setattr=%s" % s["on_setattr"]] += 1
    _dist["definition=" + ("rejected" if bt.cls is None else "accepted")] += 1
    _dist["depth=%d" % len(bt.chain())] += 1
    if s["user_setattr"]:
        _dist["user_setattr/detected=%s" % eff_auto_detect(s)] += 1
    if bt.cls is not None:
        _dist["frozen=%s" % bt.frozen] += 1
        if confused_shape(bt.cls):
            _dist["slotted_confused_shape"] += 1
        if frozen_base_hidden_shape(bt):
            _dist["frozen_base_hidden_shape"] += 1
    if s["on_setattr"] not in (None, "NO_OP") and s.get("falsy_hook"):
        _dist["falsy class-level hook objects"] += 1
    for f in s["fields"]:
        _dist["fld_on_setattr=%s" % f["on_setattr"]] += 1
        for k_, w in (("falsy_hook", f["on_setattr"] not in (None, "NO_OP")), ("falsy_val", f["validator"]),
                      ("falsy_conv", f["converter"] is not None)):
            if w and f.get(k_):
                _dist["falsy field-level %s objects" % k_[6:]] += 1
        _dist["conv=%s" % (f["converter"] and (f["converter"][0] + ("+self" if f["converter"][0] == "conv" and f["converter"][1] else "")
                                               + ("+field" if f["converter"][0] == "conv" and f["converter"][2] else "")))] += 1


def generate(tier, seed):
    rng = random.Random(seed)
    n_chains = 420 if tier == "quick" else 4200
    cases = []
    _dist.clear()
    uid = 0
    with _recorder():
        for ci in range(n_chains):
            template = TEMPLATES[(ci // 4) % len(TEMPLATES)] if ci % 4 == 3 else None
            depth = len(template) if template else rng.choice([1, 2, 2, 3, 3, 4])
            if template:
                _dist["scenario_chains"] += 1
            bt = None
            for level in range(depth):
                uid += 1
                spec = gen_spec(rng, "%d" % uid, bt, template[level] if template else None)
                nb = Built(spec, bt)
                note(nb)
                if spec["kind"] == "attrs":
                    cases.extend(cases_for(nb, "%d/%d/%d" % (seed, ci, level), tier))
                if nb.cls is None:
                    break
                bt = nb
    return cases


def distribution(cases):
    return dict(sorted(_dist.items()))


def rerun(inp):
    with _recorder():
        bt = build_from_json(inp["spec"])
        cs = cases_for(bt, inp["sub_seed"], inp["tier"])
    want = inp.get("layer", "model")
    for c in cs:
        if c.sig.get("layer") == want:
            return c
    return cs[0]


# --------------------------------------------------------------------------------------
# regression corpus: repaired deviations of this property (each returns None when the repair holds)


class _Falsy:
    def __init__(self, fn):
        self.fn = fn

    def __call__(self, *a):
        return self.fn(*a)

    def __bool__(self):
        return False


def F26_C06_falsy_field_hook():
    """a field-level on_setattr hook given as a falsy callable object is the field's hook (not replaced by the
    class-level one, not dropped)"""
    calls = []
    fld = _Falsy(lambda i, a, v: calls.append(("field", v)) or ("F", v))
    cls_hook = lambda i, a, v: calls.append(("class", v)) or ("C", v)

    @attr.s(on_setattr=cls_hook)
    class A:
        x = attr.ib(default=0, on_setattr=fld)

    @attr.s
    class B:
        x = attr.ib(default=0, on_setattr=fld)

    a, b_ = A(), B()
    a.x = 1
    b_.x = 2
    if a.x != ("F", 1) or b_.x != ("F", 2) or calls != [("field", 1), ("field", 2)]:
        return "falsy field-level hook not honoured: A().x=%r B().x=%r calls=%r" % (a.x, b_.x, calls)
    return None


def F24_C06_falsy_validator_on_assignment():
    """setters.validate (explicit and through define's default) runs a validator object that is falsy"""
    seen = []
    val = _Falsy(lambda i, a, v: seen.append(v))

    @attr.s(on_setattr=setters.validate)
    class A:
        x = attr.ib(default=0, validator=val)

    @attrs.define
    class D:
        x: int = attrs.field(default=0, validator=val)

    A().x = 1
    D().x = 2
    if seen != [0, 1, 0, 2]:
        return "falsy validator object skipped: validator saw %r, expected [0, 1, 0, 2]" % (seen,)
    return None


def F27_C06_falsy_converter_on_assignment():
    """setters.convert (explicit and through define's default) runs a converter object that is falsy"""
    conv = _Falsy(lambda v: ("conv", v))

    @attr.s(on_setattr=setters.convert)
    class A:
        x = attr.ib(default=0, converter=conv)

    @attrs.define
    class D:
        x: int = attrs.field(default=0, converter=conv)

    a, d = A(), D()
    a.x = 1
    d.x = 2
    if a.x != ("conv", 1) or d.x != ("conv", 2) or D(2).x != d.x:
        return "falsy converter object skipped on assignment: %r %r (construction gives %r)" % (a.x, d.x, D(2).x)
    return None


OWN_CORPUS = [("F26_C06_falsy_field_hook", F26_C06_falsy_field_hook),
              ("F24_C06_falsy_validator_on_assignment", F24_C06_falsy_validator_on_assignment),
              ("F27_C06_falsy_converter_on_assignment", F27_C06_falsy_converter_on_assignment)]


def corpus():
    import importlib.util, os
    spec = importlib.util.spec_from_file_location("verif_defects", os.path.join(vlib.VERIF, "corpus", "defects.py"))
    m = importlib.util.module_from_spec(spec)
    spec.loader.exec_module(m)
    have = [(k, f) for k, f in m.ALL.items() if "_%s_" % PROP in k]
    return have + [(k, f) for k, f in OWN_CORPUS if k not in dict(have)]
