"""C08 - the slotted build is a faithful replacement and agrees with the dict build.

Two case families, both evaluated inside coqc by `check_case` (C08/Corr.v):

* "body"  (part A): a generated class body (exec'd source in a fresh module) is handed to
  attr.s(slots=True) / attrs.define; the namespace, the closure cells and the bases of the
  ORIGINAL class are read off the real objects and given to the model
  (`create_slots_class`, `hook_calls`, the cached-property state machine); everything the
  new class shows is compared with the model's prediction (CBody).  The property's
  postcondition is evaluated on the same observation; when it fails a property case (CPost)
  is filed whose signature the known-findings matcher sees.
* "meta"  (part B): a random class specification of harness/initgen.py is built twice
  (slots on / off, everything else from the same seed) and the observations of the two
  real builds are diffed (CMeta: per observation a digest of its canonical form).
"""
from __future__ import annotations

import copy
import functools
import hashlib
import itertools
import json
import linecache
import pickle
import random
import sys
import types
import weakref
from collections import Counter

import attr
import attrs

from . import initgen as g
from . import vlib
from .driver import Case
from .vlib import b, lst, opt, q

PROP = "C08"
HEADER = "From Attrs Require Import Base C08.Model C08.Corr."
CASE_TYPE = "case"
CHECK = "check_case"
MODEL = "model_of"
RULE = ("(A) class bodies generated as source and exec'd in a fresh module: 0-5 members over kind "
        "{function, classmethod, staticmethod, property (getter/setter/deleter present, absent or "
        "closure-free), functools.cached_property (0-2, with/without return annotation), custom "
        "descriptor, functools.wraps wrapper, lambda, plain attribute, nested class, user __getattr__, "
        "own __attrs_init_subclass__, an inherited field name re-bound as a plain attribute or method; classmethod / "
        "staticmethod / property / cached_property members also as instances of strict subclasses; members of a class "
        "defined inside a function also mention free variables of that function (cells empty at decoration time, sorting "
        "before / after __class__, or bound)} x closure use {none, __class__, zero-argument super()} (biased "
        "towards bodies with exactly one user of the shared __class__ cell) x metaclass {type, custom, "
        "ABCMeta} x nesting {module level, inside a function, inside a class} x docstring x api "
        "{attr.s(slots=True), attrs.define} x weakref_slot x cache_hash x frozen x 0-3 own fields "
        "(fresh names, names overriding an inherited field, names of base slots) x base "
        "{none, slotted attrs with/without weakref slot, dict attrs, plain with __slots__ (also empty, "
        "with __weakref__, as a string), plain without, exception, slotted attrs with hooks / with a "
        "cached_property / with __attrs_init_subclass__, plain with __getattr__, chains attrs -> plain "
        "(shadowing a slot name or not) -> class} x mixin {none, empty-slots, dict, hook}; observed: "
        "__name__/__qualname__/__module__/__doc__/__bases__/type(cls), identity of every namespace "
        "object, __slots__, what each closure user sees (called through the class / an instance), "
        "instance __dict__, unknown-attribute assignment, weakref.ref, slots per own field over the "
        "MRO, get/set/del sequences over two instances on cached, dynamic and missing names, the "
        "__attrs_init_subclass__ call log and the closure views from inside the hook.  "
        "(B) seeded random initgen specifications (chains up to depth 3, optional plain class in "
        "between, optional legacy hash=False, getstate_setstate in {None,True,False} at the leaf) built with slots on "
        "and off: signature, every call "
        "shape (values, callback traces, exceptions, fault injection), ==/!=/</<=/>/>= matrix, hash "
        "outcome and partition, repr, assignment and deletion per field, evolve, asdict/astuple, "
        "copy/deepcopy/pickle of fully-set instances, histories hash -> [change a hash field] -> copy/deepcopy/pickle "
        "(fields kept, copy hashes its own fields), copies of instances holding NOTHING/None/False/0/empty containers, "
        "fields(); (B2) all 120 two-base hierarchies Leaf(Hooked, Data)/Leaf(Data, Hooked) (unslotted attrs base with a "
        "generated hook __setattr__ x slotted attrs base x 5 leaf kinds x api) and 44 hand-built single-base bodies "
        "(inherited field name re-bound as int/None/method/lambda; subclass instances of the member kinds) built with "
        "slots on and off; "
        "distinct = distinct recipe / (seed,index); non-trivial = body with a closure user, a cached "
        "property, a base or a field / specification with at least one field")
EXTRA_TRUSTED = [
    "CPython's type(): what it adds to the namespace (member descriptors, __weakref__), instance "
    "__dict__ absence, rejection of unknown attributes and weak-referenceability are OBSERVED on the real "
    "class and compared with the layout the model computes; they are not proved (partial)",
    "the namespace, closure cells (identity and sharing) and the bases' __slots__/__dict__ facts of the "
    "ORIGINAL class are read from the real objects and given to the model as its input; the field-name "
    "tuple is computed from the recipe (field collection is C07's model)",
    "part B compares digests (first 60 bits of SHA-1) of the canonical JSON form of each observation",
    "harness/translate_c08.py (AST subset -> Gallina for five pieces of _create_slots_class) and the Python views "
    "of the model's data in the prelude of Gen/C08_slots.v; the tie lemmas of C08/Tie.v are about what it emits",
]
ASSUMPTIONS = [
    "class bodies define none of the dunder names attrs generates (no user __repr__/__eq__/__setattr__ ...): "
    "which methods are generated or kept is C14's table",
    "all fields of generated bodies have defaults (instances are created without arguments)",
    "serialization is compared on instances whose fields are all set (C10's precondition)",
]

OLD, NEW_ID = 0, 1


def pre_build():
    # Gen/C08_slots.v is regenerated from the current source text of _create_slots_class (gitignored)
    from . import translate_c08
    translate_c08.regenerate()


def translated_tie():
    from . import translate_c08
    return translate_c08.regenerate(), "theories/C08/Tie.vo"


# --------------------------------------------------------------------------------------
# part A: source generation

PRELUDE = '''
import attr, attrs, functools, abc
BOX = []
COUNT = {}
HOOKCB = [lambda cls: None]

class Desc:
    def __init__(self, f):
        self.f = f
    def __get__(self, o, t=None):
        return self.f.__get__(o, t)

def deco(f):
    @functools.wraps(f)
    def w(*a, **k):
        return f(*a, **k)
    return w

def _okv(i, a, v):
    pass

class M(type):
    pass

class CP2(functools.cached_property):
    pass

class Prop2(property):
    pass

class CM2(classmethod):
    pass

class SM2(staticmethod):
    pass
'''

BASES = {
    "SA": ("SA", '''
@attr.s(slots=True)
class SA:
    a = attr.ib(default=10)
    b = attr.ib(default=11)
    def q(self):
        return "SA.q"
'''),
    "SAnw": ("SAnw", '''
@attr.s(slots=True, weakref_slot=False)
class SAnw:
    a = attr.ib(default=10)
'''),
    "DA": ("DA", '''
@attr.s
class DA:
    a = attr.ib(default=10)
'''),
    "PS": ("PS", '''
class PS:
    __slots__ = ("a", "s1")
'''),
    "PSw": ("PSw", '''
class PSw:
    __slots__ = ("s1", "__weakref__")
'''),
    "PSe": ("PSe", '''
class PSe:
    __slots__ = ()
    def q(self):
        return "PSe.q"
'''),
    "PD": ("PD", '''
class PD:
    def q(self):
        return "PD.q"
'''),
    "PSstr": ("PSstr", '''
class PSstr:
    __slots__ = "ab"
'''),
    "EXC": ("Exception", ""),
    "SAH": ("SAH", '''
@attr.s(slots=True)
class SAH:
    a = attr.ib(default=10)
    @classmethod
    def __attrs_init_subclass__(cls):
        HOOKCB[0](cls)
'''),
    "SAV": ("SAV", '''
@attr.s(slots=True, on_setattr=attr.setters.validate)
class SAV:
    a = attr.ib(default=10, validator=_okv)
'''),
    "SAV_P": ("PV", '''
@attr.s(slots=True, on_setattr=attr.setters.validate)
class SAV:
    a = attr.ib(default=10, validator=_okv)
class PV(SAV):
    __slots__ = ()
'''),
    "SAV_PD": ("PVD", '''
@attr.s(slots=True, on_setattr=attr.setters.validate)
class SAV:
    a = attr.ib(default=10, validator=_okv)
class PVD(SAV):
    pass
'''),
    "SA_Psh": ("PSh", '''
@attr.s(slots=True)
class SA:
    a = attr.ib(default=10)
    b = attr.ib(default=11)
class PSh(SA):
    __slots__ = ()
    a = 7
'''),
    "SA_PshD": ("PShD", '''
@attr.s(slots=True)
class SA:
    a = attr.ib(default=10)
class PShD(SA):
    a = 7
'''),
    "SAC": ("SAC", '''
@attr.s(slots=True)
class SAC:
    _c08_layer = (("ca",), None)
    a = attr.ib(default=10)
    @functools.cached_property
    def ca(self):
        n = COUNT.get(("ca", id(self)), 0)
        COUNT[("ca", id(self))] = n + 1
        return ("comp", "ca", id(self), n)
'''),
    "PG": ("PG", '''
class PG:
    __slots__ = ()
    _c08_layer = ((), "PG")
    def __getattr__(self, n):
        if n.startswith("dyn"):
            return ("dyn", "PG", n)
        raise AttributeError(n)
'''),
    "PGD": ("PGD", '''
class PGD:
    _c08_layer = ((), "PGD")
    def __getattr__(self, n):
        if n.startswith("dyn"):
            return ("dyn", "PGD", n)
        raise AttributeError(n)
'''),
    "DAH": ("DAH", '''
@attr.s
class DAH:
    a = attr.ib(default=10)
    @classmethod
    def __attrs_init_subclass__(cls):
        HOOKCB[0](cls)
'''),
}
MIXINS = {
    "DAV": ("DAV", '''
@attr.s(on_setattr=attr.setters.validate)
class DAV:
    h = attr.ib(default=5, validator=_okv)
'''),
    "MixE": ("MixE", '''
class MixE:
    __slots__ = ()
    def mq(self):
        return "MixE.mq"
'''),
    "MixD": ("MixD", '''
class MixD:
    pass
'''),
    "HK": ("HK", '''
class HK:
    @classmethod
    def __attrs_init_subclass__(cls):
        HOOKCB[0](cls)
'''),
    "HKS": ("HKS", '''
class HKS:
    __slots__ = ()
    @classmethod
    def __attrs_init_subclass__(cls):
        HOOKCB[0](cls)
'''),
}
PRIMARY_WEIGHTS = [("none", 5), ("SA", 4), ("SAnw", 2), ("DA", 2), ("PS", 3), ("PSw", 2), ("PSe", 2), ("PD", 2),
                   ("PSstr", 2), ("EXC", 1), ("SAH", 3), ("SAV", 2), ("SAV_P", 2), ("SAV_PD", 1), ("SA_Psh", 2),
                   ("SA_PshD", 1), ("SAC", 3), ("PG", 2), ("PGD", 1), ("DAH", 1)]
MIXIN_WEIGHTS = [("none", 10), ("MixE", 2), ("MixD", 1), ("HK", 2), ("HKS", 2), ("DAV", 4)]
USER_KINDS = ["func", "cm", "sm", "prop:get", "prop:set", "prop:del", "cached", "getattr", "descr", "wrapped", "lambda"]
FILLER_KINDS = ["func", "cm", "sm", "prop", "cached", "plain", "nested", "descr", "getattr", "hook_own", "cached"]


def _wchoice(rng, pairs):
    tot = sum(w for _, w in pairs)
    r = rng.random() * tot
    for k, w in pairs:
        r -= w
        if r < 0:
            return k
    return pairs[-1][0]


def gen_recipe(rng):
    r = {"family": "body"}
    r["api"] = rng.choice(["attrs", "attrs", "define"])
    r["nest"] = rng.choice(["top", "func", "func", "class"])
    r["meta"] = rng.choice([None, None, None, "M", "ABC"])
    r["doc"] = rng.random() < 0.5
    prim = _wchoice(rng, PRIMARY_WEIGHTS)
    mix = _wchoice(rng, MIXIN_WEIGHTS)
    r["bases"] = [x for x in (prim, mix) if x != "none"]
    if len(r["bases"]) == 2 and rng.random() < 0.4:
        r["bases"].reverse()
    r["weakref_slot"] = rng.random() < 0.6
    r["frozen"] = rng.random() < 0.2
    r["cache_hash"] = prim != "EXC" and rng.random() < 0.3
    pool = ["x", "y", "z"]
    if prim in ("SA", "SAnw", "DA", "SAH", "SAV", "SAV_P", "SAV_PD", "SA_Psh", "SA_PshD", "SAC", "DAH", "PS"):
        pool += ["a", "a"]
    if prim in ("PS", "PSw"):
        pool += ["s1", "s1"]
    if prim == "PSstr":
        pool += ["ab", "ab"]
    if mix == "DAV":
        pool += ["h", "h"]
    rng.shuffle(pool)
    r["fields"] = list(dict.fromkeys(pool[:rng.choice([0, 1, 1, 2, 2, 3])]))
    if prim in ("SA_Psh", "SA_PshD") and "a" not in r["fields"]:
        # the plain class in between shadows the slot 'a': only usable when the field is redefined
        r["fields"].append("a")
    r["field_style"] = rng.choice(["plain", "field"])
    # members
    n_users = rng.choice([0, 1, 1, 1, 1, 2, 3])
    members, used = [], set()
    counter = itertools.count()

    def fresh(prefix):
        return "%s%d" % (prefix, next(counter))

    def add_user(kind, use):
        if kind in ("func", "cm", "sm", "descr", "wrapped", "lambda"):
            members.append({"kind": kind, "name": fresh("m"), "use": use})
        elif kind.startswith("prop:"):
            acc = kind[5:]
            m = {"kind": "prop", "name": fresh("p"), "get": None, "set": None, "del": None}
            m[acc] = use
            for other in ("get", "set", "del"):
                if other != acc:
                    # absent, closure-free or (sometimes) another user
                    m[other] = rng.choice([None, "plain", "plain", use if rng.random() < 0.25 else "plain"])
            members.append(m)
        elif kind == "cached":
            members.append({"kind": "cached", "name": fresh("c"), "use": use, "ann": rng.random() < 0.5})
        elif kind == "getattr":
            if "getattr" in used:
                return add_user("func", use)
            used.add("getattr")
            members.append({"kind": "getattr", "name": "__getattr__", "use": use})

    for _ in range(n_users):
        add_user(rng.choice(USER_KINDS), rng.choice(["class", "super"]))
    for _ in range(rng.choice([0, 0, 1, 1, 2, 3])):
        k = rng.choice(FILLER_KINDS)
        if k in ("func", "cm", "sm", "descr"):
            members.append({"kind": k, "name": fresh("m"), "use": None})
        elif k == "prop":
            members.append({"kind": "prop", "name": fresh("p"), "get": rng.choice([None, "plain"]),
                            "set": rng.choice([None, "plain"]), "del": rng.choice([None, "plain"])})
        elif k == "cached":
            if sum(1 for m in members if m["kind"] == "cached") < 2:
                members.append({"kind": "cached", "name": fresh("c"), "use": None, "ann": rng.random() < 0.5})
        elif k == "plain":
            members.append({"kind": "plain", "name": fresh("Z"), "value": rng.choice(["3", "'s'", "[]", "False", "None"])})
        elif k == "nested":
            members.append({"kind": "nested", "name": fresh("N")})
        elif k == "getattr" and "getattr" not in used:
            used.add("getattr")
            members.append({"kind": "getattr", "name": "__getattr__", "use": None})
        elif k == "hook_own" and rng.random() < 0.3:
            members.append({"kind": "hook_own", "name": "__attrs_init_subclass__"})
    # free variables of the enclosing function next to __class__: cells that are still EMPTY when the decorator runs
    # (sorting before / after `__class__` in co_freevars) or hold some other object
    free = rng.choice([None, None, "before", "after", "both", "bound"])
    r["free"] = free
    if free:
        r["nest"] = "func"
        for m in members:
            if m["kind"] in ("func", "cm", "sm", "prop", "cached", "getattr", "descr", "wrapped") and rng.random() < 0.7:
                m["free"] = free
    # instances of strict SUBCLASSES of the kinds the builder tests for (isinstance everywhere)
    for m in members:
        if m["kind"] in ("cm", "sm", "prop", "cached") and rng.random() < 0.3:
            m["sub"] = True
    # an INHERITED field name re-bound in the body as a plain class attribute / method (not a field)
    inh = {"SA": ["a", "b"], "SAnw": ["a"], "DA": ["a"], "SAH": ["a"], "SAV": ["a"], "SAV_P": ["a"], "SAV_PD": ["a"],
           "SAC": ["a"], "DAH": ["a"], "SA_Psh": ["b"]}.get(prim, []) + (["h"] if mix == "DAV" else [])
    inh = [n for n in inh if n not in r["fields"]]
    if inh and rng.random() < 0.3:
        n = rng.choice(inh)
        if rng.random() < 0.6:
            members.append({"kind": "plain", "name": n, "value": rng.choice(["5", "'s'", "None"])})
        else:
            members.append({"kind": "func", "name": n, "use": None})
    rng.shuffle(members)
    r["members"] = members
    r["own_slots_weakref"] = (not r["bases"]) and rng.random() < 0.08
    # access sequences over two instances
    names = [m["name"] for m in members if m["kind"] == "cached"]
    if prim == "SAC":
        names.append("ca")
    names += ["dyn1", "nope"]
    ops = []
    for k in range(rng.choice([0, 2, 4, 6, 8])):
        n = rng.choice(names[:-2] * 3 + names) if names[:-2] else rng.choice(names)
        ops.append([rng.randrange(2), rng.choice(["get", "get", "get", "get", "del", "set"]), n, k])
    if rng.random() < 0.5:
        ops = [o for o in ops if o[1] == "get"]
    r["ops"] = ops
    return r


def _expr(use):
    return "__class__" if use == "class" else "super().__thisclass__"


FREE_NAMES = {"before": "AFREE", "after": "zfree", "both": "AFREE, zfree", "bound": "bound_"}


def member_lines(m):
    out = _member_lines(m)
    if m.get("free"):
        # never executed (BOX is a list), but makes the names free variables of the function
        guard = ["    if BOX is None:", "        " + FREE_NAMES[m["free"]]]
        res = []
        for l in out:
            res.append(l)
            if l.startswith("def ") and l.rstrip().endswith(":"):
                res += guard
        return res
    return out


def _member_lines(m):
    k, n = m["kind"], m["name"]
    if k in ("func", "descr", "wrapped", "cm", "sm"):
        head = {"func": [], "descr": ["@Desc"], "wrapped": ["@deco"], "cm": ["@CM2" if m.get("sub") else "@classmethod"],
                "sm": ["@SM2" if m.get("sub") else "@staticmethod"]}[k]
        arg = {"cm": "cls", "sm": "o"}.get(k, "self")
        body = ["    BOX.append(%s)" % _expr(m["use"])] if m["use"] else []
        return head + ["def %s(%s):" % (n, arg)] + body + ["    return 1"]
    if k == "lambda":
        return ["%s = lambda self: BOX.append(%s)" % (n, _expr(m["use"]))]
    if k == "prop":
        out = []

        def acc_body(u):
            return ["    BOX.append(%s)" % _expr(u)] if u not in (None, "plain") else []
        pcls = "Prop2" if m.get("sub") else "property"
        if m["get"] is None:
            out.append("%s = %s()" % (n, pcls))
        else:
            out += ["@" + pcls, "def %s(self):" % n] + acc_body(m["get"]) + ["    return 1"]
        if m["set"] is not None:
            out += ["@%s.setter" % n, "def %s(self, v):" % n] + acc_body(m["set"]) + ["    pass"]
        if m["del"] is not None:
            out += ["@%s.deleter" % n, "def %s(self):" % n] + acc_body(m["del"]) + ["    pass"]
        return out
    if k == "cached":
        body = ["    BOX.append(%s)" % _expr(m["use"])] if m["use"] else []
        return ["@CP2" if m.get("sub") else "@functools.cached_property",
                "def %s(self)%s:" % (n, " -> int" if m["ann"] else "")] + body + [
            "    n = COUNT.get((%r, id(self)), 0)" % n, "    COUNT[(%r, id(self))] = n + 1" % n,
            "    return ('comp', %r, id(self), n)" % n]
    if k == "getattr":
        body = ["    BOX.append(%s)" % _expr(m["use"])] if m["use"] else []
        return ["def __getattr__(self, n):"] + body + ["    if n.startswith('dyn'):", "        return ('dyn', 'own', n)",
                                                       "    raise AttributeError(n)"]
    if k == "plain":
        return ["%s = %s" % (n, m["value"])]
    if k == "nested":
        return ["class %s:" % n, "    pass"]
    if k == "hook_own":
        return ["@classmethod", "def __attrs_init_subclass__(cls):", "    HOOKCB[0](cls)"]
    raise ValueError(k)


def field_default(name):
    return {"x": 1, "y": 2, "z": 3, "a": 20, "s1": 30, "ab": 40, "h": 50}[name]


def source_of(r):
    out = [PRELUDE]
    seen_src = set()
    base_names = []
    for bk in r["bases"]:
        nm, src = BASES.get(bk) or MIXINS[bk]
        if src not in seen_src:
            out.append(src)
            seen_src.add(src)
        base_names.append(nm)
    hdr = list(base_names)
    if r["meta"] == "M":
        hdr.append("metaclass=M")
    elif r["meta"] == "ABC":
        hdr.append("metaclass=abc.ABCMeta")
    body = []
    if r["doc"]:
        body.append('"doc of C"')
    if r["own_slots_weakref"]:
        body.append('__slots__ = ("__weakref__",)')
    items = []
    for f in r["fields"]:
        if r["api"] == "attrs":
            items.append(["%s = attr.ib(default=%d)" % (f, field_default(f))])
        elif r["field_style"] == "plain":
            items.append(["%s: int = %d" % (f, field_default(f))])
        else:
            items.append(["%s: int = attrs.field(default=%d)" % (f, field_default(f))])
    items_m = [member_lines(m) for m in r["members"]]
    # fields keep their relative order; members are interleaved deterministically
    k = 0
    for i, ml in enumerate(items_m):
        if k < len(items) and i % 2 == 0:
            body += items[k]
            k += 1
        body += ml
    for rest in items[k:]:
        body += rest
    if not body:
        body = ["pass"]
    cls_lines = ["class C(%s):" % ", ".join(hdr) if hdr else "class C:"] + ["    " + l for l in body]
    if r["nest"] == "top":
        out += cls_lines + ["ORIG = C", "del C"]
    elif r["nest"] == "func":
        pre = ["    bound_ = 7"] if r.get("free") == "bound" else []
        post = ["    AFREE = 1", "    zfree = 2"] if r.get("free") in ("before", "after", "both") else []
        out += ["def make():"] + pre + ["    " + l for l in cls_lines] + ["    return C"] + post + ["ORIG = make()"]
    else:
        out += ["class Outer:"] + ["    " + l for l in cls_lines] + ["ORIG = Outer.C"]
    return "\n".join(out) + "\n"


# --------------------------------------------------------------------------------------
# part A: real run + introspection

_modcount = itertools.count()


def _fresh_module(src):
    name = "c08_mod_%d" % next(_modcount)
    mod = types.ModuleType(name)
    mod.__file__ = "<%s>" % name
    sys.modules[name] = mod
    try:
        exec(compile(src, mod.__file__, "exec"), mod.__dict__)
    except BaseException:
        sys.modules.pop(name, None)
        raise
    return mod


def _drop_module(mod):
    sys.modules.pop(mod.__name__, None)
    for k in [k for k in linecache.cache if "c08_mod_" in k or "attrs generated" in k]:
        linecache.cache.pop(k, None)


class _Cells:
    def __init__(self, orig):
        self.ids = {}
        self.objs = []
        self.orig = orig

    def cid(self, cell):
        k = id(cell)
        if k not in self.ids:
            self.ids[k] = len(self.objs)
            self.objs.append(cell)
        return self.ids[k]

    def of(self, fn):
        cl = getattr(fn, "__closure__", None)
        return [self.cid(c) for c in cl] if cl else []

    def class_cell(self, fn):
        fv = fn.__code__.co_freevars
        if "__class__" not in fv:
            return None
        return self.cid(fn.__closure__[fv.index("__class__")])

    def store_term(self):
        out = []
        for i, c in enumerate(self.objs):
            try:
                v = c.cell_contents
            except ValueError:
                out.append("(%d, CEmpty)" % i)
                continue
            out.append("(%d, %s)" % (i, "CCls %d" % OLD if v is self.orig else "COther"))
        return lst(out)


def _nat_list(l):
    return lst(str(x) for x in l)


def _classify(obj, cells, desc_cls):
    """kind term of a namespace object (same isinstance order as the rewrite loop)."""
    if isinstance(obj, (classmethod, staticmethod)):
        return "(K%s %s)" % ("ClassM" if isinstance(obj, classmethod) else "StaticM", _nat_list(cells.of(obj.__func__)))
    if isinstance(obj, property):
        return "(KProp %s %s %s)" % tuple(opt(None if f is None else _nat_list(cells.of(f))) for f in (obj.fget, obj.fset, obj.fdel))
    if isinstance(obj, functools.cached_property):
        import inspect
        ann = inspect.signature(obj.func).return_annotation is not inspect.Parameter.empty
        return "(KCached %s %s)" % (_nat_list(cells.of(obj.func)), b(ann))
    if isinstance(obj, desc_cls):
        return "(KDescr %s)" % _nat_list(cells.of(obj.f))
    if isinstance(obj, types.FunctionType):
        return "(KFunc %s)" % _nat_list(cells.of(obj))
    if isinstance(obj, attr._make._CountingAttr):
        return "KField"
    if isinstance(obj, types.GetSetDescriptorType):
        return {"__dict__": "KDictDescr", "__weakref__": "KWeakrefDescr"}.get(obj.__name__, "KPlain")
    if isinstance(obj, types.MemberDescriptorType):
        return "KSlotDescr"
    return "KPlain"


ATTRS_GEN = {"__attrs_attrs__", "__attrs_props__", "__init__", "__attrs_init__", "__repr__", "__str__", "__eq__", "__ne__",
             "__lt__", "__le__", "__gt__", "__ge__", "__hash__", "__getstate__", "__setstate__", "__match_args__",
             "__delattr__", "__replace__", "__abstractmethods__", "_abc_impl", "__annotations__", "__module__",
             "__firstlineno__", "__static_attributes__"}


def _norm_slots(v):
    if isinstance(v, str):
        return [v]
    return list(v)


def _probe_list(r):
    out = []
    for m in r["members"]:
        if m["kind"] == "prop":
            for acc in ("get", "set", "del"):
                if m[acc] in ("class", "super"):
                    out.append({"name": m["name"], "kind": "prop", "acc": acc, "use": m[acc]})
        elif m.get("use"):
            out.append({"name": m["name"], "kind": m["kind"], "acc": None, "use": m["use"]})
    return out


def _probe_fn(orig_ns, pd):
    o = orig_ns[pd["name"]]
    k = pd["kind"]
    if k in ("cm", "sm"):
        return o.__func__
    if k == "prop":
        return {"get": o.fget, "set": o.fset, "del": o.fdel}[pd["acc"]]
    if k == "cached":
        return o.func
    if k == "descr":
        return o.f
    if k == "wrapped":
        return o.__wrapped__
    return o


def _run_probe(cls, pd, mod, frozen):
    """Call one closure user through the class / a fresh instance; returns the raw object it showed."""
    try:
        inst = cls()
        k, n = pd["kind"], pd["name"]
        mod.BOX.clear()
        if k in ("func", "descr", "wrapped", "lambda"):
            getattr(inst, n)()
        elif k == "cm":
            getattr(cls, n)()
        elif k == "sm":
            getattr(cls, n)(inst)
        elif k == "prop":
            acc = pd["acc"]
            if acc == "get":
                getattr(inst, n)
            elif frozen:
                p = cls.__dict__[n]
                (p.fset(inst, 1) if acc == "set" else p.fdel(inst))
            elif acc == "set":
                setattr(inst, n, 1)
            else:
                delattr(inst, n)
        elif k == "cached":
            getattr(inst, n)
        elif k == "getattr":
            inst.dyn_probe
        if not mod.BOX:
            return ("exc", "NothingRecorded")
        return ("val", mod.BOX[0])
    except TypeError:
        return ("exc", "TypeError")
    except Exception as e:
        return ("exc", type(e).__name__)


def _view(raw, new, orig):
    if raw[0] == "val":
        return "VwNew" if raw[1] is new else ("VwOld" if raw[1] is orig else "VwOther")
    return "VwTypeErr" if raw[1] == "TypeError" else "VwOther"


def wrote_own_setattr(r, all_attrs):
    if r["frozen"]:
        return True
    if r["api"] == "define":
        return any(a.validator is not None or a.converter is not None for a in all_attrs)
    return False


def _observe(r, mod, orig, new, ns0, oid, cells, probes, own, attr_names, wrote, mro, hook_raw):
    base_slot_names = []
    for bc in new.__mro__[1:-1]:
        if "__slots__" in bc.__dict__:
            base_slot_names += _norm_slots(bc.__dict__["__slots__"])
    keyset = set(ns0) | set(new.__dict__) | {"__slots__", "__attrs_own_setattr__", "__setattr__", "__getattr__",
                                             "__qualname__", "__weakref__", "__dict__"} | set(base_slot_names)
    keyset -= ATTRS_GEN
    if wrote:
        keyset -= {"__setattr__", "__attrs_own_setattr__"}
    keys = sorted(keyset)

    def seen_id(k):
        if k not in new.__dict__:
            return None
        o = new.__dict__[k]
        if k == "__attrs_own_setattr__":
            return 0 if o is False else 9
        if k == "__setattr__" and o is object.__setattr__:
            return 1
        if k == "__slots__":
            return 2 if isinstance(o, tuple) else 9
        if isinstance(o, types.MemberDescriptorType) and o.__objclass__ is new:
            return 5
        if k in ("__weakref__", "__dict__") and isinstance(o, types.GetSetDescriptorType) and o.__objclass__ is new:
            # in __slots__: asked for by attrs; otherwise CPython's layout rule for secondary bases
            # added it on its own (not part of the namespace transformation)
            return 6 if k in new.__slots__ else None
        if id(o) in oid:
            return oid[id(o)]
        if k == "__getattr__" and isinstance(o, types.FunctionType) and "cached_properties" in (o.__code__.co_varnames):
            return 4
        return 9

    ns_seen = [seen_id(k) for k in keys]
    same = [new.__name__ == orig.__name__, new.__qualname__ == orig.__qualname__, new.__module__ == orig.__module__,
            new.__doc__ == orig.__doc__, new.__bases__ == orig.__bases__, type(new) is type(orig)]
    views = [_view(_run_probe(new, pd, mod, r["frozen"]), new, orig) for pd in probes]
    inst = new()
    has_dict = hasattr(inst, "__dict__")
    try:
        inst.zz_unknown_attribute = 1
        rejects = False
    except AttributeError:
        rejects = True
    try:
        weakref.ref(inst)
        wr = True
    except TypeError:
        wr = False
    slotcount = []
    for f in own:
        slotcount.append(sum(1 for c in new.__mro__ if f in _norm_slots(c.__dict__.get("__slots__", ()))))
    # access sequences
    mod.COUNT.clear()
    insts = [new(), new()]
    idx = {id(x): i for i, x in enumerate(insts)}
    ops_seen, ops_js = [], []
    for i, op, n, k in r["ops"]:
        try:
            if op == "get":
                v = getattr(insts[i], n)
                if isinstance(v, tuple) and v and v[0] == "comp":
                    t, js = "(RVal (VComp %s %d %d))" % (q(v[1]), idx.get(v[2], 77), v[3]), ["comp", v[1], idx.get(v[2], 77), v[3]]
                elif isinstance(v, tuple) and v and v[0] == "dyn":
                    t, js = "(RVal (VDyn %s %s))" % (q(v[1]), q(v[2])), list(v)
                elif isinstance(v, int) and not isinstance(v, bool):
                    t, js = "(RVal (VTok %d))" % v, v
                else:
                    t, js = "(RVal (VDyn %s %s))" % (q("UNEXPECTED"), q(type(v).__name__)), repr(v)
            elif op == "del":
                delattr(insts[i], n)
                t, js = "RDone", "done"
            else:
                setattr(insts[i], n, k)
                t, js = "RDone", "done"
        except AttributeError:
            t, js = "RAttrErr", "AttributeError"
        except Exception as e:
            t, js = "(RVal (VDyn %s %s))" % (q("UNEXPECTED"), q(type(e).__name__)), type(e).__name__
        ops_seen.append(t)
        ops_js.append(js)
    hook_seen = [(c is new, [_view(x, new, orig) for x in raws]) for c, raws in hook_raw]
    seen_t = "(Build_body_obs None %s %s %s %s %s %s %s %s %s %s)" % (
        lst(b(x) for x in same), lst(opt(x, str) for x in ns_seen), lst(q(n) for n in new.__slots__), lst(views),
        b(has_dict), b(rejects), b(wr), lst(str(x) for x in slotcount), lst(ops_seen),
        lst("(%s, %s)" % (b(f), lst(vs)) for f, vs in hook_seen))
    seen = {"same(name,qualname,module,doc,bases,metaclass)": same, "namespace": dict(zip(keys, ns_seen)),
            "__slots__": list(new.__slots__), "views": views, "has_dict": has_dict, "rejects_unknown": rejects,
            "weakrefable": wr, "slots_per_own_field": slotcount, "ops": ops_js,
            "hook_calls": [[f, vs] for f, vs in hook_seen]}
    # ---- python replica of post_ok (which clauses fail) -------------------------------
    failed = []
    if not all(same):
        failed.append("same")
    has_cached = any(isinstance(v, functools.cached_property) and k not in attr_names for k, v in ns0.items())
    for k, sid in zip(keys, ns_seen):
        if k in ns0 and k not in attr_names and k not in ("__dict__", "__weakref__"):
            kind = _classify(ns0[k], cells, mod.Desc)
            if kind.startswith(("(KFunc", "(KClassM", "(KStaticM", "(KProp", "(KDescr", "KPlain")):
                if (has_cached and k == "__getattr__") or k == "__slots__":
                    continue
                if sid != oid[id(ns0[k])]:
                    failed.append("survivor:" + k)
    cov = [pd["kind"] in ("func", "cm", "sm", "prop", "cached", "getattr", "lambda") for pd in probes]
    if any(c and v != "VwNew" for c, v in zip(cov, views)):
        failed.append("views")
    base_dict = any("__dict__" in bc.__dict__ for bc in mro)
    if has_dict != base_dict:
        failed.append("dict")
    if not (has_dict or rejects):
        failed.append("rejects")
    inh_wr = any(bc.__dict__.get("__weakref__", None) is not None for bc in mro)
    if wr != (r["weakref_slot"] or inh_wr):
        failed.append("weakref")
    if any(c != 1 for c in slotcount):
        failed.append("one-slot")
    if all(o[1] == "get" for o in r["ops"]):
        own_cached = [k for k, v in ns0.items() if isinstance(v, functools.cached_property) and k not in attr_names]
        for (i, op, n, k), js in zip(r["ops"], ops_js):
            if n in own_cached and js != ["comp", n, i, 0]:
                failed.append("cached-once")
                break
    hook_expected = any("__attrs_init_subclass__" in bc.__dict__ for bc in mro) and "__attrs_init_subclass__" not in ns0
    if hook_expected:
        if not (len(hook_seen) == 1 and hook_seen[0][0] and not any(c and v != "VwNew" for c, v in zip(cov, hook_seen[0][1]))):
            failed.append("hook")
    post = not failed
    return seen_t, seen, keys, base_slot_names, post, failed


def run_body(r):
    """Exec the body, read the model's input off the original class, decorate, observe."""
    src = source_of(r)
    try:
        mod = _fresh_module(src)
    except Exception as e:
        # a base class of the generated module could not be built: nothing the model could be asked about
        what = "body-module-failed:" + type(e).__name__
        return [Case("(CMeta [(%s, 0%%Z, 1%%Z)])" % q(what), r, {"error": what, "detail": str(e)[:300]},
                     sig={"layer": "model", "kind": "module-exec-failed"}, key=json.dumps(r, sort_keys=True))]
    try:
        return _run_body(r, mod)
    finally:
        _drop_module(mod)


def _run_body(r, mod):
    orig = mod.ORIG
    ns0 = dict(orig.__dict__)
    cells = _Cells(orig)
    oid = {}

    def obj_id(o):
        return oid.setdefault(id(o), 10 + len(oid))

    ns_terms = []
    for k, v in ns0.items():
        ns_terms.append("(%s, (%d, %s))" % (q(k), obj_id(v), _classify(v, cells, mod.Desc)))
    probes = _probe_list(r)
    probe_cells = []
    for pd in probes:
        probe_cells.append(cells.class_cell(_probe_fn(ns0, pd)))
    # bases
    mro = orig.__mro__[1:-1]
    base_terms = []
    base_fields = None
    for bi, bc in enumerate(mro):
        def slot_item(n):
            try:
                d = getattr(bc, n)
            except AttributeError:
                return q(n), "None"
            return q(n), "(Some %d)" % obj_id(d)
        raw_slots = getattr(bc, "__slots__", [])
        if isinstance(raw_slots, str):
            slots_t = "(SlotsStr %s %s)" % slot_item(raw_slots)
        else:
            slots_t = "(SlotsSeq %s)" % lst("(%s, %s)" % slot_item(n) for n in raw_slots)
        os_ = bc.__dict__.get("__attrs_own_setattr__")
        lay = bc.__dict__.get("_c08_layer")
        if lay is None and "__getattr__" in bc.__dict__:
            raise vlib.Infra("base %r defines __getattr__ without a _c08_layer marker" % bc)
        lay_t = "None" if lay is None else "(Some (Build_layer %s %s))" % (lst(q(x) for x in lay[0]), opt(lay[1], q))
        base_terms.append("(Build_base %d %s %s %s %s %s %s %s)" % (
            2 + bi, slots_t, b(bc.__dict__.get("__weakref__", None) is not None), b("__dict__" in bc.__dict__),
            "None" if os_ is None else "(Some %s)" % b(bool(os_)), b(bc in orig.__bases__),
            b("__attrs_init_subclass__" in bc.__dict__), lay_t))
        if "__attrs_attrs__" in bc.__dict__:
            # every attrs lineage contributes (two attrs bases); the order of inherited names is immaterial here
            base_fields = (base_fields or []) + [a for a in attr.fields(bc)
                                                 if a.name not in [x.name for x in (base_fields or [])]]
    base_fields = base_fields or []
    own = list(r["fields"])
    inherited = [a.name for a in base_fields if a.name not in own]
    attr_names = inherited + own
    wrote = wrote_own_setattr(r, [a for a in base_fields if a.name not in own])
    n_cells_before = None
    # ------------------------------------------------------------------ the real build
    hook_raw = []

    def hookcb(cls):
        hook_raw.append((cls, [_run_probe(cls, pd, mod, r["frozen"]) for pd in probes]))

    kwargs = {}
    if r["api"] == "attrs":
        kwargs["slots"] = True
    if r["weakref_slot"] is False:
        kwargs["weakref_slot"] = False
    if r["frozen"]:
        kwargs["frozen"] = True
    if r["cache_hash"]:
        kwargs["cache_hash"] = True
        kwargs["unsafe_hash"] = True
    # cells must be snapshotted before the decorator rewrites them
    fresh_cell = len(cells.objs)
    store_t = cells.store_term()
    orig_slots = _norm_slots(getattr(orig, "__slots__", ()))
    inp_t = ("(Build_input %d %d %s %s %s %s %s %s %s %s false %s %d)" % (
        OLD, NEW_ID, lst(ns_terms), lst(q(n) for n in attr_names), lst(q(n) for n in inherited), lst(base_terms),
        b(r["weakref_slot"]), b(r["cache_hash"]), lst(q(n) for n in orig_slots), b(wrote), store_t, fresh_cell))
    mod.HOOKCB[0] = hookcb
    err = None
    new = None
    try:
        new = (attr.s if r["api"] == "attrs" else attrs.define)(**kwargs)(orig)
    except Exception as e:
        err = type(e).__name__
    finally:
        mod.HOOKCB[0] = lambda cls: None
    facts = {"own_slots_weakref": bool(r["own_slots_weakref"]), "base_str_slots": "PSstr" in r["bases"],
             "bases": "+".join(r["bases"]) or "none"}
    ops_t = lst("(O%s %d %s%s)" % ({"get": "Get", "del": "Del", "set": "Set"}[o[1]], o[0], q(o[2]),
                                  " %d" % o[3] if o[1] == "set" else "") for o in r["ops"])
    probes_t = lst("(Build_probe %d %s %s)" % (c if c is not None else 999, "UClass" if pd["use"] == "class" else "USuper",
                                              b(pd["kind"] in ("func", "cm", "sm", "prop", "cached", "getattr", "lambda")))
                   for pd, c in zip(probes, probe_cells))
    if err is None:
        try:
            obs = _observe(r, mod, orig, new, ns0, oid, cells, probes, own, attr_names, wrote, mro, hook_raw)
        except Exception as e:
            # the new class exists but cannot even be observed (e.g. instances cannot be created)
            err = "Observe:" + type(e).__name__
    if err is not None:
        seen_t = ("(Build_body_obs (Some %s) [] [] [] [] false false false [] [] [])" % q(err))
        seen = {"error": err}
        keys, base_slot_names = [], []
        post = False
        failed = ["build:" + err]
    else:
        seen_t, seen, keys, base_slot_names, post, failed = obs
    body_fmt = "(Build_body_case %s %s %s %s %s %s %s %s %%s)" % (
        inp_t, lst(q(k) for k in keys), probes_t, b(r["frozen"]), lst(q(f) for f in own),
        lst(q(n) for n in base_slot_names), ops_t, seen_t)
    nontrivial = bool(probes or r["bases"] or r["fields"] or any(m["kind"] == "cached" for m in r["members"]))
    key = json.dumps(r, sort_keys=True)
    out = [Case("(CBody %s)" % (body_fmt % b(not post)), r, seen, sig={"layer": "model"}, nontrivial=nontrivial, key=key)]
    if not post:
        sig = {"layer": "property", "kind": "property-violated", "failed": "+".join(sorted(set(f.split(":")[0] for f in failed)))}
        sig.update(facts)
        r2 = dict(r)
        r2["family"] = "body-post"
        out.append(Case("(CPost %s)" % (body_fmt % "true"), r2, seen, sig=sig, nontrivial=nontrivial, key="post:" + key))
    return out


# --------------------------------------------------------------------------------------
# part B: metamorphic slots-vs-dict comparison of initgen specifications


class OTok(g.Tok):
    """Pool value: equality, ordering and hash by number (so that distinct constructions can be equal)."""
    __slots__ = ()

    def __eq__(self, other):
        return self.n == other.n if isinstance(other, OTok) else NotImplemented

    def __ne__(self, other):
        return self.n != other.n if isinstance(other, OTok) else NotImplemented

    def __lt__(self, other):
        return self.n < other.n if isinstance(other, OTok) else NotImplemented

    def __le__(self, other):
        return self.n <= other.n if isinstance(other, OTok) else NotImplemented

    def __gt__(self, other):
        return self.n > other.n if isinstance(other, OTok) else NotImplemented

    def __ge__(self, other):
        return self.n >= other.n if isinstance(other, OTok) else NotImplemented

    def __hash__(self):
        return hash(("OTok", self.n))


POOLV = [OTok(i) for i in range(4)]
_HASH_CACHE_FIELD = attr._make._HASH_CACHE_FIELD


class _DecoProxy:
    """Stands in for the attr / attrs module inside ClassUnderTest.build to pass extra decorator arguments."""

    def __init__(self, mod, extra):
        self._m, self._x = mod, extra

    def __getattr__(self, n):
        return getattr(self._m, n)

    def s(self, *a, **kw):
        kw.update(self._x.get("attrs", {}))
        return self._m.s(*a, **kw)

    def define(self, *a, **kw):
        kw.update(self._x.get("define", {}))
        return self._m.define(*a, **kw)

    def make_class(self, name, d, **kw):
        kw.update(self._x.get("attrs", {}))
        return self._m.make_class(name, d, **kw)


class CUT2(g.ClassUnderTest):
    def __init__(self, spec, extra=None):
        self.extra = extra
        super().__init__(spec)

    def build(self):
        if not self.extra:
            return super().build()
        oa, oas = g.attr, g.attrs
        g.attr, g.attrs = _DecoProxy(oa, self.extra), _DecoProxy(oas, self.extra)
        try:
            super().build()
        finally:
            g.attr, g.attrs = oa, oas


class PlainOver:
    """An undecorated class between two attrs classes of a chain."""

    def __init__(self, base, uid, with_slots):
        self.base = base
        self.spec = base.spec
        self.def_error = None
        self.cls = type("P" + uid, (base.cls,), {"__slots__": ()} if with_slots else {})

    frozen = property(lambda self: self.base.frozen)
    is_exc_base = property(lambda self: self.base.is_exc_base)
    field_names = property(lambda self: self.base.field_names)

    def has_hook(self, which):
        return self.base.has_hook(which)


def _copy_spec(spec, base, slots):
    s2 = {k: copy.deepcopy(v) for k, v in spec.items() if k not in ("base", "_named_sig")}
    s2["base"] = base
    s2["slots"] = slots
    s2["plain_between"] = False       # the undecorated class in between is PlainOver's business here (both builds)
    return s2


def _fix_mandatory(spec):
    for f in spec["fields"]:
        if f["default"] is None and f["init"]:
            f["kw_only"] = True


def build_pair(rng):
    """Returns (cutS, cutD, facts) - the same specification chain built with slots on / off at the
    leaf ("leaf") or at every level ("chain")."""
    variant = rng.choice(["leaf", "leaf", "chain"])
    depth = rng.choice([1, 1, 2, 2, 3])
    plain_between = depth >= 2 and rng.random() < 0.2
    plain_slots = rng.random() < 0.5
    legacy = rng.random() < 0.12
    gs = rng.choice([None, None, True, False, False])
    facts = {"variant": variant, "depth": depth, "plain_between": plain_between, "legacy_hash_false": False,
             "k6_shape": False, "getstate_setstate": str(gs)}
    bS = bD = None
    for level in range(depth):
        leaf = level == depth - 1
        uid = "%d" % (level + 1)
        for _attempt in range(30):
            spec = g.gen_class_spec(rng, uid, base=bS)
            extra = None
            is_legacy = leaf and legacy and not spec["cache_hash"]
            if is_legacy:
                extra = {"attrs": {"hash": False}, "define": {"unsafe_hash": False}}
            if leaf and gs is not None:
                extra = extra or {"attrs": {}, "define": {}}
                extra["attrs"]["getstate_setstate"] = gs
                extra["define"]["getstate_setstate"] = gs
            flip = leaf or variant == "chain"
            sS = _copy_spec(spec, bS, True if flip else spec["slots"])
            cS = CUT2(sS, extra)
            if cS.def_error and "No mandatory attributes" in cS.def_error[1]:
                _fix_mandatory(spec)
                sS = _copy_spec(spec, bS, True if flip else spec["slots"])
                cS = CUT2(sS, extra)
            if cS.def_error and not leaf:
                continue            # bases must exist; rejected definitions are compared at the leaf only
            if cS.def_error and "No mandatory attributes" in cS.def_error[1]:
                continue
            if flip:
                cD = CUT2(_copy_spec(spec, bD, False), extra)
            else:
                cD = cS if bS is bD else CUT2(_copy_spec(spec, bD, spec["slots"]), extra)
            if not leaf and cD.def_error:
                continue
            break
        else:
            return None
        if leaf:
            facts["legacy_hash_false"] = bool(is_legacy)
            chain, cb = [], bS
            while cb is not None:
                if not isinstance(cb, PlainOver):
                    chain.append(cb.spec["cache_hash"])
                cb = cb.base if isinstance(cb, PlainOver) else cb.spec["base"]
            facts["cache_hash_in_base"] = any(chain)
            facts["spec"] = _describe(cS)
            return cS, cD, facts
        bS, bD = cS, cD
        if plain_between and level == depth - 2:
            own = bS.cls.__dict__.get("__attrs_own_setattr__") is True and bD.cls.__dict__.get("__attrs_own_setattr__") is True
            facts["k6_shape"] = bool(own)
            pS = PlainOver(bS, uid, plain_slots)
            bD = pS if bS is bD else PlainOver(bD, uid, plain_slots)
            bS = pS
    return None


def _describe(c):
    s = c.spec
    d = {k: v for k, v in s.items() if k not in ("base", "_named_sig")}
    b_ = s["base"]
    if isinstance(b_, PlainOver):
        d["base"] = {"plain_class_over": _describe(b_.base)}
    else:
        d["base"] = _describe(b_) if b_ is not None else None
    return d


def _outcome(fn):
    try:
        return ["ok", fn()]
    except g.Marker as m:
        return ["marker", m.idx]
    except Exception as e:
        return ["raised", type(e).__name__]


def _state(cls, inst):
    return [(a.name, "<unset>" if (v := getattr(inst, a.name, g.UNSET)) is g.UNSET else g.js_val(v)) for a in attr.fields(cls)]


def _all_set(cls, inst):
    return all(getattr(inst, a.name, g.UNSET) is not g.UNSET for a in attr.fields(cls))


def _stable_values(cls, inst):
    return all(isinstance(getattr(inst, a.name, None), OTok) or getattr(inst, a.name, None) is None for a in attr.fields(cls))


def _pool_shapes(cut, seed):
    rng = random.Random(seed)
    counter = [0]
    out = []
    for pos, kw, kind in g.call_shapes(cut, rng, counter):
        m = lambda v: POOLV[v.n % len(POOLV)] if isinstance(v, g.Tok) else v
        out.append(([m(v) for v in pos], [(n, m(v)) for n, v in kw], kind))
    return out


def observe_build(cut, shape_seed):
    """Everything the property lists as build-independent, as a dict label -> JSON-able value."""
    obs = {}
    obs["def"] = cut.def_error[0] if cut.def_error else "ok"
    if cut.cls is None:
        return obs
    cls = cut.cls
    g.REC.cls = cls
    obs["sig"] = g.signature_of(cls)
    obs["fields"] = [(a.name, a.init, bool(a.eq), bool(a.order), a.hash, a.kw_only, a.inherited, a.alias,
                      a.default is attr.NOTHING, a.repr is not False, a.on_setattr is not None) for a in attr.fields(cls)]
    shapes = _pool_shapes(cut, shape_seed)
    insts = []
    first_ok = None
    for k, (pos, kw, kind) in enumerate(shapes):
        _, js, n, inst = g.construct(cut, pos, kw)
        obs["call:%d:%s" % (k, kind)] = js
        if inst is not None:
            insts.append(inst)
            if first_ok is None:
                first_ok = (pos, kw, n)
    insts = insts[:5]
    if first_ok is not None:
        pos, kw, n = first_ok
        obs["call:validators-off"] = g.construct(cut, pos, kw, validators_on=False)[1]
        for k in range(min(n, 6)):
            obs["fault:%d" % k] = g.construct(cut, pos, kw, fault_at=k)[1]
    g.REC.reset()

    def cmp_matrix(opf):
        return [[_outcome(lambda: g.js_val(opf(a, b_))) for b_ in insts] for a in insts]
    import operator
    obs["eq"] = cmp_matrix(operator.eq)
    obs["ne"] = cmp_matrix(operator.ne)
    obs["order"] = [cmp_matrix(f) for f in (operator.lt, operator.le, operator.gt, operator.ge)]
    hs = [_outcome(lambda x=x: hash(x)) for x in insts]
    obs["hash"] = {"outcome": [h[0] if h[0] != "raised" else h[1] for h in hs],
                   "partition": [[(hs[i][1] == hs[j][1]) if hs[i][0] == "ok" and hs[j][0] == "ok" else None
                                  for j in range(len(insts))] for i in range(len(insts))]}
    obs["repr"] = [_outcome(lambda x=x: repr(x)) for x in insts]
    obs["asdict"] = [_outcome(lambda x=x: [(k_, g.js_val(v)) for k_, v in attr.asdict(x, recurse=False).items()]) for x in insts]
    obs["astuple"] = [_outcome(lambda x=x: [g.js_val(v) for v in attr.astuple(x, recurse=False)]) for x in insts]
    if first_ok is not None:
        pos, kw, _n = first_ok

        def fresh():
            inst = cls(*pos, **dict(kw))
            g.REC.reset()
            return inst
        for a in attr.fields(cls):
            inst = fresh()
            r = _outcome(lambda: setattr(inst, a.name, POOLV[3]))
            obs["assign:" + a.name] = [r, [g.js_event(e) for e in g.REC.trace], _state(cls, inst)]
            inst = fresh()
            r = _outcome(lambda: delattr(inst, a.name))
            obs["del:" + a.name] = [r, _state(cls, inst)]
            if a.init:
                inst = fresh()
                r = _outcome(lambda: _state(cls, attr.evolve(inst, **{a.alias: POOLV[2]})))
                obs["evolve:" + a.name] = [r, [g.js_event(e) for e in g.REC.trace]]
        inst = fresh()
        r = _outcome(lambda: _state(cls, attr.evolve(inst)))
        obs["evolve:"] = [r, [g.js_event(e) for e in g.REC.trace]]
        inst = fresh()
        if _all_set(cls, inst):
            stable = _stable_values(cls, inst)

            def after(res):
                return [type(res) is cls, _state(cls, res), _outcome(lambda: g.js_val(res == inst))]

            def hash_kept(res):
                return _outcome(lambda: hash(res) == hash(inst))
            for opname, opf in (("copy", copy.copy), ("deepcopy", copy.deepcopy)):
                r = _outcome(lambda: opf(inst))
                obs[opname] = [r[0], after(r[1])] if r[0] == "ok" else r
                if r[0] == "ok" and stable:
                    obs["hashkept:" + opname] = hash_kept(r[1])
            had = getattr(g, cls.__name__, None)
            setattr(g, cls.__name__, cls)
            try:
                r = _outcome(lambda: pickle.loads(pickle.dumps(inst)))
                obs["pickle"] = [r[0], after(r[1])] if r[0] == "ok" else r
                if r[0] == "ok" and stable:
                    obs["hashkept:pickle"] = hash_kept(r[1])
                # field values that are falsy / sentinels (attrs.NOTHING in-band, None, False, 0, empty containers)
                specials = [attr.NOTHING, None, False, 0, (), [], {}, ""]
                sx = fresh()
                for k_, a in enumerate(attr.fields(cls)):
                    object.__setattr__(sx, a.name, specials[(shape_seed + k_) % len(specials)])
                sbefore = _state(cls, sx)

                def after_special(res):
                    return [type(res) is cls, _outcome(lambda: _state(cls, res) == sbefore), _state(cls, res),
                            _outcome(lambda: g.js_val(res == sx))]
                for opname, opf in (("copy", copy.copy), ("deepcopy", copy.deepcopy),
                                    ("pickle", lambda o: pickle.loads(pickle.dumps(o)))):
                    r = _outcome(lambda: opf(sx))
                    obs["special:" + opname] = [r[0], after_special(r[1])] if r[0] == "ok" else r
                # histories: the instance is hashed BEFORE it is copied (optionally a hash field is changed
                # in between): the copy must answer the hash of ITS OWN field values
                if _outcome(lambda: hash(inst))[0] == "ok":
                    def own_hash_ok(res):
                        h1 = hash(res)
                        if hasattr(res, _HASH_CACHE_FIELD):
                            object.__setattr__(res, _HASH_CACHE_FIELD, None)     # force a recomputation
                        return h1 == hash(res)
                    ops3 = (("copy", copy.copy), ("deepcopy", copy.deepcopy),
                            ("pickle", lambda o: pickle.loads(pickle.dumps(o))))
                    hf = [a.name for a in attr.fields(cls) if a.hash is True or (a.hash is None and a.eq is True)]
                    for hname in ("hash", "hash-mutate"):
                        if hname == "hash-mutate" and (cut.frozen or not hf):
                            continue
                        for opname, opf in ops3:
                            x = fresh()
                            hash(x)
                            if hname == "hash-mutate":
                                cur = getattr(x, hf[0])
                                object.__setattr__(x, hf[0], POOLV[2] if cur is POOLV[1] else POOLV[1])
                            before = _state(cls, x)
                            r = _outcome(lambda: opf(x))
                            obs["hist:%s-%s" % (hname, opname)] = (
                                [r[0], _outcome(lambda: _state(cls, r[1]) == before), _outcome(lambda: own_hash_ok(r[1]))]
                                if r[0] == "ok" else r)
            finally:
                if had is None:
                    delattr(g, cls.__name__)
                else:
                    setattr(g, cls.__name__, had)
    g.REC.reset()
    g.REC.cls = None
    return obs


def _digest(v):
    s = json.dumps(v, sort_keys=True, default=str)
    return int(hashlib.sha1(s.encode()).hexdigest()[:15], 16)


def meta_case(seed, index):
    rng = random.Random(seed * 1000003 + index)
    pair = None
    for _ in range(20):
        pair = build_pair(rng)
        if pair is not None:
            break
    inp = {"family": "meta", "seed": seed, "index": index}
    if pair is None:
        return Case("(CMeta [])", inp, {"note": "no definable specification"}, sig={"kind": "slots-dict-disagree"},
                    nontrivial=False, key="meta:%d:%d" % (seed, index))
    cS, cD, facts = pair
    shape_seed = rng.randrange(1 << 30)
    def _obs(cut):
        try:
            return observe_build(cut, shape_seed)
        except Exception as e:      # nothing may escape: an unobservable build is itself a difference
            g.REC.reset()
            g.REC.cls = None
            return {"def": "ok" if cut.cls is not None else "rejected", "observation-crashed": type(e).__name__}
    try:
        oS = _obs(cS)
        oD = _obs(cD)
    finally:
        # class names repeat from case to case: keep attrs' unique-filename search short
        for k in [k for k in linecache.cache if k.startswith("<attrs generated")]:
            linecache.cache.pop(k, None)
    if _digest(oS.get("hash")) != _digest(oD.get("hash")):
        # whether the copy keeps the hash is only comparable when the two builds hash alike
        for o in (oS, oD):
            for l in [l for l in o if l.startswith(("hashkept:", "hist:"))]:
                del o[l]
    if facts["getstate_setstate"] == "False":
        # the user opted out of attrs' pickle support: copying is CPython's default protocol, which restores
        # slots through setattr (hooks, frozen: C10's K5 region) - compare only what both builds can do, and of
        # that only whether the copy answers the hash of its own fields
        for o in (oS, oD):
            for l in [l for l in o if l.split(":")[0] in ("copy", "deepcopy", "pickle", "hashkept", "special")]:
                del o[l]
        for l in sorted(set(oS) | set(oD)):
            if l.startswith("hist:"):
                a, d = oS.get(l), oD.get(l)
                def usable(v):      # copied, every field kept its value, and the copy can be hashed
                    return (isinstance(v, list) and len(v) == 3 and v[0] == "ok" and v[1] == ["ok", True]
                            and v[2][0] == "ok")
                if not (usable(a) and usable(d)):
                    oS.pop(l, None)
                    oD.pop(l, None)
    labels = sorted(set(oS) | set(oD))
    triples, differing = [], {}
    for l in labels:
        a, d = oS.get(l, "<absent>"), oD.get(l, "<absent>")
        da, dd = _digest(a), _digest(d)
        triples.append("(%s, %d%%Z, %d%%Z)" % (q(l), da, dd))
        if da != dd:
            differing[l] = {"slots": a, "dict": d}
    kinds = sorted(set(l.split(":")[0] for l in differing))
    ser = [k for k in kinds if k in ("copy", "deepcopy", "pickle", "hashkept", "hist", "special")]
    ser_labels = sorted(l for l in differing if l.split(":")[0] in ser)

    def _ser_outcomes(side):
        out = set()
        for l in ser_labels:
            v = differing[l][side]
            if isinstance(v, list) and len(v) == 2 and v[0] == "raised":
                out.add(v[1])
            elif isinstance(v, list) and v and v[0] == "ok":
                own = v[-1]
                out.add("ok" if not (isinstance(own, list) and own[:1] == ["ok"] and own[1] is False) else "stale-hash")
            else:
                out.add(str(v)[:30])
        return "+".join(sorted(out))
    k6_active = False
    if facts["k6_shape"] and cS.cls is not None and cD.cls is not None:
        # the hooked base's generated __setattr__ is still what the slotted class resolves, while the dict
        # build went back to object.__setattr__ ("slotted confused")
        sa = cS.cls.__setattr__
        k6_active = (sa is not object.__setattr__ and "__setattr__" not in cS.cls.__dict__
                     and cD.cls.__setattr__ is object.__setattr__)
    sig = {"kind": "slots-dict-disagree", "differs": "+".join(k for k in kinds if k not in ser),
           "serialization_differs": bool(ser), "legacy_hash_false": facts["legacy_hash_false"],
           "k6_shape": facts["k6_shape"], "k6_base_setattr_kept_by_slots_build": k6_active,
           "is_exception_class": bool(cS.cls is not None and issubclass(cS.cls, BaseException)),
           "getstate_setstate": facts["getstate_setstate"], "frozen": bool(cS.frozen),
           "cache_hash": bool(cS.spec["cache_hash"])}
    if ser:
        sig["ser_labels"] = "+".join(ser_labels)
        sig["ser_slots"] = _ser_outcomes("slots")
        sig["ser_dict"] = _ser_outcomes("dict")
    if "hash" in differing:
        def _outs(v):
            return "+".join(sorted(set(map(str, v["outcome"])))) if isinstance(v, dict) else str(v)
        sig["hash_slots"] = _outs(differing["hash"]["slots"])
        sig["hash_dict"] = _outs(differing["hash"]["dict"])
    if k6_active:
        # with the base's hooks still active even construction can differ: one signature for the family
        sig["differs"] = sig["differs"] and "k6-downstream"
        sig["serialization_differs"] = False
        for k_ in ("ser_labels", "ser_slots", "ser_dict"):
            sig.pop(k_, None)
        sig.pop("hash_slots", None)
        sig.pop("hash_dict", None)
    seen = {"differing": differing, "labels": len(labels), "facts": {k: v for k, v in facts.items() if k != "spec"},
            "spec": facts.get("spec")}
    nfields = len(attr.fields(cS.cls)) if cS.cls is not None else 0
    return Case("(CMeta %s)" % lst(triples), inp, seen, sig=sig, nontrivial=nfields > 0,
                key="meta:%d:%d" % (seed, index))


# --------------------------------------------------------------------------------------
# part B2: two attrs bases (one unslotted with a generated hook __setattr__, one slotted), slots vs dict

TWO_BASE_SPACE = [dict(hook=h, leaf=l, order=o, api=a, data_slots=n)
                  for h in ("field-user", "class-validate", "class-convert")
                  for l in ("redefine", "noop", "nofields", "ownhook", "otherfield")
                  for o in ("HD", "DH") for a in ("attrs", "define") for n in (1, 2)]


def _two_base_build(r, slots):
    from attr import setters
    log = []

    def hook(i, a, v):
        log.append(["hook", a.name, repr(v)])
        return v

    def val(i, a, v):
        log.append(["val", a.name, repr(v)])

    def conv(v):
        log.append(["conv", repr(v)])
        return v
    if r["hook"] == "field-user":
        Hooked = attr.s(type("Hooked", (), {"x": attr.ib(default=0, on_setattr=hook)}))
    elif r["hook"] == "class-validate":
        Hooked = attr.s(on_setattr=setters.validate)(type("Hooked", (), {"x": attr.ib(default=0, validator=val)}))
    else:
        Hooked = attr.s(on_setattr=setters.convert)(type("Hooked", (), {"x": attr.ib(default=0, converter=conv)}))
    dbody = {"a": attr.ib(default=10)}
    if r["data_slots"] == 2:
        dbody["b"] = attr.ib(default=11)
    Data = attr.s(slots=True)(type("Data", (), dbody))
    bases = (Hooked, Data) if r["order"] == "HD" else (Data, Hooked)
    kwargs = {"slots": slots}
    names = {"redefine": ["x"], "noop": ["x"], "nofields": [], "ownhook": ["y"], "otherfield": ["z"]}[r["leaf"]]
    if r["leaf"] == "noop":
        kwargs["on_setattr"] = setters.NO_OP
    body, anns = {}, {}
    for n in names:
        kw = {"default": 1}
        if r["leaf"] == "ownhook":
            kw["on_setattr"] = hook
        if r["api"] == "attrs":
            body[n] = attr.ib(**kw)
        else:
            body[n] = attrs.field(**kw)
            anns[n] = int
    if anns:
        body["__annotations__"] = anns
    raw = type("Leaf", bases, body)
    cls = (attr.s if r["api"] == "attrs" else attrs.define)(**kwargs)(raw)
    return cls, Hooked, log


def _two_base_observe(r, slots):
    try:
        cls, Hooked, log = _two_base_build(r, slots)
    except Exception as e:
        return {"def": type(e).__name__}
    obs = {"def": "ok"}
    sa = cls.__setattr__
    obs["setattr"] = ("object" if sa is object.__setattr__ else
                      "own" if "__setattr__" in cls.__dict__ else
                      "hooked-base" if sa is Hooked.__dict__.get("__setattr__") else "other")
    obs["own_setattr_flag"] = repr(cls.__dict__.get("__attrs_own_setattr__", "absent"))
    obs["fields"] = [a.name for a in attr.fields(cls)]

    def step(fn):
        del log[:]
        r_ = _outcome(fn)
        return [r_[0] if r_[0] != "ok" else "ok", list(log)] if r_[0] != "raised" else [r_[1], list(log)]
    inst = None

    def mk():
        nonlocal inst
        inst = cls()
    obs["init"] = step(mk)
    if inst is not None:
        for n in obs["fields"]:
            obs["assign:" + n] = step(lambda: setattr(inst, n, 5))
        obs["values"] = [[n, repr(getattr(inst, n, "<unset>"))] for n in obs["fields"]]
        obs["repr"] = _outcome(lambda: repr(inst))
        obs["evolve"] = step(lambda: attr.evolve(inst, a=3))
    return obs


# B2 continued: hand-built single-base bodies
#   shape "rebind":   the leaf re-binds an INHERITED field name as a plain class attribute / method (not a field)
#   shape "subkinds": members that are instances of strict subclasses of cached_property / property / classmethod /
#                     staticmethod (next to plain ones), read through an instance in both builds
HAND_SPACE = ([dict(shape="rebind", base_slots=bs, api=a, what=w, own_field=o)
               for bs in (True, False) for a in ("attrs", "define") for w in ("int", "none", "func", "lambda") for o in (False, True)]
              + [dict(shape="subkinds", api=a, frozen=f, use=u) for a in ("attrs", "define") for f in (False, True)
                 for u in ("none", "class", "super")])

_HAND_SRC = '''
import attr, attrs, functools
CALLS = []
class CP2(functools.cached_property): pass
class Prop2(property): pass
class CM2(classmethod): pass
class SM2(staticmethod): pass
class Root:
    def tag(self): return "root"
'''


def _hand_source(r, slots):
    deco = ("attr.s(slots=%s%s)" if r["api"] == "attrs" else "attrs.define(slots=%s%s)")
    if r["shape"] == "rebind":
        src = _HAND_SRC + "@attr.s(slots=%s)\nclass Base:\n    x = attr.ib(default=1)\n    y = attr.ib(default=2)\n" % r["base_slots"]
        body = {"int": ["x = 5"], "none": ["x = None"], "func": ["def x(self):", "    return 'method x'"],
                "lambda": ["x = lambda self: 'lambda x'"]}[r["what"]]
        if r["own_field"]:
            body.append("z = attr.ib(default=3)" if r["api"] == "attrs" else "z: int = 3")
        return src + "@%s\nclass Leaf(Base):\n%s\n" % (deco % (slots, ""), "\n".join("    " + l for l in body))
    e = {"none": "'-'", "class": "__class__.__name__", "super": "super().__thisclass__.__name__"}[r["use"]]
    fld = "f = attr.ib(default=0)" if r["api"] == "attrs" else "f: int = 0"
    body = [fld,
            "@CP2", "def c(self):", "    CALLS.append('c')", "    return ('c', %s)" % e,
            "@functools.cached_property", "def c0(self):", "    CALLS.append('c0')", "    return ('c0', %s)" % e,
            "@Prop2", "def p(self):", "    return ('p', %s)" % e,
            "@p.setter", "def p(self, v):", "    CALLS.append(('p.set', v, %s))" % e,
            "@CM2", "def cm(cls):", "    return ('cm', %s)" % e,
            "@SM2", "def sm(o):", "    return ('sm', %s)" % e]
    return _HAND_SRC + "@%s\nclass Leaf(Root):\n%s\n" % (deco % (slots, ", frozen=True" if r["frozen"] else ""),
                                                             "\n".join("    " + l for l in body))


def _hand_observe(r, slots):
    try:
        mod = _fresh_module(_hand_source(r, slots))
    except Exception as e:
        return {"def": type(e).__name__}
    try:
        cls = mod.Leaf
        obs = {"def": "ok", "fields": [a.name for a in attr.fields(cls)]}

        def step(fn):
            del mod.CALLS[:]
            r_ = _outcome(fn)
            return [r_[1] if r_[0] == "raised" else ["ok", repr(r_[1])], [repr(c) for c in mod.CALLS]]
        box = {}
        obs["init"] = step(lambda: box.__setitem__("i", cls()))
        inst = box.get("i")
        if inst is not None:
            if r["shape"] == "rebind":
                for n in obs["fields"]:
                    obs["read:" + n] = step(lambda: getattr(inst, n))
                    obs["assign:" + n] = step(lambda: setattr(inst, n, 7))
                obs["evolve"] = step(lambda: attr.evolve(inst, y=9))
                obs["init-kw"] = step(lambda: cls(x=4))
            else:
                for n in ("c", "c", "c0", "c0", "p"):
                    obs.setdefault("reads", []).append(step(lambda: getattr(inst, n)))
                obs["set:p"] = step(lambda: type(inst).__dict__["p"].fset(inst, 3))
                obs["cm"] = step(lambda: cls.cm())
                obs["sm"] = step(lambda: cls.sm(inst))
                obs["second-instance"] = step(lambda: cls().c)
            obs["repr"] = _outcome(lambda: repr(inst))
            obs["asdict"] = _outcome(lambda: sorted(attr.asdict(inst).items()))
        return obs
    finally:
        _drop_module(mod)


def hand_case(r):
    oS, oD = _hand_observe(r, True), _hand_observe(r, False)
    labels = sorted(set(oS) | set(oD))
    triples, differing = [], {}
    for l in labels:
        a, d = oS.get(l, "<absent>"), oD.get(l, "<absent>")
        da, dd = _digest(a), _digest(d)
        triples.append("(%s, %d%%Z, %d%%Z)" % (q(l), da, dd))
        if da != dd:
            differing[l] = {"slots": a, "dict": d}
    sig = {"kind": "slots-dict-disagree", "family": "hand-built", "shape": r["shape"],
           "differs": "+".join(sorted(set(l.split(":")[0] for l in differing)))}
    return Case("(CMeta %s)" % lst(triples), dict(r, family="meta3"), {"differing": differing, "facts": {"variant": r["shape"]}},
                sig=sig, nontrivial=True, key="meta3:" + json.dumps(r, sort_keys=True))


def two_base_case(r):
    oS, oD = _two_base_observe(r, True), _two_base_observe(r, False)
    for k in [k for k in linecache.cache if k.startswith("<attrs generated")]:
        linecache.cache.pop(k, None)
    # which __setattr__ is resolved / the bookkeeping flag are facts for the signature, behaviour is compared
    labels = sorted((set(oS) | set(oD)) - {"setattr", "own_setattr_flag"})
    triples, differing = [], {}
    for l in labels:
        a, d = oS.get(l, "<absent>"), oD.get(l, "<absent>")
        da, dd = _digest(a), _digest(d)
        triples.append("(%s, %d%%Z, %d%%Z)" % (q(l), da, dd))
        if da != dd:
            differing[l] = {"slots": a, "dict": d}
    sig = {"kind": "slots-dict-disagree", "family": "two-bases", "order": r["order"], "hook": r["hook"], "leaf": r["leaf"],
           "api": r["api"], "differs": "+".join(sorted(set(l.split(":")[0] for l in differing))),
           "setattr_slots": oS.get("setattr"), "setattr_dict": oD.get("setattr")}
    inp = dict(r, family="meta2")
    return Case("(CMeta %s)" % lst(triples), inp, {"differing": differing, "slots_build": oS if differing else None,
                                                  "facts": {"variant": "two-bases"}},
                sig=sig, nontrivial=True, key="meta2:" + json.dumps(r, sort_keys=True))


# --------------------------------------------------------------------------------------
# driver interface

_dist = Counter()


def generate(tier, seed):
    rng = random.Random(seed)
    _dist.clear()
    n_body = 1300 if tier == "quick" else 20000
    cases = []
    for _ in range(n_body):
        r = gen_recipe(rng)
        cs = run_body(r)
        cases.extend(cs)
        _dist["body"] += 1
        _dist["body api=" + r["api"]] += 1
        _dist["body bases=" + ("+".join(r["bases"]) or "none")] += 1
        for m in r["members"]:
            _dist["member " + m["kind"]] += 1
        if len(cs) > 1:
            _dist["body property cases"] += 1
    for r in TWO_BASE_SPACE:
        cases.append(two_base_case(r))
        _dist["meta two-bases"] += 1
    for r in HAND_SPACE:
        cases.append(hand_case(r))
        _dist["meta hand-built " + r["shape"]] += 1
    n_meta = 400 if tier == "quick" else 7000
    for k in range(n_meta):
        c = meta_case(seed, k)
        cases.append(c)
        _dist["meta"] += 1
        _dist["meta variant=" + str(c.seen.get("facts", {}).get("variant"))] += 1
        if c.seen.get("facts", {}).get("k6_shape"):
            _dist["meta k6 shape"] += 1
        if c.seen.get("facts", {}).get("legacy_hash_false"):
            _dist["meta legacy hash=False"] += 1
    return cases


def rerun(inp):
    fam = inp.get("family")
    if fam == "meta":
        return meta_case(inp["seed"], inp["index"])
    if fam == "meta3":
        return hand_case({k: v for k, v in inp.items() if k != "family"})
    if fam == "meta2":
        return two_base_case({k: v for k, v in inp.items() if k != "family"})
    if fam == "body":
        return run_body(inp)[0]
    if fam == "body-post":
        r = dict(inp)
        r["family"] = "body"
        cs = run_body(r)
        if len(cs) > 1:
            return cs[1]
        # the postcondition holds now: a passing property case
        c = cs[0]
        return Case(c.term.replace("(CBody ", "(CPost ", 1), inp, c.seen, sig={"layer": "property"}, key="post")
    raise vlib.Infra("unknown case family %r" % (fam,))


def F21_C08_weakref_own_slots():
    """was K08.1 (repaired by 0abf7ae): own __slots__ listing __weakref__ + weakref_slot=True."""
    @attr.s(slots=True, weakref_slot=True)
    class W:
        __slots__ = ("__weakref__",)
        x = attr.ib(default=1)
    try:
        weakref.ref(W())
    except TypeError:
        return "weakref_slot=True ignored for a class body that lists __weakref__ in __slots__: instances not weak-referenceable"
    if "__weakref__" not in W.__slots__:
        return "new __slots__ %r lacks __weakref__" % (W.__slots__,)


def F22_C08_string_slots_base():
    """was K08.2 (repaired by e7beec5): a base whose __slots__ is a single string."""
    class P:
        __slots__ = "ab"
    try:
        @attr.s(slots=True)
        class C(P):
            x = attr.ib(default=1)

        @attr.s(slots=True)
        class D(P):
            ab = attr.ib(default=2)
    except AttributeError as e:
        return "slots=True cannot build a class below a base with a string __slots__: AttributeError %s" % e
    if C.__slots__ != ("x", "__weakref__") or D.__slots__ != ("__weakref__",) or D.__dict__.get("ab") is not P.__dict__["ab"]:
        return "unexpected layout: %r %r" % (C.__slots__, D.__slots__)
    if (C().x, D().ab) != (1, 2) or hasattr(C(), "__dict__"):
        return "instances do not behave"


def corpus():
    import importlib.util
    import os
    spec = importlib.util.spec_from_file_location("verif_defects", os.path.join(vlib.VERIF, "corpus", "defects.py"))
    m = importlib.util.module_from_spec(spec)
    spec.loader.exec_module(m)
    def safe(f):
        def run():
            try:
                return f()
            except Exception as e:       # a reproducer that cannot even build its class is a finding too
                return "reproducer raised %s: %s" % (type(e).__name__, e)
        return run
    own = [("F21_C08_weakref_own_slots", F21_C08_weakref_own_slots), ("F22_C08_string_slots_base", F22_C08_string_slots_base)]
    return [(k, safe(f)) for k, f in list(m.ALL.items()) + own if "_C08_" in k]


def distribution(cases):
    return dict(sorted(_dist.items()))
