"""C18 - shipped validators accept exactly their documented predicate, compositionally.

Real-side driver + case generator.  A case is either

* a *run* case: one validator expression (JSON tree over fixed parameter pools), a handful of
  values, the DOCUMENTED atomic predicates (isinstance, in, operator.lt.., the chosen re
  function, callable, len) tabulated by running them directly in Python on every (sub)value a
  sub-validator may be applied to, and what ``validator(inst, attr, value)`` really did; or
* an *eq* case: the same expression built twice from equal (possibly distinct) arguments, what
  ``==`` says about each argument pair, which arguments hash, and what ``==`` / ``hash`` say about
  the two validators; or
* the ``issubclass`` table of the real exception classes.
"""
from __future__ import annotations

import collections.abc
import operator
import random
import re

import attr
from attr import validators as V
from attr.exceptions import NotCallableError

from . import vlib
from .driver import Case
from .vlib import b, lst, opt, z

PROP = "C18"
HEADER = "From Attrs Require Import Base C18.Model C18.Corr."
CASE_TYPE = "case"
CHECK = "check_case"
MODEL = "model_of"
RULE = ("run cases: (a) every leaf validator (instance_of / in_ / lt,le,ge,gt / min_len / max_len / "
        "matches_re x {default,fullmatch,search,match} / is_callable over the FULL parameter pools) x "
        "every value of the heterogeneous pool (76 values); (b) EVERY expression of depth <= 2 over a reduced "
        "leaf pool (18 leaves in thorough, 4 rotating with the seed in quick: optional, not_ x 3 exc_types, "
        "and_/or_ of two, deep_iterable with/without iterable validator, deep_mapping, empty and_/or_) x a "
        "reduced value pool of 24; (c) seeded "
        "random expression trees to depth 4 over all constructors (incl. the list sugar of optional / "
        "deep_iterable, nested and_/or_, not_ with 14 exc_types spellings and custom messages) x "
        "7 values each chosen from 28 candidates to spread over the observed outcome classes (pool values and generated containers of them: lists, tuples, dicts, sets, frozensets, "
        "hostile iterables/mappings). The documented atomic predicates are run directly in Python for every "
        "(sub)value a sub-validator can be applied to and handed to the Coq model as its oracle table; the "
        "real validator is called on the value; Coq compares outcome classes, None result and value-unchanged. "
        "eq cases: random trees built twice from equal arguments (same object, equal copy, 1/1.0/True, "
        "re-ordered set/dict, re-compiled pattern); Coq evaluates 'same parameters' from the == table of the "
        "arguments and requires == on the validators, and equal hashes when every argument hashes. "
        "distinct = distinct (tree, values[, variants]); non-trivial = tree has at least one combinator or the "
        "run shows both an acceptance and a rejection")
EXTRA_TRUSTED = [
    "CPython 3.12 isinstance / in / comparison operators / len / re / callable: the atomic predicates are "
    "oracles; 'gt really uses >' etc. is checked differentially (documented predicate run directly vs. the "
    "validator), not proved",
    "harness/translate_c18.py: the translator from the __call__ bodies / constructor functions to the combinators "
    "of C18/TieLib.v (its reading of Python: evaluation order, try/except/else, for loops, `value[key]` inside "
    "`for key in value`, field roles inferred from use); message formatting is assumed not to raise",
    "harness value expansion: iteration order, members and value[key] of every container value are recorded by "
    "iterating it once in the harness; values are assumed stateless (re-iterable, deterministic)",
]
ASSUMPTIONS = [
    "values and parameters are stateless under observation (no one-shot iterators, no objects whose "
    "__eq__/__len__/__contains__ answer differently on the second call)",
    "__repr__/__str__/__format__ of values and parameters do not raise (error messages format them)",
    "exceptions raised by user code are mapped to the nearest class of the modelled hierarchy slice "
    "(BaseException, KeyboardInterrupt, Exception, TypeError, NotCallableError, ValueError, LookupError, "
    "KeyError, IndexError, RuntimeError, AttributeError); exc_types of not_ are drawn from that slice",
    "for the hash clause: equal hashable arguments have equal hashes (Python's hash contract)",
]


def pre_build():
    # Gen/C18_calls.v is regenerated from the current source text (fresh checkouts have no Gen files)
    from . import translate_c18
    translate_c18.regenerate()


def translated_tie():
    from . import translate_c18
    return translate_c18.regenerate(), "theories/C18/Tie.vo"


# --------------------------------------------------------------------------------------
# exception classes

class HostileBase(BaseException):
    pass


class HostileTypeError(TypeError):
    pass


class HostileValueError(ValueError):
    pass


EXC = [("EBaseException", BaseException), ("EKeyboardInterrupt", KeyboardInterrupt),
       ("EException", Exception), ("ETypeError", TypeError), ("ENotCallable", NotCallableError),
       ("EValueError", ValueError), ("ELookupError", LookupError), ("EKeyError", KeyError),
       ("EIndexError", IndexError), ("ERuntimeError", RuntimeError), ("EAttributeError", AttributeError)]
EXC_NAME = {cls: name for name, cls in EXC}


def map_exc(cls):
    for k in cls.__mro__:
        if k in EXC_NAME:
            return EXC_NAME[k]
    raise vlib.Infra("exception class outside BaseException: %r" % (cls,))


def tri(fn):
    try:
        return "TT" if fn() else "FF"
    except BaseException as e:  # noqa: BLE001 - hostile objects raise BaseException subclasses on purpose
        return "(RR %s)" % map_exc(type(e))


# --------------------------------------------------------------------------------------
# hostile objects (all stateless)

class EqRaises:
    def __init__(self, exc):
        self.exc = exc

    def __eq__(self, other):
        raise self.exc("hostile __eq__")

    __hash__ = object.__hash__


class AlwaysEq:
    def __eq__(self, other):
        return True

    __hash__ = object.__hash__


class NeverEqUnhashable:
    def __eq__(self, other):
        return False

    __hash__ = None


class HashRaises:
    def __init__(self, exc):
        self.exc = exc

    def __eq__(self, other):
        return False

    def __hash__(self):
        raise self.exc("hostile __hash__")


class LenIs:
    def __init__(self, n):
        self.n = n

    def __len__(self):
        return self.n


class LenRaises:
    def __init__(self, exc):
        self.exc = exc

    def __len__(self):
        raise self.exc("hostile __len__")


class CmpRaises:
    def __init__(self, exc):
        self.exc = exc

    def _r(self, other):
        raise self.exc("hostile comparison")

    __lt__ = __le__ = __gt__ = __ge__ = _r


class BoolRaises:
    def __init__(self, exc):
        self.exc = exc

    def __bool__(self):
        raise self.exc("hostile __bool__")


class CmpReturns:
    def __init__(self, r):
        self.r = r

    def _r(self, other):
        return self.r

    __lt__ = __le__ = __gt__ = __ge__ = _r


class OnlyLt:
    """Less than everything, and says so only through __lt__ / __le__."""

    def __lt__(self, other):
        return True

    def __le__(self, other):
        return True

    def __gt__(self, other):
        return False

    def __ge__(self, other):
        return False


class IterYields:
    """Iterable (fresh iterator every time) yielding `members`, then stopping or raising;
    `value[key]` looks up `table` (KeyError when absent) unless `getexc` is given."""

    def __init__(self, members, fin=None, table=None, getexc=None):
        self.members = members
        self.fin = fin
        self.table = table
        self.getexc = getexc

    def __iter__(self):
        for m in self.members:
            yield m
        if self.fin is not None:
            raise self.fin("hostile iteration")

    def __getitem__(self, key):
        if self.getexc is not None:
            raise self.getexc("hostile __getitem__")
        if self.table is None:
            raise KeyError(key)
        for k, v in self.table:
            if k is key or k == key:
                return v
        raise KeyError(key)


class ContainsRaises:
    def __init__(self, exc):
        self.exc = exc

    def __contains__(self, item):
        raise self.exc("hostile __contains__")


class ContainsReturns:
    def __init__(self, r):
        self.r = r

    def __contains__(self, item):
        return self.r


class IterOnly:
    def __init__(self, members):
        self.members = members

    def __iter__(self):
        return iter(self.members)


class CallableObj:
    def __call__(self, *a):
        return None


class _MetaRaises(type):
    def __instancecheck__(cls, obj):
        raise cls._exc("hostile __instancecheck__")


def _meta_type(exc):
    return _MetaRaises("T_" + exc.__name__, (), {"_exc": exc})


def _lambda(q):
    return q


# --------------------------------------------------------------------------------------
# pools (append only: replay files refer to indices)

NAN = float("nan")
_BIG = 2 ** 70

VALUES = [
    0, 1, -1, 2, 3, 5, 10, 42, _BIG, True, False, 0.0, 1.0, 2.5, -0.5, NAN, float("inf"),      # 0-16
    "", "a", "ab", "abc", "b", "b1", "Abc", "xaby", "12", "a\nb",                                # 17-26
    b"", b"ab", b"a",                                                                             # 27-29
    None,                                                                                         # 30
    len, _lambda, int, str, CallableObj(), object(),                                              # 31-36
    EqRaises(TypeError), EqRaises(ValueError), EqRaises(RuntimeError), EqRaises(HostileBase),     # 37-40
    EqRaises(KeyboardInterrupt), AlwaysEq(), NeverEqUnhashable(), HashRaises(RuntimeError),       # 41-44
    HashRaises(TypeError),                                                                        # 45
    LenIs(0), LenIs(1), LenIs(2), LenIs(3), LenIs(-1), LenIs("x"), LenRaises(TypeError),          # 46-52
    LenRaises(ValueError), LenRaises(HostileBase), LenRaises(KeyError),                           # 53-55
    CmpRaises(TypeError), CmpRaises(ValueError), CmpRaises(HostileBase), CmpReturns([]),          # 56-59
    CmpReturns([0]), CmpReturns(BoolRaises(RuntimeError)), CmpReturns(NotImplemented), OnlyLt(),  # 60-63
    IterYields([1, "a"]), IterYields([1, 2], RuntimeError), IterYields([], HostileBase),          # 64-66
    IterYields(["k"], None, [("k", 5)]), IterYields(["k", "m"], None, [("k", "ab")]),             # 67-68
    IterYields([1, 2], None, None, HostileTypeError), IterYields([3, "ab"], HostileValueError,    # 69-70
                                                                 [(3, 1), ("ab", 2)]),
    range(3), range(0), HostileValueError("v"), KeyboardInterrupt, ValueError,                    # 71-75
]
NONE_IDX = 30
SIMPLE = [i for i, v in enumerate(VALUES) if type(v) in (int, bool, float, str, bytes, type(None))]

TYPES = [
    int, str, float, bool, bytes, list, dict, tuple, object, type(None),
    (int, str), (int, float), (), (str, bytes, type(None)),
    collections.abc.Sized, collections.abc.Iterable, collections.abc.Callable,
    collections.abc.Hashable, collections.abc.Mapping,
    _meta_type(TypeError), _meta_type(ValueError), _meta_type(HostileBase),
    3, "int", int | str, (int, (str, float)), EqRaises, LenIs, (int, 3), type, BaseException,
    None,
]

_P1 = re.compile("b+")
re.purge()
_P2 = re.compile("b+")          # equal to _P1, not the same object
assert _P1 == _P2 and _P1 is not _P2

# (object, [equal variants])
OPTIONS = [
    ([1, 2, 3], [[1, 2, 3], [1.0, 2, 3]]),
    ((1, "a", None), [tuple([1, "a", None])]),
    ({1, 2}, [{2, 1}]),
    ({0, 8}, [{8, 0}]),
    (frozenset({1, "a"}), [frozenset({"a", 1})]),
    ({"a": 1, "b": 2}, [{"b": 2, "a": 1}, {"a": 1, "b": 2}]),
    ("abc", ["abc"]),
    (b"ab", [b"ab"]),
    (range(5), [range(5)]),
    ([NAN], []),
    ([[1], [2]], [[[1], [2]]]),
    ({(1, 2), 3}, [{3, (1, 2)}]),
    ([], [[]]),
    ((), []),
    ({}, [{}]),
    (set(), [set()]),
    ([VALUES[42]], []),
    ([VALUES[38]], []),
    (ContainsRaises(TypeError), []),
    (ContainsRaises(ValueError), []),
    (ContainsRaises(HostileBase), []),
    (ContainsRaises(HostileTypeError), []),
    (ContainsReturns([]), []),
    (ContainsReturns([0]), []),
    (ContainsReturns(BoolRaises(RuntimeError)), []),
    (IterOnly([1, 2]), []),
    (5, [5.0]),
    (None, []),
    ({1.0, "ab"}, [{"ab", 1}]),
    ({"a": None}, [{"a": None}]),
    ([None], [[None]]),
    ([True, "b1"], [[1, "b1"]]),
    ({16, 0, 8}, [{8, 16, 0}, {0, 8, 16}]),
    ({"k": 1, 2: 2, None: 3}, [{None: 3, 2: 2, "k": 1}]),
    ([2.5, "ab", b"ab", (1, 2)], []),
]

BOUNDS = [
    (0, [0.0, False]), (1, [1.0, True]), (5, [5.0]), (2.5, [2.5]), (-1, [-1.0]), (NAN, []),
    ("b", ["b"]), (True, [1]), (None, []), ((1, 2), [tuple([1, 2])]), (10 ** 20, [10 ** 20]),
    (CmpRaises(ValueError), []), (b"a", [b"a"]), (3.0, [3]), (VALUES[63], []), ([1], [[1]]),
]
OPS = {"lt": (operator.lt, "OLt", V.lt), "le": (operator.le, "OLe", V.le),
       "ge": (operator.ge, "OGe", V.ge), "gt": (operator.gt, "OGt", V.gt)}

# ("s", pattern, flags) -> matches_re(pattern, flags, func); ("c", compiled) -> matches_re(compiled, func=func)
REGEX = [
    (("s", "a", 0), []), (("s", "ab", 0), []), (("s", "a.*", 0), []), (("s", "^ab$", 0), []),
    (("s", "[0-9]+", 0), []), (("s", "", 0), []), (("s", "(?i)abc", 0), []), (("s", "abc", re.I), []),
    (("s", b"ab", 0), []), (("s", "b", 0), []), (("s", "a|b1", 0), []), (("s", "a$", re.M), []),
    (("c", re.compile("b")), []), (("c", re.compile(b"a+")), []), (("c", re.compile("AB", re.I)), []),
    (("c", _P1), [("c", _P2)]),
    (("s", "x?a", 0), []), (("s", "b.", re.S), []),
    # the same pattern text with other flags than an entry above (validators built from one text and one re
    # function but different flags coexist in a run and must not be confused with each other)
    (("s", "abc", 0), []), (("s", "a$", 0), []), (("s", "b.", 0), []), (("s", "ab", re.I), []), (("s", "a", re.I), []),
    (("s", "abc", re.I | re.S), []),
]
FUNCS = {None: (None, "None", "fullmatch"), "fullmatch": (re.fullmatch, "(Some Fullmatch)", "fullmatch"),
         "search": (re.search, "(Some Search)", "search"), "match": (re.match, "(Some Match)", "match")}
FNAME = {"fullmatch": "Fullmatch", "search": "Search", "match": "Match"}

LENGTHS = [-1, 0, 1, 2, 3, 5, True, 100]

# (how it is passed, classes): "default" = argument omitted, "one" = a single class, else the iterable
EXC_TYPES = [
    ("default", (ValueError, TypeError)),
    ("one", ValueError),
    ("one", TypeError),
    ("it", (ValueError,)),
    ("one", Exception),
    ("it", ()),
    ("it", [NotCallableError]),
    ("it", (KeyError, IndexError)),
    ("one", LookupError),
    ("it", (RuntimeError,)),
    ("it", (ValueError, TypeError, LookupError)),
    ("it", (TypeError, ValueError)),
    ("it", (AttributeError,)),
    ("one", NotCallableError),
]
MSGS = [None, "custom {validator!r} / {exc_types!r}", "plain message"]


@attr.s
class _Holder:
    x = attr.ib(default=None)


ATTR = attr.fields(_Holder).x
INST = _Holder()


# --------------------------------------------------------------------------------------
# expressions.  JSON tree:
#   ["inst", ti] ["re", ri, func] ["opt", t] ["optl", aslist, [t..]] ["in", oi] ["call"]
#   ["dit", t, t|None] ["ditl", aslist, [t..], t|None] ["dmap", t, t, t|None]
#   ["num", op, bi] ["maxlen", li] ["minlen", li] ["not", t, mi, ei] ["or", [t..]] ["and", [t..]]

class Picker:
    """Chooses, per parameter occurrence, the primary object or one of its equal variants."""

    def __init__(self, variants=None):
        self.variants = variants      # None: always the primary object
        self.k = 0
        self.used = []                # (kind, idx, variant) in traversal order

    def pick(self, kind, idx):
        var = 0
        if self.variants is not None:
            var = self.variants[self.k] if self.k < len(self.variants) else 0
        self.k += 1
        pool = {"t": None, "o": OPTIONS, "b": BOUNDS, "r": REGEX}[kind]
        if kind == "t":
            obj, var = TYPES[idx], 0
        else:
            prim, alts = pool[idx]
            if var > len(alts):
                var = 0
            obj = prim if var == 0 else alts[var - 1]
        self.used.append((kind, idx, var))
        return obj, var


def n_params(t):
    k = t[0]
    if k in ("inst", "re", "in", "num"):
        return 1
    if k in ("call", "maxlen", "minlen"):
        return 0
    if k == "opt":
        return n_params(t[1])
    if k == "optl":
        return sum(n_params(c) for c in t[2])
    if k == "dit":
        return n_params(t[1]) + (n_params(t[2]) if t[2] else 0)
    if k == "ditl":
        return sum(n_params(c) for c in t[2]) + (n_params(t[3]) if t[3] else 0)
    if k == "dmap":
        return n_params(t[1]) + n_params(t[2]) + (n_params(t[3]) if t[3] else 0)
    if k == "not":
        return n_params(t[1])
    return sum(n_params(c) for c in t[1])


def depth(t):
    k = t[0]
    if k in ("inst", "re", "in", "num", "call", "maxlen", "minlen"):
        return 1
    return 1 + max([depth(c) for c in children(t)] or [0])


def children(t):
    k = t[0]
    if k in ("opt", "not"):
        return [t[1]]
    if k == "optl":
        return list(t[2])
    if k == "dit":
        return [t[1]] + ([t[2]] if t[2] else [])
    if k == "ditl":
        return list(t[2]) + ([t[3]] if t[3] else [])
    if k == "dmap":
        return [t[1], t[2]] + ([t[3]] if t[3] else [])
    if k in ("or", "and"):
        return list(t[1])
    return []


def deep_depth(t):
    """How many container levels below the value the expression can look at."""
    k = t[0]
    own = 1 if k in ("dit", "ditl", "dmap") else 0
    if own:
        if k == "dit":
            inner, same = [t[1]], ([t[2]] if t[2] else [])
        elif k == "ditl":
            inner, same = list(t[2]), ([t[3]] if t[3] else [])
        else:
            inner, same = [t[1], t[2]], ([t[3]] if t[3] else [])
        return max([1 + deep_depth(c) for c in inner] + [deep_depth(c) for c in same] + [1])
    return max([deep_depth(c) for c in children(t)] or [0])


class Enc:
    """Dense numbering of the parameters of one case."""

    def __init__(self):
        self.num = {}
        self.objs = {}

    def p(self, kind, idx, var, obj):
        key = (kind, idx, var)
        if key not in self.num:
            self.num[key] = len(self.num)
            self.objs[self.num[key]] = obj
        return "(P %d)" % self.num[key]


def regex_doc(entry, func):
    """The documented predicate of matches_re: the chosen re function on the regex."""
    f = getattr(re, FUNCS[func][2])
    if entry[0] == "s":
        return lambda x: f(entry[1], x, entry[2])
    return lambda x: f(entry[1], x)


def regex_compiled(entry):
    return entry[1] if entry[0] == "c" else re.compile(entry[1], entry[2])


class Built:
    """One traversal gives the real validator, the Gallina expression and, for every node, what
    is needed to tabulate its documented predicate."""

    def __init__(self, tree, enc, picker):
        self.enc = enc
        self.picker = picker
        self.params = []       # (term, obj, derived: list of (term, obj)) per occurrence, traversal order
        self.node = self._go(tree)

    def _go(self, t):
        k = t[0]
        P = self.picker
        if k == "inst":
            obj, var = P.pick("t", t[1])
            pt = self.enc.p("t", t[1], var, obj)
            self.params.append((pt, obj, [], {}))
            return {"k": k, "real": lambda: V.instance_of(obj), "term": "SInst %s" % pt,
                    "atom": "AInst %s" % pt, "doc": lambda x: isinstance(x, obj)}
        if k == "re":
            entry, var = P.pick("r", t[1])
            pt = self.enc.p("r", t[1], var, entry)
            fobj, fterm, fname = FUNCS[t[2]]
            compiled = entry[0] == "c"
            pat = pt if compiled else "(PC %s)" % pt
            cobj = regex_compiled(entry)
            derived = [] if compiled else [(pat, cobj)]
            derived.append(("(PM %s %s)" % (FNAME[fname], pat), getattr(cobj, fname)))
            self.params.append((pt, entry[1] if compiled else (entry[1], entry[2]), derived,
                                {"compiled": compiled}))
            if compiled:
                real = (lambda: V.matches_re(entry[1])) if t[2] is None else (lambda: V.matches_re(entry[1], func=fobj))
            elif entry[2] == 0 and t[2] is None:
                real = lambda: V.matches_re(entry[1])
            else:
                real = lambda: V.matches_re(entry[1], entry[2], fobj)
            return {"k": k, "real": real, "term": "SRe %s %s %s" % (pt, b(compiled), fterm),
                    "atom": "ARe %s %s" % (FNAME[fname], pat), "doc": regex_doc(entry, t[2])}
        if k == "in":
            obj, var = P.pick("o", t[1])
            pt = self.enc.p("o", t[1], var, obj)
            conv = isinstance(obj, (list, dict, set))
            derived = [("(PT %s)" % pt, tuple(obj))] if conv else []
            self.params.append((pt, obj, derived, {"conv": conv}))
            node = {"k": k, "real": lambda: V.in_(obj), "term": "SIn %s %s" % (pt, b(conv)),
                    "atom": "AIn %s" % (("(PT %s)" % pt) if conv else pt),
                    "doc": lambda x: x in obj}
            if conv:
                tup = tuple(obj)
                node["stored"] = lambda x: x in tup
            return node
        if k == "num":
            obj, var = P.pick("b", t[2])
            pt = self.enc.p("b", t[2], var, obj)
            self.params.append((pt, obj, [], {}))
            fn, oterm, ctor = OPS[t[1]]
            return {"k": k, "real": lambda: ctor(obj), "term": "SNum %s %s" % (oterm, pt),
                    "atom": "ACmp %s %s" % (oterm, pt), "doc": lambda x: fn(x, obj)}
        if k == "call":
            return {"k": k, "real": V.is_callable, "term": "SCallable", "atom": "ACallable", "doc": callable}
        if k in ("maxlen", "minlen"):
            n = LENGTHS[t[1]]
            ctor = V.max_len if k == "maxlen" else V.min_len
            return {"k": k, "real": lambda: ctor(n),
                    "term": "%s %s" % ("SMaxLen" if k == "maxlen" else "SMinLen", z(int(n)))}
        if k == "opt":
            c = self._go(t[1])
            return {"k": k, "kids": [c], "real": lambda: V.optional(c["real"]()), "term": "SOpt (%s)" % c["term"]}
        if k == "optl":
            cs = [self._go(c) for c in t[2]]
            mk = list if t[1] else tuple
            return {"k": k, "kids": cs, "real": lambda: V.optional(mk(c["real"]() for c in cs)),
                    "term": "SOptL %s %s" % (b(t[1]), lst("(%s)" % c["term"] for c in cs))}
        if k == "dit":
            m = self._go(t[1])
            it = self._go(t[2]) if t[2] else None
            real = (lambda: V.deep_iterable(m["real"](), it["real"]())) if it else (lambda: V.deep_iterable(m["real"]()))
            return {"k": k, "member": [m], "same": [it] if it else [], "real": real,
                    "term": "SDeepIt (%s) %s" % (m["term"], opt(it, lambda n: "(%s)" % n["term"]))}
        if k == "ditl":
            ms = [self._go(c) for c in t[2]]
            it = self._go(t[3]) if t[3] else None
            mk = list if t[1] else tuple
            real = ((lambda: V.deep_iterable(mk(c["real"]() for c in ms), iterable_validator=it["real"]()))
                    if it else (lambda: V.deep_iterable(mk(c["real"]() for c in ms))))
            return {"k": k, "member": ms, "same": [it] if it else [], "real": real,
                    "term": "SDeepItL %s %s %s" % (b(t[1]), lst("(%s)" % c["term"] for c in ms),
                                                   opt(it, lambda n: "(%s)" % n["term"]))}
        if k == "dmap":
            kv = self._go(t[1])
            vv = self._go(t[2])
            mv = self._go(t[3]) if t[3] else None
            real = ((lambda: V.deep_mapping(kv["real"](), vv["real"](), mv["real"]()))
                    if mv else (lambda: V.deep_mapping(kv["real"](), vv["real"]())))
            return {"k": k, "key": [kv], "val": [vv], "same": [mv] if mv else [], "real": real,
                    "term": "SDeepMap (%s) (%s) %s" % (kv["term"], vv["term"],
                                                       opt(mv, lambda n: "(%s)" % n["term"]))}
        if k == "not":
            c = self._go(t[1])
            msg = MSGS[t[2]]
            how, classes = EXC_TYPES[t[3]]
            kw = {}
            mterm = "None"
            if msg is not None:
                kw["msg"] = msg
                mterm = "(Some %s)" % self.enc.p("m", t[2], 0, msg)
            if how != "default":
                kw["exc_types"] = classes
            cl = [classes] if how == "one" else list(classes)
            return {"k": k, "kids": [c], "real": lambda: V.not_(c["real"](), **kw),
                    "term": "SNot (%s) %s %s %s" % (c["term"], mterm, b(how == "one"),
                                                    lst(EXC_NAME[x] for x in cl))}
        if k in ("or", "and"):
            cs = [self._go(c) for c in t[1]]
            f = V.or_ if k == "or" else V.and_
            return {"k": k, "kids": cs, "real": lambda: f(*[c["real"]() for c in cs]),
                    "term": "%s %s" % ("SOr" if k == "or" else "SAnd", lst("(%s)" % c["term"] for c in cs))}
        raise vlib.Infra("bad tree node %r" % (t,))


# --------------------------------------------------------------------------------------
# values.  JSON spec: ["p", i] | ["list"|"tuple"|"set"|"fset", [spec..]] | ["dict", [[spec, spec]..]]
#                     | ["iter", [spec..], finexc|None, [[spec, spec]..]|None]

_FIN = {None: None, "R": RuntimeError, "T": TypeError, "B": HostileBase, "V": ValueError}


def mkvalue(s):
    k = s[0]
    if k == "p":
        return VALUES[s[1]]
    if k == "list":
        return [mkvalue(c) for c in s[1]]
    if k == "tuple":
        return tuple(mkvalue(c) for c in s[1])
    if k == "set":
        return {mkvalue(c) for c in s[1]}
    if k == "fset":
        return frozenset(mkvalue(c) for c in s[1])
    if k == "dict":
        return {mkvalue(a): mkvalue(c) for a, c in s[1]}
    if k == "iter":
        return IterYields([mkvalue(c) for c in s[1]], _FIN[s[2]],
                          None if s[3] is None else [(mkvalue(a), mkvalue(c)) for a, c in s[3]])
    raise vlib.Infra("bad value spec %r" % (s,))


class Ctx:
    def __init__(self):
        self.ids = {}
        self.keep = []
        self.tests = {}      # atom term -> {vid: tri term}
        self.lens = {}       # vid -> lenres term
        self.exp = {}        # vid -> (items, fin)
        self.divergent = False

    def vid(self, o):
        i = self.ids.get(id(o))
        if i is None:
            i = len(self.keep)
            self.ids[id(o)] = i
            self.keep.append(o)
        return i

    def expand(self, o):
        i = self.vid(o)
        if i in self.exp:
            return self.exp[i]
        members, fin = [], None
        try:
            it = iter(o)
        except BaseException as e:  # noqa: BLE001
            self.exp[i] = ([], map_exc(type(e)))
            return self.exp[i]
        while True:
            try:
                m = next(it)
            except StopIteration:
                break
            except BaseException as e:  # noqa: BLE001
                fin = map_exc(type(e))
                break
            members.append(m)
            if len(members) > 40:
                raise vlib.Infra("value too large for the harness: %r" % (o,))
        items = []
        for m in members:
            try:
                items.append((m, ("v", o[m])))
            except BaseException as e:  # noqa: BLE001
                items.append((m, ("e", map_exc(type(e)))))
        self.exp[i] = (items, fin)
        return self.exp[i]

    def walk(self, n, objs):
        """Tabulate the documented predicate of every leaf under `n` on every object it can meet."""
        if not objs:
            return
        k = n["k"]
        if "atom" in n:
            row = self.tests.setdefault(n["atom"], {})
            for o in objs:
                i = self.vid(o)
                if i not in row:
                    row[i] = tri(lambda: n["doc"](o))
                    if "stored" in n:
                        # what the converted tuple answers, TypeError counted as absent on both sides
                        def absorb(t):
                            return "FF" if t == "(RR ETypeError)" else t
                        if absorb(tri(lambda: n["stored"](o))) != absorb(row[i]):
                            self.divergent = True
            return
        if k in ("maxlen", "minlen"):
            for o in objs:
                i = self.vid(o)
                if i not in self.lens:
                    try:
                        self.lens[i] = "(LN %s)" % z(len(o))
                    except BaseException as e:  # noqa: BLE001
                        self.lens[i] = "(LR %s)" % map_exc(type(e))
            return
        if k == "opt" or k == "optl":
            objs = [o for o in objs if o is not None]
        for c in n.get("kids", []) + n.get("same", []):
            self.walk(c, objs)
        if k in ("dit", "ditl"):
            ms = [m for o in objs for m, _ in self.expand(o)[0]]
            for c in n["member"]:
                self.walk(c, ms)
        if k == "dmap":
            ks, vs = [], []
            for o in objs:
                for m, g in self.expand(o)[0]:
                    ks.append(m)
                    if g[0] == "v":
                        vs.append(g[1])
            self.walk(n["key"][0], ks)
            self.walk(n["val"][0], vs)

    def enc_value(self, o, d):
        i = self.vid(o)
        if o is None:
            return "(Vn %d)" % i
        if d <= 0:
            return "(Vu %d)" % i
        items, fin = self.expand(o)
        if not items and fin == "ETypeError":
            return "(Va %d)" % i
        its = ["(%s, %s)" % (self.enc_value(m, d - 1),
                             ("GV %s" % self.enc_value(g[1], d - 1)) if g[0] == "v" else "GE %s" % g[1])
               for m, g in items]
        return "(V %d false %s %s)" % (i, lst(its), opt(fin))


def snap(x):
    try:
        d = vars(x)
    except TypeError:
        d = None
    return (repr(x), None if d is None else sorted((k, repr(v)) for k, v in d.items()))


def real_call(v, x):
    before = snap(x)
    try:
        r = v(INST, ATTR, x)
    except BaseException as e:  # noqa: BLE001
        return "(ORaise %s)" % map_exc(type(e)), type(e).__name__
    if r is not None:
        return "(OBad 1)", "returned %r" % (r,)
    if snap(x) != before:
        return "(OBad 2)", "value altered"
    return "OOk", "None"


def _nontrivial(tree, seen):
    outs = {s[0] == "None" for s in seen}
    return depth(tree) > 1 or len(outs) > 1


def mk_run_cases(tree, vspecs):
    """-> list of Case (one, or two when some values hit the in_ conversion divergence)."""
    enc = Enc()
    bt = Built(tree, enc, Picker())
    try:
        v = bt.node["real"]()
    except BaseException as e:  # noqa: BLE001 - a valid constructor call failed
        v = None
        ctor_exc = type(e).__name__
    dd = deep_depth(tree)
    groups = {False: [], True: []}
    for s in vspecs:
        ctx = Ctx()
        x = mkvalue(s)
        ctx.walk(bt.node, [x])
        groups[ctx.divergent].append((s, x))
    out = []
    for div, grp in groups.items():
        if not grp:
            continue
        ctx = Ctx()
        for _, x in grp:
            ctx.walk(bt.node, [x])
        runs, seen = [], []
        for s, x in grp:
            if v is None:
                o, what = "(OBad 9)", "constructor raised " + ctor_exc
            else:
                o, what = real_call(v, x)
            runs.append("(%s, %s)" % (ctx.enc_value(x, dd), o))
            seen.append([what, s])
        tb = lst("(%s, %s)" % (a, lst("(%d, %s)" % (i, t) for i, t in sorted(row.items())))
                 for a, row in ctx.tests.items())
        lt = lst("(%d, %s)" % (i, t) for i, t in sorted(ctx.lens.items()))
        term = "(CR (%s) %s %s %s)" % (bt.node["term"], tb, lt, lst(runs))
        inp = {"kind": "run", "tree": tree, "values": [s for s, _ in grp]}
        sig = {"in_conversion_changes_membership": True} if div else {}
        out.append(Case(term, inp, [[w, s] for w, s in seen], sig=sig,
                        nontrivial=_nontrivial(tree, seen), key=repr(inp)))
    return out


def _eq(a, c):
    try:
        return bool(a == c)        # attrs' generated __eq__ compares field by field with ==
    except BaseException:  # noqa: BLE001
        return False


def _hashes(a):
    try:
        hash(a)
        return True
    except BaseException:  # noqa: BLE001
        return False


def mk_eq_case(tree, variants):
    enc = Enc()
    p1, p2 = Picker(), Picker(variants)
    b1, b2 = Built(tree, enc, p1), Built(tree, enc, p2)
    peqs, hs = {}, {}
    reordered = recompiled = False
    contract = True
    for (t1, o1, d1, f1), (t2, o2, d2, f2) in zip(b1.params, b2.params):
        e = _eq(o1, o2)
        peqs[(t1, t2)] = e
        hs[t1], hs[t2] = _hashes(o1), _hashes(o2)
        if e and hs[t1] and hs[t2] and hash(o1) != hash(o2):
            contract = False
        for (dt1, do1), (dt2, do2) in zip(d1, d2):
            peqs[(dt1, dt2)] = _eq(do1, do2)
            hs[dt1], hs[dt2] = _hashes(do1), _hashes(do2)
        if f1.get("conv") and e and isinstance(o1, (set, dict)) and tuple(o1) != tuple(o2):
            reordered = True
        if f1.get("compiled") and e and o1 is not o2:
            recompiled = True
    peqs[("PDef", "PDef")] = True
    hs["PDef"] = True
    for key, num in enc.num.items():
        if key[0] == "m":
            peqs[("(P %d)" % num, "(P %d)" % num)] = True
            hs["(P %d)" % num] = True
    try:
        v1, v2 = b1.node["real"](), b2.node["real"]()
        try:
            seen_eq = bool(v1 == v2) and not bool(v1 != v2)
        except BaseException:  # noqa: BLE001
            seen_eq = False
        try:
            seen_hash = hash(v1) == hash(v2)
        except BaseException:  # noqa: BLE001
            seen_hash = False
    except BaseException:  # noqa: BLE001
        seen_eq = seen_hash = False
    if not contract:
        # an argument pair breaks Python's hash contract: no hash claim
        hs = {k: False for k in hs}
    term = "(CE (%s) (%s) %s %s %s %s)" % (
        b1.node["term"], b2.node["term"],
        lst("(%s, %s, %s)" % (a, c, b(r)) for (a, c), r in peqs.items()),
        lst("(%s, %s)" % (a, b(r)) for a, r in hs.items()), b(seen_eq), b(seen_hash))
    inp = {"kind": "eq", "tree": tree, "variants": list(variants)}
    sig = {}
    if reordered or recompiled:
        # control: the same pair with every re-ordered / re-compiled argument replaced by the first one
        ctrl = [0 if (f.get("conv") or f.get("compiled")) else (variants[i] if i < len(variants) else 0)
                for i, (_, _, _, f) in enumerate(b1.params)]
        ok = True
        if ctrl != list(variants):
            try:
                c1 = Built(tree, Enc(), Picker()).node["real"]()
                c2 = Built(tree, Enc(), Picker(ctrl)).node["real"]()
                ok = bool(c1 == c2)
            except BaseException:  # noqa: BLE001
                ok = False
        if reordered:
            sig["eq_unordered_options_reordered"] = True
        if recompiled:
            sig["eq_pattern_equal_not_identical"] = True
        sig["control_pair_equal"] = ok
    return Case(term, inp, {"eq": seen_eq, "hash_eq": seen_hash}, sig=sig, nontrivial=True, key=repr(inp))


def mk_exc_case():
    tbl = [(a, c, issubclass(ka, kc)) for a, ka in EXC for c, kc in EXC]
    term = "(CX %s)" % lst("(%s, %s, %s)" % (a, c, b(r)) for a, c, r in tbl)
    return Case(term, {"kind": "exc"}, "issubclass table of %d classes" % len(EXC), nontrivial=False,
                key="exc")


# --------------------------------------------------------------------------------------
# generators

def all_leaves():
    out = [["inst", i] for i in range(len(TYPES))]
    out += [["in", i] for i in range(len(OPTIONS))]
    out += [["num", o, i] for o in OPS for i in range(len(BOUNDS))]
    out += [["re", i, f] for i in range(len(REGEX)) for f in (None, "fullmatch", "search", "match")]
    out += [[k, i] for k in ("maxlen", "minlen") for i in range(len(LENGTHS))]
    out.append(["call"])
    return out


def gen_leaf(rng):
    k = rng.choice(["inst", "inst", "in", "in", "num", "num", "re", "len", "call"])
    if k == "inst":
        return ["inst", rng.randrange(len(TYPES))]
    if k == "in":
        return ["in", rng.randrange(len(OPTIONS))]
    if k == "num":
        return ["num", rng.choice(list(OPS)), rng.randrange(len(BOUNDS))]
    if k == "re":
        return ["re", rng.randrange(len(REGEX)), rng.choice([None, "fullmatch", "search", "match"])]
    if k == "len":
        return [rng.choice(["maxlen", "minlen"]), rng.randrange(len(LENGTHS))]
    return ["call"]


def gen_tree(rng, d):
    if d <= 1 or rng.random() < 0.12:
        return gen_leaf(rng)
    k = rng.choice(["opt", "optl", "dit", "ditl", "dmap", "not", "not", "or", "or", "and", "and"])
    sub = lambda: gen_tree(rng, d - 1)   # noqa: E731
    n = rng.choice([0, 1, 2, 2, 2, 3])
    if k == "opt":
        return ["opt", sub()]
    if k == "optl":
        return ["optl", rng.random() < 0.5, [sub() for _ in range(n)]]
    if k == "dit":
        return ["dit", sub(), sub() if rng.random() < 0.4 else None]
    if k == "ditl":
        return ["ditl", rng.random() < 0.5, [sub() for _ in range(n)], sub() if rng.random() < 0.3 else None]
    if k == "dmap":
        return ["dmap", sub(), sub(), sub() if rng.random() < 0.3 else None]
    if k == "not":
        return ["not", sub(), rng.choice([0, 0, 1, 2]), rng.randrange(len(EXC_TYPES))]
    return [k, [sub() for _ in range(n)]]


def gen_vspec(rng, nest=2, want_container=0.45):
    if nest <= 0 or rng.random() > want_container:
        return ["p", rng.randrange(len(VALUES))]
    k = rng.choice(["list", "list", "tuple", "dict", "dict", "set", "fset", "iter"])
    n = rng.choice([0, 1, 2, 2, 3])
    sub = lambda: gen_vspec(rng, nest - 1, 0.25)   # noqa: E731
    simple = lambda: ["p", rng.choice(SIMPLE)]     # noqa: E731
    if k in ("list", "tuple"):
        return [k, [sub() for _ in range(n)]]
    if k in ("set", "fset"):
        return [k, [simple() for _ in range(n)]]
    if k == "dict":
        return ["dict", [[simple(), sub()] for _ in range(n)]]
    members = [simple() for _ in range(n)]
    table = None if rng.random() < 0.3 else [[m, sub()] for m in members if rng.random() < 0.8]
    return ["iter", members, rng.choice([None, None, "R", "T", "B", "V"]), table]


REDUCED_LEAVES = [["inst", 0], ["inst", 1], ["inst", 10], ["in", 0], ["in", 6], ["in", 2],
                  ["num", "gt", 1], ["num", "le", 1], ["num", "lt", 6], ["minlen", 2], ["maxlen", 3],
                  ["re", 2, None], ["re", 9, "search"], ["call"],
                  ["in", 3], ["num", "ge", 0], ["re", 1, "match"], ["inst", 9]]
REDUCED_VALUES = [["p", 0], ["p", 1], ["p", 3], ["p", 9], ["p", 13], ["p", 15], ["p", 18], ["p", 19],
                  ["p", 22], ["p", 28], ["p", NONE_IDX], ["p", 31], ["p", 42], ["p", 38], ["p", 54],
                  ["p", 65], ["p", 68],
                  ["list", []], ["list", [["p", 1]]], ["list", [["p", 1], ["p", 18]]],
                  ["dict", [[["p", 18], ["p", 1]]]], ["dict", [[["p", 1], ["p", 19]], [["p", 19], ["p", 40]]]],
                  ["tuple", [["p", 2], ["p", 3]]], ["list", [["p", NONE_IDX], ["p", 31]]]]


def depth2_trees(leaves):
    out = [["and", []], ["or", []]]
    for a in leaves:
        out.append(["opt", a])
        out.append(["dit", a, None])
        for e in (0, 1, 5):
            out.append(["not", a, 0, e])
        for c in leaves:
            out.append(["and", [a, c]])
            out.append(["or", [a, c]])
            out.append(["dit", a, c])
            out.append(["dmap", a, c, None])
    return out


def _rotate(seq, seed, n):
    k = seed % len(seq)
    r = seq[k:] + seq[:k]
    return r[:n]


def pick_values(tree, specs, n):
    """Input selection only: of the candidate values keep `n`, spread over the outcome classes the
    real validator shows (so that acceptances, which are rare for random trees, are represented)."""
    try:
        v = Built(tree, Enc(), Picker()).node["real"]()
    except BaseException:  # noqa: BLE001
        return specs[:n]
    groups = {}
    for s in specs:
        groups.setdefault(real_call(v, mkvalue(s))[1], []).append(s)
    order = sorted(groups, key=lambda k: (k != "None", len(groups[k])))
    out = []
    while len(out) < n and any(groups.values()):
        for k in order:
            if groups[k] and len(out) < n:
                out.append(groups[k].pop(0))
    return out


def generate(tier, seed):
    rng = random.Random(seed)
    cases = [mk_exc_case()]
    # (a) every leaf x the value pool
    allv = [["p", i] for i in range(len(VALUES))]
    vals = allv
    for leaf in all_leaves():
        cases.extend(mk_run_cases(leaf, vals))
    # (b) every expression of depth <= 2 over the reduced pools
    if tier == "thorough":
        for t in depth2_trees(REDUCED_LEAVES):
            cases.extend(mk_run_cases(t, REDUCED_VALUES))
    else:
        for t in depth2_trees(_rotate(REDUCED_LEAVES, seed, 4)):
            cases.extend(mk_run_cases(t, REDUCED_VALUES))
    # (c) random trees
    for _ in range(3500 if tier == "quick" else 36000):
        t = gen_tree(rng, rng.choice([2, 3, 3, 4, 4]))
        wc = 0.75 if deep_depth(t) else 0.35
        cases.extend(mk_run_cases(t, pick_values(t, [gen_vspec(rng, 2, wc) for _ in range(28)], 7)))
    # eq cases: the findings' reproducers first, then random ones
    for t, var in TARGETED_EQ:
        cases.append(mk_eq_case(t, var))
    for _ in range(1200 if tier == "quick" else 9000):
        t = gen_tree(rng, rng.choice([1, 2, 3, 3]))
        n = n_params(t)
        var = [rng.choice([0, 1, 1, 2]) for _ in range(n)]
        cases.append(mk_eq_case(t, var))
    return _spread(cases)


def _spread(cases):
    """Same cases, large literals (a leaf x the whole value pool) spread evenly between the small ones, so that no
    single coqc shard is several times larger than the others (peak memory under load)."""
    big = [c for c in cases if len(c.term) > 2500]
    small = [c for c in cases if len(c.term) <= 2500]
    if not big or not small:
        return cases
    out, step, j = [], max(1, len(small) // len(big)), 0
    for i, c in enumerate(small):
        out.append(c)
        if (i + 1) % step == 0 and j < len(big):
            out.append(big[j])
            j += 1
    return out + big[j:]


TARGETED_EQ = [
    (["in", 3], [1]),                       # {0, 8} vs {8, 0}
    (["in", 5], [1]),                       # dict in the other insertion order
    (["in", 5], [2]),                       # dict, same order (control)
    (["re", 15, None], [1]),                # equal patterns, not the same object
    (["re", 15, "search"], [0]),
    (["and", [["in", 0], ["and", [["num", "lt", 1], ["call"]]]]], [1, 1]),
    (["optl", True, [["inst", 0]]], []),
    (["optl", False, [["inst", 0], ["in", 1]]], [1]),
]


def rerun(inp):
    if inp["kind"] == "exc":
        return mk_exc_case()
    if inp["kind"] == "eq":
        return mk_eq_case(inp["tree"], inp["variants"])
    cs = mk_run_cases(inp["tree"], inp["values"])
    # the values of a stored case all fall on one side of the in_-conversion split; should that
    # change, replay the flagged group
    return cs[-1]


def corpus():
    return []


def EXHAUSTIVE(tier):
    return tier == "thorough"


def distribution(cases):
    from collections import Counter
    kinds, roots, depths, outs, nvals = Counter(), Counter(), Counter(), Counter(), 0
    flagged = 0
    for c in cases:
        k = c.inp["kind"]
        kinds[k] += 1
        if k == "exc":
            continue
        roots[c.inp["tree"][0]] += 1
        depths[depth(c.inp["tree"])] += 1
        if k == "run":
            nvals += len(c.seen)
            for what, _ in c.seen:
                outs[what] += 1
            flagged += 1 if c.sig else 0
        else:
            outs["eq=%s hash_eq=%s" % (c.seen["eq"], c.seen["hash_eq"])] += 1
    return {"case_kinds": dict(kinds), "root_constructor": dict(roots), "tree_depth": dict(sorted(depths.items())),
            "validator_calls": nvals, "outcomes": dict(outs.most_common()),
            "run_cases_with_in_conversion_divergence": flagged}
