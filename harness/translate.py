"""Regenerates coq/theories/Gen/*.v from /repo/src/attr/*.py (fail-closed)."""


def regenerate_all(verbose=False):
    return {}
