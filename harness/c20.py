"""C20 - the global validator switch.  Real-side driver + case generator."""
from __future__ import annotations

import itertools
import random

import attr
import attrs
from attr import _config, setters, validators

from . import vlib
from .driver import Case
from .vlib import b, lst

PROP = "C20"
HEADER = "From Attrs Require Import Base C20.Model C20.Corr."
CASE_TYPE = "case"
CHECK = "check_case"
MODEL = "model_of"
RULE = ("every sequence over the 8 state-changing operations {set_disabled(T/F), "
        "set_run_validators(T/F/non-bool), enter disabled(), exit normally, exit by exception} in "
        "which an exit only occurs while a context is open (prefixes of well-nested programs), "
        "from both initial switch values, up to length 4 (quick) / 6 (thorough), plus seeded random "
        "sequences up to length 14; after EVERY operation the harness reads get_disabled(), "
        "get_run_validators(), constructs an attr.s and a define instance, assigns to a field "
        "hooked with setters.validate / [convert, validate] / define's default, and calls "
        "attr.validate(); distinct = distinct (initial value, op sequence); non-trivial = "
        "contains at least one context entry or a setter call")
EXTRA_TRUSTED = ["contextlib.contextmanager / generator semantics (the model's frame stack stands "
                 "for the suspended generator frames of validators.disabled())"]
ASSUMPTIONS = ["_config._run_validators is only written through the public API during a sequence "
               "(the harness sets the initial value directly)"]

_log = []


def _rec(inst, a, v):
    _log.append(("v", a.name))


def _conv(v):
    _log.append(("c",))
    return v


@attr.s
class AS:
    x = attr.ib(default=0, validator=_rec, converter=_conv)


@attr.s(on_setattr=setters.validate)
class ASv:
    x = attr.ib(default=0, validator=_rec, converter=_conv)


@attr.s(on_setattr=[setters.convert, setters.validate])
class AScv:
    x = attr.ib(default=0, validator=_rec, converter=_conv)


@attrs.define
class DF:
    x: int = attrs.field(default=0, validator=_rec, converter=_conv)


@attrs.define
class DFfield:
    x: int = attrs.field(default=0, validator=[_rec], converter=_conv, on_setattr=setters.validate)


@attrs.define
class DFv:
    x: int = attrs.field(default=0, validator=_rec)


@attrs.define
class DFvl:
    x: int = attrs.field(default=0, validator=[_rec, _rec])
    y: int = attrs.field(default=0, converter=_conv)


@attr.s(on_setattr=setters.validate, slots=True)
class ASvs:
    x = attr.ib(default=0, validator=_rec)


@attrs.define(slots=False)
class DFd(DF):
    z: int = attrs.field(default=0, validator=_rec)


VAL_ONLY = (DFv, DFvl, ASvs, DFd)

NONBOOL_POOL = [1, 0, None, "yes", 1.0]


def _probe():
    """Returns dict of observations + list of internal disagreements."""
    dis = []
    gd = validators.get_disabled()
    gr = _config.get_run_validators()
    if attr.get_run_validators() is not gr:
        dis.append("attr.get_run_validators differs from _config.get_run_validators")

    def fired(fn):
        _log.clear()
        fn()
        return (any(e[0] == "v" for e in _log), ("c",) in _log)

    init = [fired(lambda k=k: k(1)) for k in (AS, ASv, AScv, DF, DFfield)]
    init_vo = [fired(lambda k=k: k(1))[0] for k in VAL_ONLY]
    assign_vo = [fired(lambda i=i: setattr(i, "z" if isinstance(i, DFd) else "x", 2))[0] for i in [k(1) for k in VAL_ONLY]]
    val_vo = [fired(lambda i=i: attr.validate(i))[0] for i in [k(1) for k in VAL_ONLY]]
    # instances for assignment / validate (their construction is not what we observe)
    insts = [k(1) for k in (ASv, AScv, DF, DFfield)]
    assign = [fired(lambda i=i: setattr(i, "x", 2)) for i in insts]
    val = [fired(lambda i=i: attr.validate(i)) for i in [AS(1)] + insts]
    iv = {v for v, _ in init} | set(init_vo)
    av = {v for v, _ in assign} | set(assign_vo)
    vv = {v for v, _ in val} | set(val_vo)
    ic = {c for _, c in init}
    # ASv and DFfield hook only validate: converter must not run there; AScv and DF convert
    ac = {assign[1][1], assign[2][1]}
    if len(iv) != 1:
        dis.append("construction: classes disagree on whether validators ran: %r" % (init,))
    if len(av) != 1:
        dis.append("assignment: classes disagree on whether validators ran: %r" % (assign,))
    if len(vv) != 1:
        dis.append("attr.validate: classes disagree: %r" % (val,))
    if len(ic) != 1 or len(ac) != 1:
        dis.append("converters: classes disagree: init %r assign %r" % (init, assign))
    if assign[0][1] or assign[3][1]:
        dis.append("setters.validate-only hook ran a converter")
    if any(c for _, c in val):
        dis.append("attr.validate ran a converter")
    return {
        "get_disabled": gd, "get_run": gr,
        "init_validates": init[0][0], "assign_validates": assign[0][0],
        "validate_validates": val[0][0],
        "init_converts": init[0][1], "assign_converts": assign[1][1],
    }, dis


def real_run(init, ops):
    """ops: list of tuples ('sd', bool) | ('sr', value) | ('enter',) | ('exit', 'n'|'e')."""
    _config._run_validators = init
    open_cms = []
    seen = []
    disagreements = []
    try:
        for o in ops:
            oc = "Done"
            try:
                if o[0] == "sd":
                    validators.set_disabled(o[1])
                elif o[0] == "sr":
                    attr.set_run_validators(o[1])
                elif o[0] == "enter":
                    cm = validators.disabled()
                    cm.__enter__()
                    open_cms.append(cm)
                elif o[0] == "exit":
                    if not open_cms:
                        oc = "NoOpenContext"
                    else:
                        cm = open_cms.pop()
                        if o[1] == "n":
                            cm.__exit__(None, None, None)
                        else:
                            e = RuntimeError("body failed")
                            try:
                                raise e
                            except RuntimeError:
                                import sys
                                swallowed = cm.__exit__(*sys.exc_info())
                            if swallowed:
                                oc = "Swallowed"
            except TypeError:
                oc = "RaisedTypeError"
            ob, dis = _probe()
            ob["outcome"] = oc
            seen.append(ob)
            disagreements.extend(dis)
    finally:
        while open_cms:
            try:
                open_cms.pop().__exit__(None, None, None)
            except Exception:
                pass
        _config._run_validators = True
    return seen, disagreements


def enc_op(o):
    if o[0] == "sd":
        return "OSetDisabled %s" % b(o[1])
    if o[0] == "sr":
        return "OSetRun (ABool %s)" % b(o[1]) if isinstance(o[1], bool) else "OSetRun ANonBool"
    if o[0] == "enter":
        return "OEnter"
    return "OExit %s" % ("ExitNormal" if o[1] == "n" else "ExitRaise")


def enc_obs(ob):
    oc = ob["outcome"] if ob["outcome"] in ("Done", "RaisedTypeError", "NoOpenContext") else None
    if oc is None:
        # an outcome the model cannot express (e.g. exception swallowed): force a mismatch
        oc = "NoOpenContext" if ob["outcome"] == "Swallowed" else "Done"
    return "(Build_obs %s %s %s %s %s %s %s %s)" % (
        oc, b(ob["get_disabled"]), b(ob["get_run"]), b(ob["init_validates"]),
        b(ob["assign_validates"]), b(ob["validate_validates"]), b(ob["init_converts"]),
        b(ob["assign_converts"]))


def mk_case(init, ops):
    seen, dis = real_run(init, ops)
    term = "(Build_case %s %s %s)" % (b(init), lst(enc_op(o) for o in ops), lst(enc_obs(x) for x in seen))
    inp = {"init": init, "ops": [list(o) for o in ops]}
    c = Case(term, inp, seen, sig={}, nontrivial=any(o[0] != "exit" for o in ops),
             key=repr((init, ops)))
    return c, dis


ALPHABET = [("sd", True), ("sd", False), ("sr", True), ("sr", False), ("sr", 1),
            ("enter",), ("exit", "n"), ("exit", "e")]


def _enumerate(maxlen):
    out = []

    def rec(prefix, depth):
        if prefix:
            out.append(tuple(prefix))
        if len(prefix) == maxlen:
            return
        for o in ALPHABET:
            if o[0] == "exit" and depth == 0:
                continue
            nd = depth + (1 if o[0] == "enter" else -1 if o[0] == "exit" else 0)
            prefix.append(o)
            rec(prefix, nd)
            prefix.pop()

    rec([], 0)
    # keep only maximal sequences and those of full length: every prefix is observed anyway
    s = set(out)
    return [p for p in out if len(p) == maxlen or not any(p + (o,) in s for o in ALPHABET)]


_internal = []


def generate(tier, seed):
    rng = random.Random(seed)
    maxlen = 4 if tier == "quick" else 6
    cases = []
    _internal.clear()
    for init in (True, False):
        for ops in _enumerate(maxlen):
            c, dis = mk_case(init, list(ops))
            cases.append(c)
            _internal.extend((c.inp, d) for d in dis)
    n_random = 300 if tier == "quick" else 3000
    for _ in range(n_random):
        n = rng.randint(maxlen + 1, 14)
        ops, depth = [], 0
        for _ in range(n):
            cand = [o for o in ALPHABET if not (o[0] == "exit" and depth == 0)]
            o = rng.choice(cand + [("enter",)] * 2 + ([("exit", "n"), ("exit", "e")] if depth else []))
            if o == ("sr", 1):
                o = ("sr", rng.choice(NONBOOL_POOL))
            depth += 1 if o[0] == "enter" else -1 if o[0] == "exit" else 0
            ops.append(o)
        c, dis = mk_case(rng.random() < 0.5, ops)
        cases.append(c)
        _internal.extend((c.inp, d) for d in dis)
    return cases


def extra(tier, seed):
    from .vlib import Discrepancy
    out = [Discrepancy({"kind": "read-sites-disagree"}, d, {"input": inp, "detail": d}) for inp, d in _internal[:20]]
    return out, {"runtime_observations": 0}


def rerun(inp):
    ops = [tuple(o) for o in inp["ops"]]
    return mk_case(inp["init"], ops)[0]


def corpus():
    import importlib.util, os
    spec = importlib.util.spec_from_file_location("verif_defects", os.path.join(vlib.VERIF, "corpus", "defects.py"))
    m = importlib.util.module_from_spec(spec)
    spec.loader.exec_module(m)
    return [(k, f) for k, f in m.ALL.items() if "_C20_" in k]


def EXHAUSTIVE(tier):
    return True


def distribution(cases):
    from collections import Counter
    lens = Counter(len(c.inp["ops"]) for c in cases)
    ops = Counter(o[0] + (":" + ("bool" if isinstance(o[1], bool) else "nonbool") if o[0] == "sr" else "")
                  for c in cases for o in c.inp["ops"])
    return {"sequence_lengths": dict(sorted(lens.items())), "operations": dict(ops),
            "initial_enabled": sum(1 for c in cases if c.inp["init"])}
