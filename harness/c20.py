"""C20 - the global validator switch.  Real-side driver + case generator."""
from __future__ import annotations

import itertools
import random

import attr
import attrs
from attr import _config, setters, validators

from . import vlib
from .driver import Case
from .vlib import b, lst

PROP = "C20"
HEADER = "From Attrs Require Import Base C20.Model C20.Pipe C20.Corr."
CASE_TYPE = "case"
CHECK = "check_case"
MODEL = "model_of"
RULE = ("every sequence over the 8 state-changing operations {set_disabled(T/F), "
        "set_run_validators(T/F/non-bool), enter disabled(), exit normally, exit by exception} in "
        "which an exit only occurs while a context is open (prefixes of well-nested programs), "
        "from both initial switch values, up to length 4 (quick) / 5 (thorough), plus 80 hand-built sequences "
        "with managers created ahead of use and calls of a function decorated with @validators.disabled(), plus "
        "300 (quick) / 12000 (thorough) seeded random sequences up to length 14 over the larger alphabet; after EVERY operation the harness reads get_disabled(), "
        "get_run_validators(), constructs an attr.s and a define instance, assigns to a field "
        "hooked with setters.validate / [convert, validate] / define's default, and calls "
        "attr.validate(), and replays a fixed set of footprint scenarios (hooks after validate in a pipe, "
        "attrs exception classes, post-init, hash cache, factories, pickling) whose non-validator trace and "
        "resulting state must equal the ones recorded with validators enabled; at the END of every "
        "sequence two random on_setattr hook trees (validate/convert/user hooks, lists and setters.pipe "
        "nested to depth 3, validator threshold random) are assigned through and one random init tail "
        "(0-3 validated fields, post-init, cache_hash, exception class, slots) is constructed, and their "
        "traces are compared with C20/Pipe.v in the model's final state; distinct = distinct (initial "
        "value, op sequence); non-trivial = contains at least one context entry or a setter call")
EXTRA_TRUSTED = ["contextlib.contextmanager / generator semantics (the model's frame stack stands "
                 "for the suspended generator frames of validators.disabled())"]
ASSUMPTIONS = ["_config._run_validators is only written through the public API during a sequence "
               "(the harness sets the initial value directly)"]



def pre_build():
    # Gen/Switch.v imports the value types of Gen/Decide.v; both are regenerated from the source
    from . import translate, translate_switch
    translate.regenerate_all()
    translate_switch.regenerate()


def translated_tie():
    from . import translate_switch
    return translate_switch.regenerate(), "theories/C20/SwitchTie.vo"


_log = []


def _rec(inst, a, v):
    _log.append(("v", a.name))


def _conv(v):
    _log.append(("c",))
    return v


@attr.s
class AS:
    x = attr.ib(default=0, validator=_rec, converter=_conv)


@attr.s(on_setattr=setters.validate)
class ASv:
    x = attr.ib(default=0, validator=_rec, converter=_conv)


@attr.s(on_setattr=[setters.convert, setters.validate])
class AScv:
    x = attr.ib(default=0, validator=_rec, converter=_conv)


@attrs.define
class DF:
    x: int = attrs.field(default=0, validator=_rec, converter=_conv)


@attrs.define
class DFfield:
    x: int = attrs.field(default=0, validator=[_rec], converter=_conv, on_setattr=setters.validate)


@attrs.define
class DFv:
    x: int = attrs.field(default=0, validator=_rec)


@attrs.define
class DFvl:
    x: int = attrs.field(default=0, validator=[_rec, _rec])
    y: int = attrs.field(default=0, converter=_conv)


@attr.s(on_setattr=setters.validate, slots=True)
class ASvs:
    x = attr.ib(default=0, validator=_rec)


@attrs.define(slots=False)
class DFd(DF):
    z: int = attrs.field(default=0, validator=_rec)


# --- "unaffected by the switch" footprint classes: everything other than the validator calls themselves
# (converters, non-validating hooks in any position of a pipe, __attrs_post_init__, the hash cache,
# BaseException.__init__ of attrs exception classes) must leave the same trace and the same state in
# every switch state.

def _audit(inst, a, v):
    _log.append(("a", a.name, v))
    return v


def _audit2(inst, a, v):
    _log.append(("a2", a.name, v))
    return v


def _strip(v):
    _log.append(("c",))
    return v.strip() if isinstance(v, str) else v


@attr.s
class FPvca:
    x = attr.ib(default="d", validator=_rec, converter=_strip, on_setattr=[setters.validate, setters.convert, _audit])


@attrs.define(on_setattr=setters.pipe(setters.validate, _audit))
class FPva:
    y: int = attrs.field(default=0, validator=_rec)


@attrs.define(on_setattr=[_audit, setters.validate, _audit2, setters.convert])
class FPavac:
    y: str = attrs.field(default="q", validator=_rec, converter=_strip)
    n: int = 0


@attrs.define(on_setattr=setters.pipe(setters.pipe(setters.validate, _audit), setters.pipe(setters.convert, _audit2)))
class FPnested:
    y: str = attrs.field(default="q", validator=_rec, converter=_strip)


@attrs.define
class FPexc(Exception):
    a: int = attrs.field(validator=_rec)
    b: str = attrs.field(default="dflt", validator=_rec, converter=_strip)


@attr.s(auto_exc=True, slots=True)
class FPexcs(Exception):
    a = attr.ib(validator=_rec)
    b = attr.ib(default=7)


@attrs.define
class FPexcpost(Exception):
    a: int = attrs.field(validator=_rec)

    def __attrs_post_init__(self):
        _log.append(("post",))


@attrs.define
class FPpost:
    a: int = attrs.field(validator=_rec)
    t: int = attrs.field(init=False, default=5)

    def __attrs_post_init__(self):
        _log.append(("post",))
        self.t = self.a * 2


@attr.s(frozen=True, cache_hash=True, eq=True)
class FPhash:
    a = attr.ib(validator=_rec)
    b = attr.ib(default=2)


@attrs.define
class FPmixed:
    a: int = attrs.field(validator=_rec)
    b: int = attrs.field(factory=lambda: (_log.append(("f",)), 3)[1])
    c: int = attrs.field(default=4, validator=[_rec, _rec])


def _fp_state(i):
    d = {a.name: getattr(i, a.name, "<unset>") for a in attr.fields(type(i))}
    if isinstance(i, BaseException):
        d["args"] = i.args
    return repr(sorted(d.items()))


def _fp_scenarios():
    out = []

    def scen(name, fn):
        _log.clear()
        try:
            r = fn()
        except Exception as e:            # noqa: BLE001
            r = "raised %s" % type(e).__name__
        out.append((name, [e for e in _log if e[0] != "v"], r))

    def ctor_assign(cls, args, kw, assigns):
        def run():
            i = cls(*args, **kw)
            st = [_fp_state(i)]
            for n, v in assigns:
                setattr(i, n, v)
                st.append(_fp_state(i))
            return st
        return run

    scen("FPvca", ctor_assign(FPvca, (" a ",), {}, [("x", "  padded  "), ("x", 3)]))
    scen("FPva", ctor_assign(FPva, (1,), {}, [("y", 5), ("y", -1)]))
    scen("FPavac", ctor_assign(FPavac, (), {"y": " z "}, [("y", " w "), ("n", 4)]))
    scen("FPnested", ctor_assign(FPnested, (" z ",), {}, [("y", " w ")]))
    scen("FPexc-kw", ctor_assign(FPexc, (), {"a": 1, "b": " s "}, []))
    scen("FPexc-default", ctor_assign(FPexc, (1,), {}, []))
    scen("FPexcs", ctor_assign(FPexcs, (), {"a": 1}, []))
    scen("FPexcpost", ctor_assign(FPexcpost, (), {"a": 1}, []))
    scen("FPpost", ctor_assign(FPpost, (3,), {}, [("a", 4)]))
    scen("FPhash", lambda: (lambda i: (_fp_state(i), hash(i) == hash(FPhash(1)), hash(i) == hash(i)))(FPhash(1)))
    scen("FPmixed", ctor_assign(FPmixed, (1,), {}, [("c", 9)]))

    def pickled():
        import pickle
        e = FPexc(a=1, b=" s ")
        e2 = pickle.loads(pickle.dumps(e))
        return (_fp_state(e2), type(e2).__name__)
    scen("FPexc-pickle", pickled)
    return out


_config._run_validators = True
_FP_REFERENCE = _fp_scenarios()
# literal anchors, so that the reference itself is not taken on trust
assert _FP_REFERENCE[0] == ("FPvca", [("c",), ("c",), ("a", "x", "padded"), ("c",), ("a", "x", 3)],
                            ["[('x', 'a')]", "[('x', 'padded')]", "[('x', 3)]"]), _FP_REFERENCE[0]
assert _FP_REFERENCE[4][2] == ["[('a', 1), ('args', (1, 's')), ('b', 's')]"], _FP_REFERENCE[4]
assert _FP_REFERENCE[5][2] == ["[('a', 1), ('args', (1, 'dflt')), ('b', 'dflt')]"], _FP_REFERENCE[5]


# --- probes tied to C20/Pipe.v: random hook trees and init tails, run in the switch state reached at
# the end of a case's operation sequence.
_THR = [10 ** 9]
_plog = []


def _pv(inst, a, v):
    _plog.append("(EvVal %d)" % v)
    if v >= _THR[0]:
        raise ValueError("rejected")


def _pc(v):
    _plog.append("(EvConv %d)" % v)
    return v + 1


def _mk_user(t):
    def hook(inst, a, v):
        _plog.append("(EvUser %d %d)" % (t, v))
        return v + t + 2
    hook.__name__ = "user%d" % t
    return hook


_USERS = [_mk_user(t) for t in range(4)]
_pipe_classes = {}


def _gen_tree(rng, depth=0):
    r = rng.random()
    if depth < 3 and r < (0.75 if depth == 0 else 0.25):
        return ["P"] + [_gen_tree(rng, depth + 1) for _ in range(rng.randint(0, 4))]
    return rng.choice(["V", "V", "C", ["U", rng.randrange(4)]])


def _build_hook(t):
    if t == "V":
        return setters.validate
    if t == "C":
        return setters.convert
    if t[0] == "U":
        return _USERS[t[1]]
    return setters.pipe(*[_build_hook(c) for c in t[1:]])


def _enc_tree(t):
    if t == "V":
        return "HValidate"
    if t == "C":
        return "HConvert"
    if t[0] == "U":
        return "(HUser %d)" % t[1]
    return "(HPipe %s)" % lst(_enc_tree(c) for c in t[1:])


def _pipe_class(tree, as_list):
    k = (repr(tree), as_list)
    if k not in _pipe_classes:
        if isinstance(tree, list) and tree[0] == "P" and as_list:
            hook = [_build_hook(c) for c in tree[1:]]       # the list form of on_setattr
        else:
            hook = _build_hook(tree)
        _pipe_classes[k] = attr.make_class("PipeProbe", {"x": attr.ib(validator=_pv, converter=_pc, on_setattr=hook)})
    return _pipe_classes[k]


def run_pipe_probe(spec):
    """spec: {"tree":…, "list":bool, "thr":int, "v":int} -> (trace terms, stored value or None), disagreements"""
    dis = []
    cls = _pipe_class(spec["tree"], spec["list"])
    _THR[0] = 10 ** 9
    inst = cls(0)
    old = inst.x
    _plog.clear()
    _THR[0] = spec["thr"]
    try:
        inst.x = spec["v"]
        res = inst.x
    except ValueError:
        res = None
        if inst.x != old:
            dis.append("assignment rejected by a validator still changed the attribute: %r" % (spec,))
    finally:
        _THR[0] = 10 ** 9
    return (list(_plog), res), dis


_tail_classes = {}


def _tail_class(n, post, cache, exc, slots):
    k = (n, post, cache, exc, slots)
    if k not in _tail_classes:
        body = {"f%d" % i: attr.ib(validator=_tv) for i in range(n)}
        body["plain"] = attr.ib(default=0)
        ns = {}
        if post:
            def __attrs_post_init__(self):
                _tlog.append("IPost")
                # what has not happened yet when post-init runs
                try:
                    object.__getattribute__(self, "_attrs_cached_hash")
                    _tlog.append("!hash cache initialised before post-init")
                except AttributeError:
                    pass
                if isinstance(self, BaseException) and self.args != ():
                    _tlog.append("!BaseException.__init__ ran before post-init")
            ns["__attrs_post_init__"] = __attrs_post_init__
        bases = (Exception,) if exc else (object,)
        base = type("TailBase", bases, ns)
        kw = dict(slots=slots)
        if exc:
            kw["auto_exc"] = True
        if cache:
            kw.update(eq=True, unsafe_hash=True, cache_hash=True)
        _tail_classes[k] = attr.make_class("TailProbe", body, bases=(base,), **kw)
    return _tail_classes[k]


_tlog = []


def _tv(inst, a, v):
    _tlog.append("(IVal %d)" % v)
    if v >= _THR[0]:
        raise ValueError("rejected")


def run_tail_probe(spec):
    """spec: {"vals":[…], "post":b, "cache":b, "exc":b, "slots":b, "thr":int}"""
    dis = []
    cls = _tail_class(len(spec["vals"]), spec["post"], spec["cache"], spec["exc"], spec["slots"])
    _tlog.clear()
    _THR[0] = spec["thr"]
    kw = {"f%d" % i: v for i, v in enumerate(spec["vals"])}
    try:
        inst = cls(**kw)
        ok = True
    except ValueError:
        ok = False
    finally:
        _THR[0] = 10 ** 9
    trace = [e for e in _tlog if not e.startswith("!")]
    dis.extend("init tail order: %s (%r)" % (e[1:], spec) for e in _tlog if e.startswith("!"))
    if ok:
        if spec["cache"]:
            try:
                if object.__getattribute__(inst, "_attrs_cached_hash") is None:
                    trace.append("IHashCache")
            except AttributeError:
                pass
        if spec["exc"]:
            want = tuple(spec["vals"]) + (0,)
            if inst.args == want:
                trace.append("IExcInit")
            elif inst.args != ():
                dis.append("exception args %r are neither () nor the field values %r (%r)" % (inst.args, want, spec))
    return (trace, ok), dis


def gen_probes(rng):
    pipes = []
    for _ in range(2):
        tree = _gen_tree(rng)
        thr = rng.choice([1000, 1000, rng.randint(0, 30)])
        pipes.append({"tree": tree, "list": rng.random() < 0.5, "thr": thr, "v": rng.randint(0, 12)})
    exc = rng.random() < 0.5
    tail = {"vals": [rng.randint(0, 9) for _ in range(rng.randint(0, 3))], "post": rng.random() < 0.5,
            "cache": (not exc) and rng.random() < 0.5, "exc": exc, "slots": rng.random() < 0.5,
            "thr": rng.choice([1000, 1000, rng.randint(0, 10)])}
    return {"pipes": pipes, "tails": [tail]}


def _enc_thr(t):
    # never a large nat literal: the validator threshold "never rejects" is encoded as 1000
    return str(min(t, 1000))


def enc_pipe_probe(spec, seen):
    tr, res = seen
    return "(Build_pipe_probe %s %s %d (%s, %s))" % (_enc_tree(spec["tree"]), _enc_thr(spec["thr"]), spec["v"], lst(tr),
                                                   "None" if res is None else "(Some %d)" % res)


def enc_tail_probe(spec, seen):
    tr, ok = seen
    return "(Build_tail_probe (Build_init_tail %s %s %s %s) %s (%s, %s))" % (
        lst(str(v) for v in spec["vals"]), b(spec["post"]), b(spec["cache"]), b(spec["exc"]), _enc_thr(spec["thr"]),
        lst(tr), b(ok))


class _FalsyValidator:
    """a validator object whose truth value is False: all three read sites must still run it (fix c16a127)"""
    def __call__(self, inst, a, v):
        _rec(inst, a, v)

    def __bool__(self):
        return False


@attrs.define
class DFfalsy:
    x: int = attrs.field(default=0, validator=_FalsyValidator())


@attr.s(on_setattr=setters.validate)
class ASfalsy:
    x = attr.ib(default=0, validator=_FalsyValidator())


@attrs.define
class DFpriv:
    """a validated field whose init alias differs from its name: hooks are keyed by NAME"""
    _p: int = attrs.field(default=0, validator=_rec)


@attr.s(on_setattr=setters.validate)
class ASalias:
    x = attr.ib(default=0, validator=_rec, alias="other")


@attrs.define
class DFbase0:
    """no validators here ..."""
    a: int = 0


@attrs.define
class DFsub0(DFbase0):
    """... only in the subclass: attr.validate(sub) must not reuse anything computed for the base"""
    b: int = attrs.field(default=0, validator=_rec)


@attrs.define
class DFplainsub(DFv):
    """the validated field is inherited, the subclass adds only a plain field (implicit define on_setattr) ..."""
    note: str = "n"


@attrs.define
class DFemptysub(DFv):
    """... or nothing at all ..."""


@attrs.define
class DFplainsub2(DFplainsub):
    """... also one level further down; assignment to the inherited field must still validate"""
    more: int = 0


@attrs.define(slots=False)
class DFplainsubdict(DFv):
    note: str = "n"


VAL_ONLY = (DFv, DFvl, ASvs, DFd, DFfalsy, ASfalsy, DFpriv, ASalias, DFsub0,
            DFplainsub, DFemptysub, DFplainsub2, DFplainsubdict)
_ASSIGN_FIELD = {"DFd": "z", "DFpriv": "_p", "DFsub0": "b"}

NONBOOL_POOL = [1, 0, None, "yes", 1.0]


_FP_DUE = [True]
_FP_LAST = [None]


def _probe():
    """Returns dict of observations + list of internal disagreements."""
    dis = []
    gd = validators.get_disabled()
    gr = _config.get_run_validators()
    # the footprint scenarios depend on the switch value only: replay them when it changed
    _FP_DUE[0] = _FP_LAST[0] is not gr
    _FP_LAST[0] = gr
    if attr.get_run_validators() is not gr:
        dis.append("attr.get_run_validators differs from _config.get_run_validators")

    def fired(fn):
        _log.clear()
        fn()
        return (any(e[0] == "v" for e in _log), ("c",) in _log)

    init = [fired(lambda k=k: k(1)) for k in (AS, ASv, AScv, DF, DFfield)]
    init_vo = [fired(lambda k=k: k())[0] for k in VAL_ONLY]
    assign_vo = [fired(lambda i=i: setattr(i, _ASSIGN_FIELD.get(type(i).__name__, "x"), 2))[0] for i in [k() for k in VAL_ONLY]]
    val_vo = [fired(lambda i=i: attr.validate(i))[0] for i in [k() for k in VAL_ONLY]]
    # attr.validate() of a subclass instance after its base was validated: every validated field of the subclass,
    # own and inherited, exactly when enabled
    attr.validate(DF(1)); attr.validate(DFbase0())
    fresh = []
    if _FP_DUE[0]:
        # subclasses that have never been validated before, below bases that just were
        fresh = [(attrs.define(type("DFfresh", (DF,), {"__annotations__": {"z": int}, "z": attrs.field(default=0, validator=_rec)}))(1), {"x", "z"}),
                 (attr.s(type("ASfresh", (DFbase0,), {"b": attr.ib(default=0, validator=_rec)}))(), {"b"})]
    for inst, want in [(DFd(1), {"x", "z"}), (DFsub0(), {"b"})] + fresh:
        _log.clear()
        attr.validate(inst)
        got = {e[1] for e in _log if e[0] == "v"}
        if got != (want if gr is True else set()):
            dis.append("attr.validate(%s instance) ran the validators of %r, expected %r (get_run_validators()=%r)"
                       % (type(inst).__name__, sorted(got), sorted(want if gr is True else set()), gr))
    # instances for assignment / validate (their construction is not what we observe)
    insts = [k(1) for k in (ASv, AScv, DF, DFfield)]
    assign = [fired(lambda i=i: setattr(i, "x", 2)) for i in insts]
    val = [fired(lambda i=i: attr.validate(i)) for i in [AS(1)] + insts]
    iv = {v for v, _ in init} | set(init_vo)
    av = {v for v, _ in assign} | set(assign_vo)
    vv = {v for v, _ in val} | set(val_vo)
    ic = {c for _, c in init}
    # ASv and DFfield hook only validate: converter must not run there; AScv and DF convert
    ac = {assign[1][1], assign[2][1]}
    if len(iv) != 1:
        dis.append("construction: classes disagree on whether validators ran: %r" % (init,))
    if len(av) != 1:
        dis.append("assignment: classes disagree on whether validators ran: %r" % (assign,))
    if len(vv) != 1:
        dis.append("attr.validate: classes disagree: %r" % (val,))
    if len(ic) != 1 or len(ac) != 1:
        dis.append("converters: classes disagree: init %r assign %r" % (init, assign))
    if assign[0][1] or assign[3][1]:
        dis.append("setters.validate-only hook ran a converter")
    if any(c for _, c in val):
        dis.append("attr.validate ran a converter")
    for got, want in zip(_fp_scenarios() if _FP_DUE[0] else (), _FP_REFERENCE):
        if got != want:
            dis.append("switch state (get_run_validators()=%r) changes something other than validator calls: "
                       "%s: trace/state %r, with validators enabled %r" % (gr, got[0], got[1:], want[1:]))
    return {
        "get_disabled": gd, "get_run": gr,
        "init_validates": init[0][0], "assign_validates": assign[0][0],
        "validate_validates": val[0][0],
        "init_converts": init[0][1], "assign_converts": assign[1][1],
    }, dis


def real_run(init, ops, probes=None):
    """ops: list of tuples ('sd', bool) | ('sr', value) | ('enter',) | ('exit', 'n'|'e')."""
    _config._run_validators = init
    _FP_LAST[0] = None
    open_cms = []
    pending = []          # managers created but not entered yet
    seen = []
    disagreements = []
    probe_seen = {"pipes": [], "tails": []}
    try:
        for o in ops:
            oc = "Done"
            try:
                if o[0] == "sd":
                    validators.set_disabled(o[1])
                elif o[0] == "sr":
                    attr.set_run_validators(o[1])
                elif o[0] == "enter":
                    cm = validators.disabled()
                    cm.__enter__()
                    open_cms.append(cm)
                elif o[0] == "create":
                    pending.append(validators.disabled())
                elif o[0] == "enterc":
                    # enter a manager created earlier (oldest first / newest first by o[1]); none pending: create now
                    cm = (pending.pop(0) if o[1] == "old" else pending.pop()) if pending else validators.disabled()
                    cm.__enter__()
                    open_cms.append(cm)
                elif o[0] == "calldec":
                    before = _config._run_validators
                    inside = _decorated_probe()
                    if inside is not True:
                        disagreements.append("inside a function decorated with @validators.disabled() get_disabled() was %r" % (inside,))
                elif o[0] == "exit":
                    if not open_cms:
                        oc = "NoOpenContext"
                    else:
                        cm = open_cms.pop()
                        if o[1] == "n":
                            cm.__exit__(None, None, None)
                        else:
                            e = RuntimeError("body failed")
                            try:
                                raise e
                            except RuntimeError:
                                import sys
                                swallowed = cm.__exit__(*sys.exc_info())
                            if swallowed:
                                oc = "Swallowed"
            except TypeError:
                oc = "RaisedTypeError"
            ob, dis = _probe()
            ob["outcome"] = oc
            seen.append(ob)
            disagreements.extend(dis)
        for sp in (probes or {}).get("pipes", ()):
            r, dis = run_pipe_probe(sp)
            probe_seen["pipes"].append(r)
            disagreements.extend(dis)
        for sp in (probes or {}).get("tails", ()):
            r, dis = run_tail_probe(sp)
            probe_seen["tails"].append(r)
            disagreements.extend(dis)
    finally:
        while open_cms:
            try:
                open_cms.pop().__exit__(None, None, None)
            except Exception:
                pass
        _config._run_validators = True
    return seen, disagreements, probe_seen


def enc_op(o):
    if o[0] == "create":
        return "XCreate"
    if o[0] == "calldec":
        return "XCallDecorated"
    if o[0] == "sd":
        return "(XBase (OSetDisabled %s))" % b(o[1])
    if o[0] == "sr":
        return "(XBase (OSetRun (ABool %s)))" % b(o[1]) if isinstance(o[1], bool) else "(XBase (OSetRun ANonBool))"
    if o[0] in ("enter", "enterc"):
        # the model: entering a manager is OEnter at the state of that moment, whenever it was created
        return "(XBase OEnter)"
    return "(XBase (OExit %s))" % ("ExitNormal" if o[1] == "n" else "ExitRaise")


def enc_obs(ob):
    oc = ob["outcome"] if ob["outcome"] in ("Done", "RaisedTypeError", "NoOpenContext") else None
    if oc is None:
        # an outcome the model cannot express (e.g. exception swallowed): force a mismatch
        oc = "NoOpenContext" if ob["outcome"] == "Swallowed" else "Done"
    return "(Build_obs %s %s %s %s %s %s %s %s)" % (
        oc, b(ob["get_disabled"]), b(ob["get_run"]), b(ob["init_validates"]),
        b(ob["assign_validates"]), b(ob["validate_validates"]), b(ob["init_converts"]),
        b(ob["assign_converts"]))


def mk_case(init, ops, probes=None):
    if probes is None:
        probes = gen_probes(random.Random(repr((init, ops))))
    seen, dis, ps = real_run(init, ops, probes)
    term = "(Build_case %s %s %s %s %s)" % (
        b(init), lst(enc_op(o) for o in ops), lst(enc_obs(x) for x in seen),
        lst(enc_pipe_probe(sp, r) for sp, r in zip(probes["pipes"], ps["pipes"])),
        lst(enc_tail_probe(sp, r) for sp, r in zip(probes["tails"], ps["tails"])))
    inp = {"init": init, "ops": [list(o) for o in ops], "probes": probes}
    seen = {"per_op": seen, "probes": ps}
    c = Case(term, inp, seen, sig={}, nontrivial=any(o[0] != "exit" for o in ops),
             key=repr((init, ops)))
    return c, dis


ALPHABET = [("sd", True), ("sd", False), ("sr", True), ("sr", False), ("sr", 1),
            ("enter",), ("exit", "n"), ("exit", "e")]
# only in the random stream and in the deterministic "created" family
EXTRA_OPS = [("create",), ("enterc", "old"), ("enterc", "new"), ("calldec",)]


@validators.disabled()
def _decorated_probe():
    return validators.get_disabled()


def _created_family():
    """every way to put set-operations between the creation of up to two managers and their entry/exit"""
    setters_ = [("sd", True), ("sd", False), ("sr", True), ("sr", False)]
    out = []
    for a in setters_:
        for b_ in setters_:
            for ex in (("exit", "n"), ("exit", "e")):
                out.append([a, ("create",), b_, ("enterc", "old"), ex])
                out.append([("create",), a, ("enter",), ("enterc", "old"), ex, b_, ex])
                out.append([("create",), ("create",), a, ("enterc", "new"), b_, ("enterc", "old"), ex, ex])
                out.append([a, ("calldec",), b_, ("calldec",)])
                out.append([a, ("enter",), ("calldec",), b_, ("calldec",), ex])
    return out


def _enumerate(maxlen):
    out = []

    def rec(prefix, depth):
        if prefix:
            out.append(tuple(prefix))
        if len(prefix) == maxlen:
            return
        for o in ALPHABET:
            if o[0] == "exit" and depth == 0:
                continue
            nd = depth + (1 if o[0] == "enter" else -1 if o[0] == "exit" else 0)
            prefix.append(o)
            rec(prefix, nd)
            prefix.pop()

    rec([], 0)
    # keep only maximal sequences and those of full length: every prefix is observed anyway
    s = set(out)
    return [p for p in out if len(p) == maxlen or not any(p + (o,) in s for o in ALPHABET)]


_internal = []


def generate(tier, seed):
    rng = random.Random(seed)
    maxlen = 4 if tier == "quick" else 5
    cases = []
    _internal.clear()
    for init in (True, False):
        for ops in _enumerate(maxlen):
            c, dis = mk_case(init, list(ops))
            cases.append(c)
            _internal.extend((c.inp, d) for d in dis)
    for init in (True, False):
        for ops in _created_family():
            c, dis = mk_case(init, list(ops))
            cases.append(c)
            _internal.extend((c.inp, d) for d in dis)
    n_random = 300 if tier == "quick" else 12000
    for _ in range(n_random):
        n = rng.randint(maxlen + 1, 14)
        ops, depth = [], 0
        for _ in range(n):
            cand = [o for o in ALPHABET + EXTRA_OPS if not (o[0] == "exit" and depth == 0)]
            o = rng.choice(cand + [("enter",)] * 2 + ([("exit", "n"), ("exit", "e")] if depth else []))
            if o == ("sr", 1):
                o = ("sr", rng.choice(NONBOOL_POOL))
            depth += 1 if o[0] in ("enter", "enterc") else -1 if o[0] == "exit" else 0
            ops.append(o)
        c, dis = mk_case(rng.random() < 0.5, ops)
        cases.append(c)
        _internal.extend((c.inp, d) for d in dis)
    return cases


def extra(tier, seed):
    from .vlib import Discrepancy
    out = [Discrepancy({"kind": "read-sites-disagree"}, d, {"input": inp, "detail": d}) for inp, d in _internal[:20]]
    return out, {"runtime_observations": 0}


def rerun(inp):
    ops = [tuple(o) for o in inp["ops"]]
    return mk_case(inp["init"], ops, inp.get("probes"))[0]


def corpus():
    import importlib.util, os
    spec = importlib.util.spec_from_file_location("verif_defects", os.path.join(vlib.VERIF, "corpus", "defects.py"))
    m = importlib.util.module_from_spec(spec)
    spec.loader.exec_module(m)
    return [(k, f) for k, f in m.ALL.items() if "_C20_" in k]


def EXHAUSTIVE(tier):
    return True


def distribution(cases):
    from collections import Counter
    lens = Counter(len(c.inp["ops"]) for c in cases)
    ops = Counter(o[0] + (":" + ("bool" if isinstance(o[1], bool) else "nonbool") if o[0] == "sr" else "")
                  for c in cases for o in c.inp["ops"])
    pp = Counter()
    for c in cases:
        for sp, (tr, res) in zip(c.inp["probes"]["pipes"], c.seen["probes"]["pipes"]):
            pp["pipe probes"] += 1
            pp["pipe: assignment rejected by validator"] += res is None
            pp["pipe: validator ran"] += any(e.startswith("(EvVal") for e in tr)
            pp["pipe: hook after a validate position ran"] += _hook_after_validate(sp["tree"])
            pp["pipe: nested pipe"] += "['P'" in repr(sp["tree"])[1:]
            pp["pipe: list form"] += sp["list"]
        for sp, (tr, ok) in zip(c.inp["probes"]["tails"], c.seen["probes"]["tails"]):
            pp["tail probes"] += 1
            pp["tail: construction rejected"] += not ok
            for k in ("post", "cache", "exc", "slots"):
                pp["tail: " + k] += sp[k]
            pp["tail: validators ran"] += any(e.startswith("(IVal") for e in tr)
    return {"sequence_lengths": dict(sorted(lens.items())), "operations": dict(ops),
            "initial_enabled": sum(1 for c in cases if c.inp["init"]), "probes": dict(pp)}


def _flat(t):
    if isinstance(t, list) and t[0] == "P":
        return [x for c in t[1:] for x in _flat(c)]
    return [t]


def _hook_after_validate(tree):
    f = _flat(tree)
    return "V" in f and any(x != "V" for x in f[f.index("V") + 1:])
