"""C02 - init protocol: order, exactly-once, hook arguments, failure propagation."""
from . import c01 as _c01
from .c01 import HEADER, CASE_TYPE, CHECK, MODEL, rerun, distribution, extra, EXTRA_TRUSTED, ASSUMPTIONS  # noqa: F401
from . import vlib

PROP = "C02"
RULE = ("the class specifications and call shapes of C01 (see evidence/C01.json); for every fault-free "
        "construction with callbacks the complete callback trace (pre-init arguments, factory, converter "
        "arguments incl. instance/field, validator arguments + snapshot of all fields at call time, "
        "post-init) is compared, then one run with validators globally disabled and, for EVERY position k "
        "of the trace, one run in which the k-th callback raises a marked exception (identity and trace "
        "prefix compared); BaseException.args for auto_exc classes. non-trivial = class with >=1 field")


def generate(tier, seed):
    return _c01.generate(tier, seed, mode="c02")


def corpus():
    import importlib.util, os
    spec = importlib.util.spec_from_file_location("verif_defects", os.path.join(vlib.VERIF, "corpus", "defects.py"))
    m = importlib.util.module_from_spec(spec)
    spec.loader.exec_module(m)
    return [(k, f) for k, f in m.ALL.items() if "_C02_" in k]
