"""C02 - init protocol: order, exactly-once, hook arguments, failure propagation."""
from . import c01 as _c01
from .c01 import HEADER, CASE_TYPE, CHECK, MODEL, rerun, distribution, EXTRA_TRUSTED, ASSUMPTIONS  # noqa: F401
from . import c02_compose as _compose
from . import vlib

PROP = "C02"
RULE = ("the class specifications and call shapes of C01 (see evidence/C01.json); for every fault-free "
        "construction with callbacks the complete callback trace (pre-init arguments, factory, converter "
        "arguments incl. instance/field, validator arguments + snapshot of all fields at call time, "
        "post-init) is compared, then one run with validators globally disabled and, for EVERY position k "
        "of the trace, one run in which the k-th callback raises a marked exception (identity and trace "
        "prefix compared); BaseException.args for auto_exc classes. non-trivial = class with >=1 field. "
        "Composite family (C02/Compose.v): classes whose fields carry converter lists / pipe() mixing plain "
        "callables and Converter(takes_self, takes_field) members, validator lists, nested and shared and_() "
        "composites with duplicate members, and @x.validator on top of a composite; every member's call "
        "(arguments, instance/field forwarding, order, multiplicity) is traced fault-free with validators on "
        "and off and once per trace position with that member raising")

EXTRA_TARGETS = ("theories/C02/ComposeProofs.vo",)


def generate(tier, seed):
    return _c01.generate(tier, seed, mode="c02")


def corpus():
    import importlib.util, os
    spec = importlib.util.spec_from_file_location("verif_defects", os.path.join(vlib.VERIF, "corpus", "defects.py"))
    m = importlib.util.module_from_spec(spec)
    spec.loader.exec_module(m)
    return [(k, f) for k, f in m.ALL.items() if "_C02_" in k]


def extra(tier, seed):
    disc, cov = _c01.extra(tier, seed)
    d2, c2 = _compose.run(tier, seed, PROP)
    cov = dict(cov)
    cov.update(c2)
    return list(disc) + d2, cov


def replay_override(inp):
    if "compose_spec" not in inp:
        return None
    term, seen, prob = _compose.rerun(inp)
    if prob is not None:
        return True, seen, "(the run itself is outside the model: %s)" % prob
    bad = vlib.run_cases(PROP, _compose.HEADER, _compose.CASE_TYPE, _compose.CHECK, [term], tag="replay")
    says = vlib.eval_in_coq(PROP, _compose.HEADER, "%s (%s)" % (_compose.MODEL, term))
    return bool(bad), seen, says
