"""C07 - field collection (once per name, MRO-fresh, definition order) and introspection.

Real-side driver, case generator, encoders.  A case is a sequence of class
statements (plain classes, attr.s legacy / collect_by_mro, define, make_class,
these=) executed one after the other in a fresh module; after every statement
the harness records what the real library shows for that class.
"""
from __future__ import annotations

import ast
import inspect
import itertools
import json
import os
import random
import sys
import types
import typing

import attr
import attrs
from attr.exceptions import FrozenInstanceError, UnannotatedAttributeError

from . import vlib
from .driver import Case
from .vlib import b, lst, opt, q

PROP = "C07"
CASE_TYPE = "case"
CHECK = "(check_case cvp)"
MODEL = "(model_of cvp)"
_HEADER0 = ("From Attrs Require Import Base Core.Attr C07.Model C07.Corr.\n"
            "From Coq Require Import List String ZArith.\nImport ListNotations.\n"
            "Open Scope string_scope.\n")
HEADER = _HEADER0 + "Definition cvp : list string := [].\n"   # replaced by pre_build()
RULE = ("class hierarchies of 1..4 class statements (plus up to 3 extra front-end variants of one of "
        "them), depth <= 3, single and multiple inheritance incl. diamonds and plain classes in "
        "between, field names from {a,b,c,_d,__e,_a,count,index}; every decorated class in {attr.s legacy, "
        "attr.s(collect_by_mro=True), define (auto_attribs inferred/True/False, slots on/off), "
        "make_class (list/dict), these=} x {attr.ib in body (incl. pre-created objects whose creation "
        "order differs from the textual order), annotations (plain / field / ClassVar in 12 spellings, "
        "quoted, decoys; with and without `from __future__ import annotations`), these, make_class}, "
        "class-level kw_only, per field default in {none, value, Factory, Factory(takes_self)}, init, "
        "kw_only, alias (incl. empty and colliding), type=/annotation (incl. both), 12 kinds of "
        "field_transformer (reorder, drop, add, rename, duplicate, kw_only, clear alias, stamp metadata "
        "through one reused dict that is written again afterwards - metadata content is checked by the "
        "harness, it is not modelled), decorator objects re-used for several classes; an "
        "exhaustive sweep of all hierarchy shapes with <= 3 (quick) / <= 4 (thorough) classes x "
        "{plain, decorated without a, decorated defining a} per class x {legacy, by_mro}; observed per "
        "class statement: exception class or (fields tuple as (name, inherited, kw_only, init, default "
        "kind, alias, type, validator identity), __match_args__, list(fields_dict), has, signature of "
        "__init__, name access), for plain classes has()/fields() names, and fields(A)==fields(B) for "
        "pairs of equivalent declarations; distinct = distinct class-statement sequences; non-trivial "
        "= at least one decorated class with a base")
EXTRA_TRUSTED = ["CPython's C3 linearisation (cls.__mro__ is an input of the model), class-body "
                 "namespace semantics, name mangling and `from __future__ import annotations` "
                 "stringification (computed by the harness with a probe class, independently of attrs)",
                 "harness/translate_c07.py: the translator from the Python text of _collect_base_attrs, "
                 "_collect_base_attrs_broken, the order-check loop of _transform_attrs, add_match_args and the "
                 "fields_dict comprehension to Gallina (Gen/C07_u_*.v; lemmas in C07/Tie_*.v, per unit)"]
ASSUMPTIONS = ["field_transformer hooks are functions of the attribute list they receive",
               "every _CountingAttr object is bound to at most one name of one class body "
               "(counters of the entries of one body are pairwise distinct)",
               "__attrs_attrs__ is only written by the attrs decorators"]

# `count` / `index`: the only public attributes of tuple - name access on fields(C) must still
# give the Attribute (the by-name property shadows the tuple method)
NAME_POOL = ["a", "b", "c", "_d", "__e", "_a", "count", "index"]
NAME_W = [6, 6, 5, 3, 2, 1, 2, 2]
DOCUMENTED = ["typing.ClassVar", "t.ClassVar", "ClassVar", "typing_extensions.ClassVar"]

# annotation source texts: (text, is a type we also use for type=)
ANN_PLAIN = ["int", "str", '"int"', "t.List[int]", "typing.Optional[int]"]
ANN_CLASSVAR = ["ClassVar[int]", "typing.ClassVar[int]", "t.ClassVar[int]", "typing_extensions.ClassVar[int]",
                '"ClassVar[int]"', '"typing_extensions.ClassVar[int]"', "\"'ClassVar[int]'\"",
                "'\"typing.ClassVar\"'", '"t.ClassVar"', "'\"ClassVar[int]\"'", "'\"t.ClassVar[int]\"'",
                "\"'ClassVar[int]\\\"\""]
ANN_DECOY = ['"ClassVarX"', "\"'int\"", '"Optional[ClassVar[int]]"', "\"'\"", '"int\'"', '" ClassVar"']


# --------------------------------------------------------------------------------------
# source prefixes (fail closed)


def read_prefixes():
    path = os.path.join(vlib.REPO, "src", "attr", "_make.py")
    tree = ast.parse(open(path).read())
    found = None
    for node in tree.body:
        if isinstance(node, ast.Assign) and len(node.targets) == 1 and \
                isinstance(node.targets[0], ast.Name) and node.targets[0].id == "_CLASSVAR_PREFIXES":
            if found is not None:
                raise vlib.Infra("_CLASSVAR_PREFIXES assigned twice in %s" % path)
            v = node.value
            if not isinstance(v, (ast.Tuple, ast.List)) or not all(
                    isinstance(e, ast.Constant) and isinstance(e.value, str) for e in v.elts):
                raise vlib.Infra("_CLASSVAR_PREFIXES is not a literal tuple of strings in %s" % path)
            found = [e.value for e in v.elts]
    if found is None:
        raise vlib.Infra("_CLASSVAR_PREFIXES not found in %s" % path)
    import attr._make as mk
    if list(mk._CLASSVAR_PREFIXES) != found:
        raise vlib.Infra("imported attr._make._CLASSVAR_PREFIXES differs from the source text read")
    return found


def pre_build():
    global HEADER
    pre = read_prefixes()
    HEADER = _HEADER0 + "Definition cvp : list string := %s.\n" % lst(q(p) for p in pre)
    # Gen/C07_Collect.v is regenerated from the current source on every run (tie by translation)
    from . import translate_c07
    translate_c07.regenerate()


_tie_unavailable = {}


def translated_tie():
    """Per-unit tie: Gen/C07_TieAll.v requires the lemma files of exactly the units whose source is
    inside the translator's subset, so the driver is handed those (all "translated"); the units that
    left the subset are listed in the evidence under coverage.translated_tie_units_unavailable (and
    make the whole tie `unavailable` only when no unit could be translated)."""
    from . import translate_c07
    status = translate_c07.regenerate()
    ok = {k: v for k, v in status.items() if v == "translated"}
    _tie_unavailable.clear()
    _tie_unavailable.update({k: v for k, v in status.items() if v != "translated"})
    for k, v in _tie_unavailable.items():
        print("translated_tie: unit %s unavailable (not a verdict): %s" % (k, v[:200]))
    if not ok:
        return status, "theories/Gen/C07_TieAll.vo"
    return ok, "theories/Gen/C07_TieAll.vo"


def extra(tier, seed):
    return [], {"runtime_observations": 0, "translated_tie_units_unavailable": dict(_tie_unavailable)}


# --------------------------------------------------------------------------------------
# the environment in which class statements run


def _mk_validator(tag):
    def v(inst, a, value):
        return None
    v.__name__ = tag
    return v


def _mk_factory(tag):
    def f(*a):
        return 0
    f.__name__ = tag
    return f


V = {("v%d" % i): _mk_validator("v%d" % i) for i in range(120)}
F = {"f1": _mk_factory("f1"), "f2": _mk_factory("f2")}
_V_BY_ID = {id(v): k for k, v in V.items()}
_F_BY_ID = {id(v): k for k, v in F.items()}
_mod_counter = itertools.count()


def mk_attribute(name, fs):
    """A hand-made Attribute as a field_transformer would add it."""
    kw = dict(name=name, default=_py_default(fs), validator=V[fs["v"]] if fs["v"] else None, repr=True,
              cmp=None, hash=None, init=fs["init"], inherited=False, kw_only=fs["kw"], alias=fs["al"])
    if fs["ty"]:
        kw["type"] = fs["ty_obj"]
    return attr.Attribute(**kw)


def _py_default(fs):
    d = fs["d"]
    if d == "n":
        return attr.NOTHING
    if d == "v":
        return 0
    return attr.Factory(F[d[1]], takes_self=(d[0] == "fs"))


def make_transformer(spec, future, scratch=None):
    k = spec[0]
    if k in ("meta", "metarev"):
        # stamps every field through ONE reused work dict (mutated again after the class exists):
        # Attribute.evolve must copy it.  Metadata is not part of the Gallina model: the model sees
        # identity / reverse, the harness checks the metadata content itself (runtime-only).
        def stamp(cls, fs):
            out = []
            for pos, a in enumerate(reversed(fs) if k == "metarev" else fs):
                scratch.clear()
                scratch["n"] = a.name
                scratch["i"] = pos
                out.append(a.evolve(metadata=scratch))
            return out
        return stamp
    if k == "id":
        return lambda cls, fs: fs
    if k == "rev":
        return lambda cls, fs: list(reversed(fs))
    if k == "rot":
        return lambda cls, fs: fs[1:] + fs[:1]
    if k == "dropfirst":
        return lambda cls, fs: fs[1:]
    if k == "droplast":
        return lambda cls, fs: fs[:-1]
    if k == "add":
        fs_ = dict(spec[2])
        fs_["ty_obj"] = _type_obj(fs_["ty"], future)
        return lambda cls, fs: list(fs) + [mk_attribute(spec[1], fs_)]
    if k == "kwonly":
        return lambda cls, fs: [a.evolve(kw_only=True) for a in fs]
    if k == "rename":
        return lambda cls, fs: (a.evolve(name=a.name + spec[1]) for a in fs)
    if k == "dupnoinit":
        return lambda cls, fs: (list(fs) + [fs[0].evolve(init=False)]) if fs else []
    if k == "clearalias":
        return lambda cls, fs: tuple(a.evolve(alias=None) for a in fs)
    raise ValueError(k)


def _type_obj(ty, future):
    if ty is None:
        return None
    return ty if future else {"int": int, "str": str}[ty]


def _type_tag(ty, future):
    if ty is None:
        return None
    return ty if future else str({"int": int, "str": str}[ty])


_ann_cache = {}


def ann_string(text, future):
    """str(annotation object) for the annotation source [text], computed without attrs."""
    key = (text, future)
    if key not in _ann_cache:
        ns = {"typing": typing, "t": typing, "ClassVar": typing.ClassVar,
              "typing_extensions": __import__("typing_extensions")}
        src = ("from __future__ import annotations\n" if future else "") + "class _P:\n    x: %s\n" % text
        exec(compile(src, "<c07-ann-probe>", "exec", dont_inherit=True), ns)
        _ann_cache[key] = str(ns["_P"].__dict__["__annotations__"]["x"])
    return _ann_cache[key]


class Env:
    def __init__(self, future):
        self.future = future
        self.name = "verif_c07_m%d" % next(_mod_counter)
        self.mod = types.ModuleType(self.name)
        self.ns = self.mod.__dict__
        self.ns.update({"attr": attr, "attrs": attrs, "typing": typing, "t": typing,
                        "ClassVar": typing.ClassVar, "typing_extensions": __import__("typing_extensions"),
                        "V": V, "F": F})
        sys.modules[self.name] = self.mod
        self.classes = {}      # id -> class object (bound names only)
        self.meta_seen = {}    # id -> [(field name, metadata)] at the first observation
        self.scratch = {}      # id -> the work dict of that class statement's transformer

    def close(self):
        sys.modules.pop(self.name, None)
        import linecache
        for k in [k for k in linecache.cache if self.name in k]:
            linecache.cache.pop(k, None)

    def mro_ids(self, bases):
        """cls.__mro__[1:-1] of a class with these bases, or None."""
        try:
            objs = tuple(self.classes[i] for i in bases)
        except KeyError:
            return None
        try:
            probe = type("_Probe", objs, {})
        except TypeError:
            return None
        rev = {id(c): i for i, c in self.classes.items()}
        out = []
        for c in probe.__mro__[1:-1]:
            if id(c) not in rev:
                return None
            out.append(rev[id(c)])
        return out


# --------------------------------------------------------------------------------------
# rendering a class statement


def render_field(fs, ctor, future, with_type):
    """Source of attr.ib(...) / attrs.field(...) for a field spec."""
    args = []
    d = fs["d"]
    if d == "v":
        args.append("default=0")
    elif d != "n":
        if d[0] == "f" and fs.get("fsugar"):
            args.append("factory=F[%r]" % d[1])
        else:
            args.append("default=attr.Factory(F[%r]%s)" % (d[1], ", takes_self=True" if d[0] == "fs" else ""))
    if fs["v"]:
        args.append("validator=V[%r]" % fs["v"])
    if not fs["init"]:
        args.append("init=False")
    if fs["kw"]:
        args.append("kw_only=True")
    if fs["al"] is not None:
        args.append("alias=%r" % fs["al"])
    if with_type and fs["ty"]:
        args.append("type=%s" % (repr(fs["ty"]) if future else fs["ty"]))
    return "%s(%s)" % (ctor, ", ".join(args))


def mangle(cls_name, n):
    if n.startswith("__") and not n.endswith("__"):
        return "_" + cls_name.lstrip("_") + n
    return n


def render_class(spec, future):
    """Returns the source chunk of one class statement."""
    i = spec["id"]
    cname = "K%d" % i
    lines = []
    for j, fs in enumerate(spec.get("pre", [])):
        lines.append("_p%d_%d = %s" % (i, j, render_field(fs, "attr.ib", future, True)))
    bases = ", ".join("K%d" % x for x in spec["bases"])
    kind = spec["kind"]
    these_src = None
    if kind != "plain" and spec["these"] is not None:
        perm = spec.get("these_perm")
        if perm:
            # the _CountingAttr objects are created in the order [perm], the dict lists them in
            # specification order: insertion order, not the creation counter, must decide
            for j in perm:
                lines.append("_t%d_%d = %s" % (i, j, render_field(spec["these"][j][1], "attr.ib", future, True)))
            these_src = "{%s}" % ", ".join("%r: _t%d_%d" % (n, i, j) for j, (n, _) in enumerate(spec["these"]))
        else:
            these_src = "{%s}" % ", ".join("%r: %s" % (n, render_field(fs, "attr.ib", future, True))
                                           for n, fs in spec["these"])
    if kind == "make_class":
        if spec["mc_list"]:
            arg = "[%s]" % ", ".join(repr(n) for n, _ in spec["these"])
        else:
            arg = these_src
        kws = ["bases=(%s,)" % bases] if spec["bases"] else []
        kws += _deco_kwargs(spec, i)
        lines.append("K%d = attr.make_class(%r, %s%s)" % (i, cname, arg, "".join(", " + k for k in kws)))
        return "\n".join(lines) + "\n"
    if kind != "plain":
        kws = _deco_kwargs(spec, i)
        if spec["these"] is not None:
            kws.insert(0, "these=%s" % these_src)
        if kind == "define":
            if spec["auto"] != "infer":
                kws.append("auto_attribs=%s" % (spec["auto"] == "true"))
            if not spec["slots"]:
                kws.append("slots=False")
            expr = "attrs.define(%s)" % ", ".join(kws)
        else:
            if spec["auto"] == "true":
                kws.append("auto_attribs=True")
            if spec["slots"]:
                kws.append("slots=True")
            expr = "attr.s(%s)" % ", ".join(kws)
        if spec.get("deco_ref") is not None:
            # ONE decorator object applied to several classes: every class is decided on its own
            lines = [ln for ln in lines if not ln.startswith("_t%d_" % i)]
            lines.append("@_D%d" % spec["deco_ref"])
        elif spec.get("deco_name"):
            lines.append("_D%d = %s" % (i, expr))
            lines.append("@_D%d" % i)
        else:
            lines.append("@" + expr)
    lines.append("class %s(%s):" % (cname, bases) if bases else "class %s:" % cname)
    body = []
    ctor = "attrs.field" if kind == "define" else "attr.ib"
    for st in spec["body"]:
        n, ann, val = st["n"], st["ann"], st["val"]
        if val is None:
            rhs = None
        elif val[0] == "field":
            rhs = render_field(val[1], ctor, future, ctor == "attr.ib")
        elif val[0] == "pre":
            rhs = "_p%d_%d" % (i, val[1])
        elif val[0] == "plain":
            rhs = {"v": "0", "n": "attr.NOTHING"}.get(val[1]) if isinstance(val[1], str) else \
                "attr.Factory(F[%r]%s)" % (val[1][1], ", takes_self=True" if val[1][0] == "fs" else "")
        else:
            raise ValueError(val)
        if ann is not None and rhs is not None:
            body.append("    %s: %s = %s" % (n, ann, rhs))
        elif ann is not None:
            body.append("    %s: %s" % (n, ann))
        elif rhs is not None:
            body.append("    %s = %s" % (n, rhs))
    lines.extend(body or ["    pass"])
    return "\n".join(lines) + "\n"


def _deco_kwargs(spec, i):
    kws = []
    if spec["kind"] != "define" and spec["by_mro"]:
        kws.append("collect_by_mro=True")
    if spec["kw_only"]:
        kws.append("kw_only=True")
    if spec["ft"] is not None:
        kws.append("field_transformer=FT%d" % i)
    return kws


# --------------------------------------------------------------------------------------
# model-side encoding of a class statement


def enc_dk(d):
    if d == "n":
        return "DNothing"
    if d == "v":
        return "DValue"
    return "(DFactory %s %s)" % (q(d[1]), b(d[0] == "fs"))


def enc_ib(fs, future, with_type=True):
    ty = _type_tag(fs["ty"], future) if with_type else None
    return "(ib %s %s %s %s %s %s)" % (opt(fs["v"], q), enc_dk(fs["d"]), b(fs["init"]), opt(ty, q),
                                       b(fs["kw"]), opt(fs["al"], q))


def enc_ft(spec, future):
    k = spec[0]
    simple = {"meta": "TId", "metarev": "TRev", "id": "TId", "rev": "TRev", "rot": "TRot", "dropfirst": "TDropFirst", "droplast": "TDropLast",
              "kwonly": "TKwOnly", "dupnoinit": "TDupNoInit", "clearalias": "TClearAlias"}
    if k in simple:
        return "(ft_of %s)" % simple[k]
    if k == "add":
        return "(ft_of (TAdd %s %s))" % (q(spec[1]), enc_ib(spec[2], future))
    if k == "rename":
        return "(ft_of (TRename %s))" % q(spec[1])
    raise ValueError(k)


def enc_class(spec, mro, future):
    i = spec["id"]
    cname = "K%d" % i
    kind = spec["kind"]
    counter = itertools.count()
    pre_c = [next(counter) for _ in spec.get("pre", [])]
    these = None
    if kind != "plain" and spec["these"] is not None:
        if kind == "make_class" and spec["mc_list"]:
            these = [(n, "(CA %d (ib None DNothing true None false None))" % next(counter))
                     for n, _ in spec["these"]]
        else:
            perm = spec.get("these_perm") or list(range(len(spec["these"])))
            base = next(counter)
            for _ in perm:
                next(counter)
            cnt = {j: base + pos for pos, j in enumerate(perm)}
            these = [(n, "(CA %d %s)" % (cnt[j], enc_ib(fs, future))) for j, (n, fs) in enumerate(spec["these"])]
    stmts = []
    is_define = kind == "define"
    for st in spec["body"]:
        n = mangle(cname, st["n"])
        ann = None if st["ann"] is None else ann_string(st["ann"], future)
        val = st["val"]
        if val is None:
            v = "BVNone"
        elif val[0] == "field":
            v = "(BVField (CA %d %s))" % (next(counter), enc_ib(val[1], future, with_type=not is_define))
        elif val[0] == "pre":
            v = "(BVField (CA %d %s))" % (pre_c[val[1]], enc_ib(spec["pre"][val[1]], future))
        else:
            v = "(BVPlain %s)" % enc_dk(val[1] if isinstance(val[1], str) else tuple(val[1]))
        stmts.append("St %s %s %s" % (q(n), opt(ann, q), v))
    if kind == "plain":
        deco = "None"
    else:
        auto = {"true": "AutoTrue", "false": "AutoFalse", "infer": "AutoInfer"}[spec["auto"]]
        th = "None" if these is None else "(Some %s)" % lst("(%s, %s)" % (q(n), c) for n, c in these)
        ft = "None" if spec["ft"] is None else "(Some %s)" % enc_ft(spec["ft"], future)
        deco = "(Some (De %s %s %s %s %s))" % (b(spec["by_mro"] or kind == "define"), b(spec["kw_only"]),
                                               th, auto, ft)
    return "Cl %d %s %s %s" % (i, lst(str(x) for x in mro), lst(stmts), deco)


# --------------------------------------------------------------------------------------
# running one class statement against the real library and observing


def _obs_attr(a):
    d = a.default
    if d is attr.NOTHING:
        dk = "n"
    elif isinstance(d, attr.Factory):
        dk = ["fs" if d.takes_self else "f", _F_BY_ID.get(id(d.factory), "?")]
    else:
        dk = "v"
    vt = None if a.validator is None else _V_BY_ID.get(id(a.validator), "?")
    return {"name": a.name, "inh": bool(a.inherited), "kw": bool(a.kw_only), "init": bool(a.init), "d": dk,
            "al": a.alias, "ty": None if a.type is None else str(a.type), "v": vt,
            "md": {str(k): (v if isinstance(v, (int, str)) else repr(v)) for k, v in dict(a.metadata).items()}}


def observe_class(cls, decorated):
    if not decorated:
        h = bool(attr.has(cls))
        names = [a.name for a in attr.fields(cls)] if h else None
        return {"plain": True, "has": h, "names": names}
    f = attr.fields(cls)
    fl = list(f)
    byname = []
    for a in fl:
        got = getattr(f, a.name, None)
        js = [j for j in range(len(fl)) if fl[j] is got]
        byname.append(js[-1] if js else None)
    # index access: tuple protocol
    if not all(f[i] is fl[i] for i in range(len(fl))):
        raise RuntimeError("index access differs from iteration")
    pos, kwo = [], []
    sig = inspect.signature(cls.__init__)
    for k, p in enumerate(sig.parameters.values()):
        if k == 0:
            continue
        if p.kind is inspect.Parameter.POSITIONAL_OR_KEYWORD:
            pos.append(p.name)
        elif p.kind is inspect.Parameter.KEYWORD_ONLY:
            kwo.append(p.name)
        else:
            pos.append("?" + p.name)
    return {"fields": [_obs_attr(a) for a in fl], "match_args": list(cls.__dict__.get("__match_args__", ["?"])),
            "fd_keys": list(attr.fields_dict(cls)), "has": bool(attr.has(cls)), "pos": pos, "kwo": kwo,
            "byname": byname,
            "fd_last": all(attr.fields_dict(cls)[a.name] is fl[max(j for j in range(len(fl)) if fl[j].name == a.name)]
                           for a in fl)}


def metadata_problem(env, spec, cls, ob):
    """Runtime-only (metadata is not modelled): content of every field's metadata."""
    ft = spec.get("ft")
    fields = ob["fields"]
    if ft is not None and ft[0] in ("meta", "metarev"):
        for pos, f in enumerate(fields):
            if f["md"] != {"n": f["name"], "i": pos}:
                return "field %d holds %r, the transformer returned n=%s i=%d" % (pos, f["md"], f["name"], pos)
        return None
    if ft is not None:
        return None
    rev = {id(c): j for j, c in env.classes.items()}
    for f in fields:
        if not f["inh"]:
            if f["md"] != {}:
                return "own field %s has metadata %r" % (f["name"], f["md"])
        else:
            cands = [m for c in cls.__mro__[1:-1] for n, m in env.meta_seen.get(rev.get(id(c)), ()) if n == f["name"]]
            if f["md"] not in cands:
                return "inherited field %s has metadata %r, no base class shows that" % (f["name"], f["md"])
    return None


def safe_observe(cls, decorated):
    """An introspection call that raises is itself an observation (no model output matches it)."""
    try:
        return observe_class(cls, decorated)
    except Exception as e:  # noqa: BLE001
        return {"err": "EOther", "exc": "introspection raised " + type(e).__name__}


def exec_class(env, spec):
    """Runs one class statement.  Returns (mro ids or None, observation)."""
    i = spec["id"]
    mro = env.mro_ids(spec["bases"])
    ref = spec.get("deco_ref")
    scratch = env.scratch.setdefault(i if ref is None else ref, {})
    if spec.get("ft") is not None and ref is None:
        env.ns["FT%d" % i] = make_transformer(spec["ft"], env.future, scratch)
    src = ("from __future__ import annotations\n" if env.future else "") + render_class(spec, env.future)
    env.ns.pop("K%d" % i, None)
    try:
        exec(compile(src, "<%s K%d>" % (env.name, i), "exec", dont_inherit=True), env.ns)
        cls = env.ns["K%d" % i]
    except BaseException as e:  # noqa: BLE001 - the class of the exception is the observation
        if isinstance(e, (KeyboardInterrupt, SystemExit)):
            raise
        t = type(e)
        name = ("EUnannotated" if t is UnannotatedAttributeError else "EValue" if t is ValueError
                else "ESyntax" if t is SyntaxError else "EOther")
        return mro, {"err": name, "exc": t.__name__}
    finally:
        # the caller keeps using its work dict after the class statement
        scratch["n"] = "?written after the class was created"
        scratch["late"] = 1
    env.classes[i] = cls
    ob = safe_observe(cls, spec["kind"] != "plain")
    if "fields" in ob:
        bad = metadata_problem(env, spec, cls, ob)
        env.meta_seen[i] = [(f["name"], f["md"]) for f in ob["fields"]]
        if bad:
            ob["metadata_problem"] = bad
            ob["match_args"] = ["?metadata: " + bad] + ob["match_args"]
    rev = {id(c): j for j, c in env.classes.items()}
    if mro is not None and [rev.get(id(c)) for c in cls.__mro__[1:-1]] != mro:
        raise vlib.Infra("C07 harness: probe MRO differs from the MRO of the created class K%d" % i)
    return mro, ob


def enc_oattr(o):
    d = o["d"] if isinstance(o["d"], str) else tuple(o["d"])
    return "O %s %s %s %s %s %s %s %s" % (q(o["name"]), b(o["inh"]), b(o["kw"]), b(o["init"]), enc_dk(d),
                                          opt(o["al"], q), opt(o["ty"], q), opt(o["v"], q))


def enc_obs(ob):
    if "err" in ob:
        return "CErr %s" % ob["err"]
    if ob.get("plain"):
        return "CPlain %s %s" % (b(ob["has"]), opt(ob["names"], lambda ns: lst(q(n) for n in ns)))
    fd_keys = ob["fd_keys"] if ob["fd_last"] else ["?fields_dict value is not the last field of that name"]
    return "COk (Ob %s %s %s %s %s %s %s)" % (
        lst(enc_oattr(o) for o in ob["fields"]), lst(q(n) for n in ob["match_args"]),
        lst(q(n) for n in fd_keys), b(ob["has"]), lst(q(n) for n in ob["pos"]),
        lst(q(n) for n in ob["kwo"]), lst(opt(j, str) for j in ob["byname"]))


def _printable(s):
    return isinstance(s, str) and all(32 <= ord(ch) < 127 for ch in s)


def run_specs(specs, pairs, future):
    """Executes the class statements; returns (term, seen, env facts)."""
    env = Env(future)
    try:
        cls_terms, obs_terms, seen = [], [], []
        for spec in specs:
            mro, ob = exec_class(env, spec)
            if mro is None:
                # a base is not bound (only on replays against a changed library): unexpressible
                ob = {"err": "EOther", "exc": "base class missing"}
                mro = []
            cls_terms.append(enc_class(spec, mro, future))
            obs_terms.append(enc_obs(ob))
            seen.append(ob)
        # earlier classes must not change when later ones are created (Attribute objects are
        # copied, never updated in place): observe every class again at the end
        for k, spec in enumerate(specs):
            cls = env.classes.get(spec["id"])
            if cls is None or "err" in seen[k]:
                continue
            again = safe_observe(cls, spec["kind"] != "plain")
            if "metadata_problem" in seen[k]:
                continue
            if again != seen[k]:
                again["changed_later"] = True
                if "err" in again:
                    pass
                elif "match_args" in again:
                    again["match_args"] = ["?changed after later class statements"] + again["match_args"]
                else:
                    again["names"] = ["?changed after later class statements"] + (again["names"] or [])
                seen[k] = again
                obs_terms[k] = enc_obs(again)
        eqs = []
        for (x, y) in pairs:
            if x in env.classes and y in env.classes:
                try:
                    eqs.append(bool(attr.fields(env.classes[x]) == attr.fields(env.classes[y])))
                except Exception:  # noqa: BLE001 - comparison itself failed: reported as "unequal"
                    eqs.append(None)
            else:
                eqs.append(None)
        pairs_t = lst("(%d, %d)" % (x, y) for x, y in pairs)
        # a pair with an unbound class: the model says false; force a mismatch only through the class obs
        eq_t = lst(b(bool(e)) for e in eqs)
        term = "(Ca %s %s %s %s)" % (lst(cls_terms), pairs_t, lst(obs_terms), eq_t)
        return term, {"classes": seen, "eq": eqs}, env
    finally:
        env.close()


def mk_case(inp):
    specs, pairs, future = inp["classes"], [tuple(p) for p in inp["pairs"]], inp["future"]
    term, seen, _ = run_specs(specs, pairs, future)
    nontrivial = any(s["kind"] != "plain" and s["bases"] for s in specs)
    return Case(term, inp, seen, sig=case_sig(inp), nontrivial=nontrivial,
                key=json.dumps(inp, sort_keys=True))


def case_sig(inp):
    specs = inp["classes"]
    return {"legacy": any(s["kind"] in ("attrs", "make_class") and not s["by_mro"] for s in specs),
            "transformer": any(s["kind"] != "plain" and s["ft"] is not None for s in specs)}


# --------------------------------------------------------------------------------------
# generators


def gen_field(rng, policy, vtags):
    d = {"alldefault": "v", "nodefault": "n"}.get(policy)
    if d is None:
        d = rng.choices(["n", "v", "f", "fs"], [4, 4, 1, 1])[0]
    elif d == "v" and rng.random() < 0.25:
        d = rng.choice(["f", "fs"])
    if d in ("f", "fs"):
        d = [d, rng.choice(["f1", "f2"])]
    al = None
    r = rng.random()
    if r < 0.08:
        al = rng.choice(["x1", "x2", "a", "b"])
    elif r < 0.11:
        al = ""
    return {"d": d, "init": rng.random() > 0.12, "kw": rng.random() < 0.12, "al": al,
            "ty": rng.choice([None, None, "int", "str"]), "v": next(vtags) if rng.random() < 0.85 else None,
            "fsugar": rng.random() < 0.5}


def pick_names(rng, kmax=3):
    k = rng.choices(range(0, kmax + 1), [1, 4, 4, 2][:kmax + 1])[0]
    out = []
    while len(out) < k:
        n = rng.choices(NAME_POOL, NAME_W)[0]
        if n not in out:
            out.append(n)
    return out


def gen_body_counter(rng, names, fields, spec):
    """attr.ib()s in the class body, some of them created before the class statement."""
    body = []
    pre = []
    use_pre = rng.random() < 0.35
    for n, fs in zip(names, fields):
        ann = None
        f2 = dict(fs)
        if fs["ty"] and rng.random() < 0.4:
            ann = fs["ty"]
            if rng.random() > 0.08:
                f2["ty"] = None            # else: annotation and type= -> ValueError
        if use_pre and rng.random() < 0.6:
            pre.append(f2)
            body.append({"n": n, "ann": ann, "val": ["pre", len(pre) - 1]})
        else:
            body.append({"n": n, "ann": ann, "val": ["field", f2]})
    if pre:
        # creation order of the pre-made objects is a random permutation of the textual order
        perm = list(range(len(pre)))
        rng.shuffle(perm)
        new_pre = [pre[p] for p in perm]
        inv = {old: new for new, old in enumerate(perm)}
        for st in body:
            if st["val"][0] == "pre":
                st["val"] = ["pre", inv[st["val"][1]]]
        pre = new_pre
    # noise: plain class attributes and bare annotations are not fields here
    if rng.random() < 0.2:
        body.insert(rng.randrange(len(body) + 1), {"n": "z9", "ann": None, "val": ["plain", "v"]})
    if rng.random() < 0.15:
        body.insert(rng.randrange(len(body) + 1),
                    {"n": "y9", "ann": rng.choice(ANN_PLAIN + ANN_CLASSVAR), "val": None})
    spec["pre"] = pre
    spec["body"] = body


def gen_body_auto(rng, names, fields, spec, define, allow_unannotated):
    body = []
    for n, fs in zip(names, fields):
        f2 = dict(fs)
        ann = fs["ty"] or rng.choice(ANN_PLAIN + ANN_DECOY)
        if not define and fs["ty"] and rng.random() < 0.05:
            pass                            # keep type= too: ValueError
        else:
            f2["ty"] = None
        r = rng.random()
        simple = fs["v"] is None and fs["init"] and not fs["kw"] and fs["al"] is None
        if simple and r < 0.7:
            d = fs["d"]
            val = None if d == "n" else ["plain", d]
            body.append({"n": n, "ann": ann, "val": val})
        else:
            body.append({"n": n, "ann": ann, "val": ["field", f2]})
    # ClassVar-annotated names (with plain values or even fields) and decoys
    for _ in range(rng.choice([0, 0, 1, 1, 2])):
        n = rng.choice(["cv1", "cv2", "a", "b"])
        if any(st["n"] == n for st in body):
            continue
        val = rng.choice([None, ["plain", "v"], ["plain", "v"]])
        body.insert(rng.randrange(len(body) + 1), {"n": n, "ann": rng.choice(ANN_CLASSVAR), "val": val})
    if allow_unannotated and rng.random() < allow_unannotated:
        fs = dict(rng.choice(fields)) if fields else None
        if fs is not None:
            fs["ty"] = None
            n = rng.choice(["u1", "c", "b"])
            if not any(st["n"] == n for st in body):
                ann = rng.choice([None, None, rng.choice(ANN_CLASSVAR)])
                body.insert(rng.randrange(len(body) + 1), {"n": n, "ann": ann, "val": ["field", fs]})
    if rng.random() < 0.1:
        body.insert(rng.randrange(len(body) + 1), {"n": "z9", "ann": None, "val": ["plain", "v"]})
    spec["pre"] = []
    spec["body"] = body


def gen_ft(rng, policy, vtags):
    r = rng.random()
    if r < 0.62:
        return None
    k = rng.choice(["id", "rev", "rot", "dropfirst", "droplast", "add", "kwonly", "rename", "dupnoinit",
                    "clearalias", "rev", "add", "meta", "metarev"])
    if k == "add":
        fs = gen_field(rng, policy, vtags)
        fs["fsugar"] = False
        return ["add", rng.choice(["z", "a", "b", "_q", "index"]), fs]
    if k == "rename":
        return ["rename", rng.choice(["_r", "2"])]
    return [k]


def _perm(rng, n):
    if n < 2 or rng.random() < 0.5:
        return None
    p = list(range(n))
    rng.shuffle(p)
    return p


def gen_class(rng, i, env, policy, vtags, force=None):
    """Spec of class statement [i]; bases are chosen among the classes bound in [env]."""
    alive = sorted(env.classes)
    spec = {"id": i}
    # bases
    for _ in range(20):
        if not alive or rng.random() < (0.5 if i == 0 else 0.1):
            bases = []
        else:
            k = rng.choices([1, 2, 3], [5, 5, 1])[0]
            k = min(k, len(alive))
            bases = rng.sample(alive, k)
        if env.mro_ids(bases) is not None and len(env.mro_ids(bases)) <= 3:
            break
    else:
        bases = []
    spec["bases"] = bases
    kind = force or rng.choices(["plain", "attrs", "define", "make_class"], [3, 9, 5, 3])[0]
    spec["kind"] = kind
    if kind == "plain":
        spec["body"] = []
        if rng.random() < 0.3:
            # attr.ib()s in an undecorated class are not fields of anything
            spec["body"] = [{"n": rng.choice(["a", "b"]), "ann": None, "val": ["field", gen_field(rng, policy, vtags)]}]
        return spec
    spec["by_mro"] = True if kind == "define" else rng.random() < 0.5
    spec["kw_only"] = (policy == "kwonly") or rng.random() < 0.08
    spec["slots"] = rng.random() < (0.4 if kind == "define" else 0.15)
    spec["ft"] = gen_ft(rng, policy, vtags)
    spec["these"] = None
    spec["mc_list"] = False
    spec["pre"] = []
    spec["body"] = []
    spec["auto"] = "false"
    names = pick_names(rng)
    fields = [gen_field(rng, policy, vtags) for _ in names]
    if kind == "make_class":
        spec["slots"] = False
        spec["mc_list"] = rng.random() < 0.3 and policy != "alldefault"
        spec["these"] = [[n, fs] for n, fs in zip(names, fields)]
        spec["these_perm"] = _perm(rng, len(names))
        return spec
    spec["deco_name"] = rng.random() < 0.3
    style = rng.choices(["these", "counter", "auto"], [2, 5, 5] if kind == "attrs" else [1, 0, 6])[0]
    if style == "these":
        spec["these"] = [[n, fs] for n, fs in zip(names, fields)]
        spec["these_perm"] = _perm(rng, len(names))
        if any(n.startswith("__") for n in names):
            # a private name in __slots__ is mangled by type(): slotted subclasses then fail with
            # AttributeError in _create_slots_class - a slots matter (C08), not field collection
            spec["slots"] = False
        if kind == "define":
            spec["auto"] = rng.choice(["infer", "true", "false"])
        if rng.random() < 0.3 and names:
            # body annotations still apply to these= fields
            n = rng.choice(names)
            if not n.startswith("__"):
                spec["body"] = [{"n": n, "ann": rng.choice(["int", "str"]), "val": None}]
        if rng.random() < 0.2:
            spec["body"].append({"n": "b", "ann": None, "val": ["field", gen_field(rng, policy, vtags)]})
        return spec
    if style == "counter":
        gen_body_counter(rng, names, fields, spec)
        return spec
    # annotations
    if kind == "attrs":
        spec["auto"] = "true"
        gen_body_auto(rng, names, fields, spec, False, 0.06)
    else:
        spec["auto"] = rng.choices(["infer", "true", "false"], [8, 1, 1])[0]
        shape = rng.choice(["annotated", "fields_only", "mixed", "annotated"])
        if shape == "annotated":
            gen_body_auto(rng, names, fields, spec, True, 0.03)
        elif shape == "fields_only":
            spec["body"] = [{"n": n, "ann": None, "val": ["field", dict(fs, ty=None)]} for n, fs in zip(names, fields)]
        else:
            gen_body_auto(rng, names, fields, spec, True, 0.9)
    return spec


POLICIES = ["alldefault", "nodefault", "kwonly", "mixed"]


def _guard_private_slots(spec, env):
    """A private (`__x`) field name that reaches a slotted class is mangled by type() when it becomes a
    slot; slotted subclasses then fail with AttributeError in _create_slots_class.  That is a slots
    matter (C08), not field collection: once such a name exists in a case nothing is slotted."""
    if spec["kind"] == "plain":
        return
    if any(n.startswith("__") for n, _ in (spec.get("these") or [])):
        env.private_unmangled = True
    if getattr(env, "private_unmangled", False):
        spec["slots"] = False


def gen_random_case(rng):
    future = rng.random() < 0.4
    policy = rng.choices(POLICIES, [5, 3, 1, 4])[0]
    vtags = ("v%d" % k for k in itertools.count())
    env = Env(future)
    try:
        n = rng.choices([1, 2, 3, 4], [1, 3, 6, 8])[0]
        specs = []
        for i in range(n):
            named = [s for s in specs if s.get("deco_name")]
            if named and rng.random() < 0.5:
                # re-use an earlier decorator object (same arguments, same these=/transformer objects)
                src = rng.choice(named)
                spec = gen_class(rng, i, env, policy, vtags, force=src["kind"])
                for key in ("by_mro", "kw_only", "slots", "ft", "these", "these_perm", "mc_list", "auto"):
                    spec[key] = src.get(key)
                spec["deco_name"] = False
                spec["deco_ref"] = src["id"]
                if spec["slots"] and getattr(env, "private_unmangled", False):
                    # the shared decorator object is slotted: do not re-use it below a private name
                    spec = gen_class(rng, i, env, policy, vtags)
            else:
                spec = gen_class(rng, i, env, policy, vtags)
            _guard_private_slots(spec, env)
            exec_class(env, spec)
            specs.append(spec)
        bound = [s["id"] for s in specs if s["kind"] != "plain" and s["id"] in env.classes]
        pairs = []
        stamped = any(s.get("ft") and s["ft"][0] in ("meta", "metarev") for s in specs)
        if len(bound) >= 2 and rng.random() < 0.5 and not stamped:
            # (Attribute.__eq__ also compares metadata, which the model does not carry)
            pairs.append(sorted(rng.sample(bound, 2)))
    finally:
        env.close()
    return {"classes": specs, "pairs": pairs, "future": future}


def frontend_variants(rng, i0, bases, names, fields, by_mro, kw_only, ft, future, count):
    """The same logical specification through different front-ends."""
    kinds = ["ib", "ann", "these", "mc", "define", "define_these"]
    rng.shuffle(kinds)
    out = []
    for kind in kinds:
        if len(out) == count:
            break
        i = i0 + len(out)
        spec = {"id": i, "bases": list(bases), "by_mro": by_mro, "kw_only": kw_only, "slots": False,
                "ft": ft, "these": None, "mc_list": False, "pre": [], "body": [], "auto": "false", "kind": "attrs"}
        local = [n for n in names]
        if kind in ("ib", "ann", "define") and any(n.startswith("__") for n in names):
            continue       # name mangling makes the body spelling a different specification
        if kind == "ib":
            spec["body"] = [{"n": n, "ann": None, "val": ["field", dict(fs)]} for n, fs in zip(local, fields)]
        elif kind == "ann":
            if not all(fs["ty"] for fs in fields):
                continue
            spec["auto"] = "true"
            spec["body"] = [{"n": n, "ann": fs["ty"], "val": ["field", dict(fs, ty=None)]}
                            for n, fs in zip(local, fields)]
        elif kind == "these":
            spec["these"] = [[n, dict(fs)] for n, fs in zip(local, fields)]
        elif kind == "mc":
            spec["kind"] = "make_class"
            spec["these"] = [[n, dict(fs)] for n, fs in zip(local, fields)]
        elif kind == "define":
            if not all(fs["ty"] for fs in fields):
                continue
            spec["kind"] = "define"
            spec["auto"] = "infer"
            spec["body"] = [{"n": n, "ann": fs["ty"], "val": ["field", dict(fs, ty=None)]}
                            for n, fs in zip(local, fields)]
        else:
            spec["kind"] = "define"
            spec["auto"] = "infer"
            spec["these"] = [[n, dict(fs)] for n, fs in zip(local, fields)]
        out.append(spec)
    return out


def gen_frontend_case(rng):
    future = rng.random() < 0.4
    policy = rng.choices(POLICIES, [6, 3, 1, 2])[0]
    vtags = ("v%d" % k for k in itertools.count())
    env = Env(future)
    try:
        specs = []
        for i in range(rng.choice([0, 1, 2])):
            spec = gen_class(rng, i, env, policy, vtags)
            _guard_private_slots(spec, env)
            exec_class(env, spec)
            specs.append(spec)
        alive = sorted(env.classes)
        bases = []
        for _ in range(10):
            bases = rng.sample(alive, min(len(alive), rng.choice([0, 1, 1, 2])))
            if env.mro_ids(bases) is not None:
                break
        else:
            bases = []
        names = pick_names(rng)
        fields = [gen_field(rng, policy, vtags) for _ in names]
        if rng.random() < 0.6:
            for fs in fields:
                fs["ty"] = fs["ty"] or "int"
        ft = gen_ft(rng, policy, vtags) if rng.random() < 0.5 else None
        variants = frontend_variants(rng, len(specs), bases, names, fields, rng.random() < 0.7,
                                     policy == "kwonly" or rng.random() < 0.1, ft, future, rng.choice([2, 3, 4]))
        for spec in variants:
            exec_class(env, spec)
            specs.append(spec)
        ids = [s["id"] for s in variants if s["id"] in env.classes]
        pairs = [[x, y] for x, y in itertools.combinations(ids, 2)][:4]
        stamping = lambda f: bool(f) and f[0] in ("meta", "metarev")  # noqa: E731
        if any(stamping(s.get("ft")) for s in specs) and not stamping(ft):
            # Attribute.__eq__ also compares metadata (not modelled): inherited stamps may differ between
            # the legacy and the MRO-correct variant; when the variants stamp themselves all is restamped
            pairs = []
    finally:
        env.close()
    return {"classes": specs, "pairs": pairs, "future": future}


def _shapes(n):
    """All tuples of base lists for n classes (bases among earlier classes, ordered, <= 3 bases)."""
    per = []
    for i in range(n):
        opts = [()]
        for k in (1, 2, 3):
            opts += list(itertools.permutations(range(i), k))
        per.append(opts)
    return itertools.product(*per)


def gen_sweep(nmax, rng, sample=None):
    """Every hierarchy shape x {plain, decorated without a, decorated defining a} x {legacy, by_mro}."""
    out = []
    for n in range(1, nmax + 1):
        for shape in _shapes(n):
            # validity of all MROs is checked once with plain classes
            objs = []
            ok = True
            for bs in shape:
                try:
                    objs.append(type("P", tuple(objs[j] for j in bs), {}))
                except TypeError:
                    ok = False
                    break
                if len(objs[-1].__mro__) - 2 > 3:
                    ok = False
                    break
            if not ok:
                continue
            for roles in itertools.product("pda", repeat=n):
                if roles[-1] == "p" and n > 1:
                    continue          # the last class is the one we look at
                for by_mro in (False, True):
                    out.append((shape, roles, by_mro))
    if sample is not None and len(out) > sample:
        out = rng.sample(out, sample)
    cases = []
    for shape, roles, by_mro in out:
        specs = []
        for i, (bs, r) in enumerate(zip(shape, roles)):
            if r == "p":
                specs.append({"id": i, "bases": list(bs), "kind": "plain", "body": []})
                continue
            body = [{"n": "b", "ann": None, "val": ["field", _sweep_field("w%d" % i)]}] if i % 2 else []
            if r == "a":
                body.insert(0, {"n": "a", "ann": None, "val": ["field", _sweep_field("v%d" % i)]})
            specs.append({"id": i, "bases": list(bs), "kind": "attrs", "by_mro": by_mro, "kw_only": False,
                          "slots": False, "ft": None, "these": None, "mc_list": False, "pre": [], "body": body,
                          "auto": "false"})
        cases.append({"classes": specs, "pairs": [], "future": False})
    return cases


def _sweep_field(tag):
    return {"d": "v", "init": True, "kw": False, "al": None, "ty": None, "v": None if tag.startswith("w") else tag,
            "fsugar": False}


def generate(tier, seed):
    rng = random.Random(seed)
    inps = []
    if tier == "quick":
        inps += gen_sweep(3, rng)
        inps += gen_sweep(4, rng, sample=700)
        n_random, n_front = 1800, 500
    else:
        inps += gen_sweep(4, rng)
        n_random, n_front = 14000, 4000
    for _ in range(n_random):
        inps.append(gen_random_case(rng))
    for _ in range(n_front):
        inps.append(gen_frontend_case(rng))
    return [mk_case(i) for i in inps]


def rerun(inp):
    return mk_case(inp)


def _guard(fn):
    def run():
        try:
            return fn()
        except BaseException as e:  # noqa: BLE001 - a reproducer that crashes has found something
            if isinstance(e, (KeyboardInterrupt, SystemExit)):
                raise
            return "reproducer raised %s: %s" % (type(e).__name__, e)
    run.__name__ = getattr(fn, "__name__", "corpus")
    return run


def corpus():
    import importlib.util
    spec = importlib.util.spec_from_file_location("verif_defects", os.path.join(vlib.VERIF, "corpus", "defects.py"))
    m = importlib.util.module_from_spec(spec)
    spec.loader.exec_module(m)
    out = [(k, _guard(f)) for k, f in m.ALL.items() if "_C07_" in k]
    # runtime-only observations (object identity / mutation of Python containers: nothing a
    # Gallina model can express); run as named reproducers so that --replay works for them
    out += [(k, _guard(f)) for k, f in RUNTIME.items()]
    return out


def EXHAUSTIVE(tier):
    return False


def distribution(cases):
    from collections import Counter
    kinds, outcomes, nclasses, fts, shapes = Counter(), Counter(), Counter(), Counter(), Counter()
    for c in cases:
        specs = c.inp["classes"]
        nclasses[len(specs)] += 1
        multi = any(len(s["bases"]) > 1 for s in specs)
        shapes["multiple-inheritance" if multi else "single/none"] += 1
        for s, ob in zip(specs, c.seen["classes"]):
            k = s["kind"]
            if k == "attrs":
                k = "attr.s(%s)" % ("by_mro" if s["by_mro"] else "legacy")
            if k != "plain" and s["these"] is not None and k != "make_class":
                k += "+these"
            kinds[k] += 1
            outcomes[ob.get("exc", "ok")] += 1
            if k != "plain" and s["ft"] is not None:
                fts[s["ft"][0]] += 1
    return {"classes_per_case": dict(sorted(nclasses.items())), "front_ends": dict(kinds),
            "outcomes": dict(outcomes), "transformers": dict(fts), "shapes": dict(shapes),
            "equivalence_pairs": sum(len(c.inp["pairs"]) for c in cases),
            "equivalence_pairs_equal": sum(1 for c in cases for e in c.seen["eq"] if e),
            "reused_decorator_objects": sum(1 for c in cases for s in c.inp["classes"] if s.get("deco_ref") is not None),
            "metadata_stamping_transformers": sum(1 for c in cases for s in c.inp["classes"]
                                                  if s.get("ft") and s["ft"][0] in ("meta", "metarev")),
            "future_annotations_modules": sum(1 for c in cases if c.inp["future"]),
            "inherited_fields_seen": sum(1 for c in cases for ob in c.seen["classes"]
                                         for f in ob.get("fields", ()) if f["inh"])}


# --------------------------------------------------------------------------------------
# runtime-only observations (no model can express object identity / mutation of Python
# containers).  Each function sweeps front-end x slots x collection mode and returns None or
# a description of the first deviation.


def _rt_matrix():
    for style in ("attrs", "define", "make_class"):
        for slots in (False, True):
            for by_mro in (False, True):
                md = {"k": 7, "l": [1]}
                vlist = [V["v1"], V["v2"]]
                these = {"p": attr.ib(default=1, metadata=md, validator=vlist), "q": attr.ib(default=2)}
                if style == "attrs":
                    C = attr.s(these=these, slots=slots)(type("C", (), {}))
                elif style == "define":
                    C = attrs.define(these=these, slots=slots)(type("C", (), {}))
                else:
                    C = attr.make_class("C", these, slots=slots)
                D = attr.s(collect_by_mro=by_mro, slots=slots)(type("D", (C,), {"r": attr.ib(default=3)}))
                yield "%s slots=%s by_mro=%s" % (style, slots, by_mro), C, D, md, vlist, these


def rt_attribute_frozen():
    for label, C, D, *_ in _rt_matrix():
        for K in (C, D):
            for a in attr.fields(K):
                for fld, val in (("name", "zz"), ("default", 5), ("metadata", {}), ("inherited", True),
                                 ("alias", "u"), ("validator", None), ("kw_only", True), ("brand_new", 1)):
                    try:
                        setattr(a, fld, val)
                    except FrozenInstanceError:
                        continue
                    return "%s: Attribute.%s of field %s could be assigned" % (label, fld, a.name)
            try:
                attr.fields(K)[0] = attr.fields(K)[0]
            except TypeError:
                pass
            else:
                return "%s: the fields() tuple accepted an item assignment" % label


def rt_metadata_readonly_and_isolated():
    for label, C, D, md, _vl, _th in _rt_matrix():
        snap = {"k": 7, "l": [1]}
        for K in (C, D):
            a = attr.fields(K).p
            if type(a.metadata) is not types.MappingProxyType:
                return "%s: metadata is a %s, not a mappingproxy" % (label, type(a.metadata).__name__)
            try:
                a.metadata["new"] = 1
            except TypeError:
                pass
            else:
                return "%s: the metadata mapping accepted an item assignment" % label
            if type(attr.fields(K).q.metadata) is not types.MappingProxyType or len(attr.fields(K).q.metadata):
                return "%s: empty metadata is not an empty mappingproxy" % label
        md["k"] = "changed"
        md["extra"] = 1
        del md["l"]
        for K in (C, D):
            if dict(attr.fields(K).p.metadata) != snap:
                return "%s: metadata of %s.p follows later mutation of the dict passed to attr.ib: %r" % (
                    label, K.__name__, dict(attr.fields(K).p.metadata))


def rt_these_and_validators_isolated():
    for label, C, D, _md, vlist, these in _rt_matrix():
        before = [(a.name, a.validator, a.default) for a in attr.fields(C)]
        vlist.append(V["v3"])
        del vlist[0]
        del these["q"]
        these["zz"] = attr.ib()
        these["p"] = attr.ib(default=99)
        after = [(a.name, a.validator, a.default) for a in attr.fields(C)]
        if before != after or [a.name for a in attr.fields(C)] != ["p", "q"]:
            return "%s: fields(C) changed after the these= dict / validator list was mutated" % label
        if [a.name for a in attr.fields(D)] != ["p", "q", "r"] or list(attr.fields_dict(D)) != ["p", "q", "r"]:
            return "%s: fields of the subclass changed after the these= dict was mutated" % label
        v = attr.fields(C).p.validator
        if tuple(getattr(v, "_validators", ())) != (V["v1"], V["v2"]):
            return "%s: the validator list passed to attr.ib is aliased by the field" % label
        d = attr.fields_dict(C)
        d["new"] = 1
        if list(attr.fields_dict(C)) != ["p", "q"]:
            return "%s: fields_dict() hands out shared state" % label


def rt_evolve_metadata_isolated():
    """Attribute.evolve(metadata=d) - what a field_transformer typically does - must copy d."""
    scratch = {}

    def number_fields(cls, fields):
        out = []
        for pos, f in enumerate(reversed(fields)):
            scratch.clear()
            scratch.update(f.metadata)
            scratch["pos"] = pos
            out.append(f.evolve(metadata=scratch))
        return out

    for slots in (False, True):
        for by_mro in (False, True):
            A = attrs.define(field_transformer=number_fields, slots=slots)(
                type("A", (), {"x": attrs.field(default=0, metadata={"unit": "m"}), "y": attrs.field(default=0)}))
            B = attr.s(field_transformer=number_fields, collect_by_mro=by_mro, slots=slots)(
                type("B", (A,), {"z": attr.ib(default=0, metadata={"unit": "s"})}))
            scratch["pos"] = "late"
            scratch["leak"] = 1
            exp_a = [("y", {"pos": 0}), ("x", {"unit": "m", "pos": 1})]
            exp_b = [("z", {"unit": "s", "pos": 0}), ("x", {"unit": "m", "pos": 1}), ("y", {"pos": 2})]
            for K, exp in ((A, exp_a), (B, exp_b)):
                got = [(a.name, dict(a.metadata)) for a in attr.fields(K)]
                if got != exp:
                    return "slots=%s by_mro=%s: fields(%s) metadata %r, the transformer returned %r" % (
                        slots, by_mro, K.__name__, got, exp)
                gotd = [(n, dict(a.metadata)) for n, a in attr.fields_dict(K).items()]
                if gotd != exp:
                    return "slots=%s by_mro=%s: fields_dict(%s) metadata %r" % (slots, by_mro, K.__name__, gotd)
                if any(type(a.metadata) is not types.MappingProxyType for a in attr.fields(K)):
                    return "evolved metadata is not a mappingproxy"
    a = attr.fields(attr.make_class("C", {"x": attr.ib(metadata={"k": 1})})).x
    d = {"k": 2}
    a2 = a.evolve(metadata=d)
    d["k"] = 3
    if dict(a2.metadata) != {"k": 2} or dict(a.metadata) != {"k": 1}:
        return "evolve(metadata=d) keeps a live view of d: %r" % (dict(a2.metadata),)
    import copy
    import pickle
    for clone in (copy.copy(a2), pickle.loads(pickle.dumps(a2))):
        if dict(clone.metadata) != {"k": 2} or type(clone.metadata) is not types.MappingProxyType:
            return "copy/pickle of an Attribute changed its metadata: %r" % (clone.metadata,)


def rt_tuple_method_names():
    """Fields named like the public tuple methods are still addressable by name."""
    for label, mk in (("attr.s", lambda: attr.s(type("C", (), {"count": attr.ib(default=1), "index": attr.ib(default=2)}))),
                      ("define", lambda: attrs.define(type("C", (), {"count": attrs.field(default=1),
                                                                       "index": attrs.field(default=2)}))),
                      ("make_class", lambda: attr.make_class("C", {"count": attr.ib(default=1),
                                                                   "index": attr.ib(default=2)}))):
        C = mk()
        D = attr.s(collect_by_mro=True)(type("D", (C,), {"z": attr.ib(default=3)}))
        for K in (C, D):
            f = attr.fields(K)
            for i, n in enumerate(("count", "index")):
                if getattr(f, n) is not f[i] or getattr(getattr(f, n), "default", None) != i + 1:
                    return "%s: fields(%s).%s is %r, not the Attribute at index %d" % (label, K.__name__, n, getattr(f, n), i)


def rt_attribute_delattr():
    for label, C, D, *_ in _rt_matrix():
        a = attr.fields(D).r
        try:
            del a.alias
        except (FrozenInstanceError, AttributeError, TypeError):
            continue
        gone = not hasattr(a, "alias")
        object.__setattr__(a, "alias", "r")
        if gone:
            return "%s: `del fields(D).r.alias` succeeded: Attribute blocks __setattr__ but not __delattr__" % label


RUNTIME = {
    "RT_C07_attribute_frozen": rt_attribute_frozen,
    "RT_C07_metadata_readonly_and_isolated": rt_metadata_readonly_and_isolated,
    "RT_C07_these_and_validators_isolated": rt_these_and_validators_isolated,
    "RT_C07_evolve_metadata_isolated": rt_evolve_metadata_isolated,
    "RT_C07_tuple_method_names": rt_tuple_method_names,
    "RT_C07_attribute_delattr": rt_attribute_delattr,
}
