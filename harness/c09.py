"""C09 - generated ordering.  Real-side driver + case generator.
Class building, scripted objects and encoders are shared with harness/c03.py."""
from __future__ import annotations

import ast
import itertools
import os
import random

import attr
import attrs

from . import vlib
from . import c03 as S
from .driver import Case
from .vlib import b, lst

PROP = "C09"
HEADER = "From Attrs Require Import Base C03.Common C09.Model C09.Corr."
CASE_TYPE = "case"
CHECK = "check_case"
MODEL = "model_of"
RULE = ("(0) field level, exhaustive: attr.ib over cmp/eq/order in {None,True,False,key0,key1,falsy callable object "
        "100,101}^3, attrs.field over "
        "eq/order: resolved (eq, eq_key, order, order_key) or ValueError; (1) decision table, exhaustive: attr.s over cmp/eq/order in {omitted,None,True,False}^3 x auto_detect "
        "in {omitted,True,False} x own __eq__ x own __lt__ (768) and define over eq/order likewise (192): "
        "which of __eq__/__ne__ and __lt__/__le__/__gt__/__ge__ are generated, or ValueError; the parameter "
        "defaults of attrs() and define() read from the source by ast (2 cases); (2) single classes with 1..3 "
        "fields over every combination of a palette of 13 field settings (order None/True/False/key x eq "
        "True/False/key, cmp) (all for k<=2, seeded sample for k=3): ALL ordered pairs of instances over "
        "{-1,0,1}^k or {0,1,2}^k through x<y, x<=y, x>y, x>=y and the four methods called directly; "
        "(3) inheritance chains of 2..3 classes (fields added / overridden, classes without ordering that "
        "inherit generated methods): same-class, subclass, superclass, foreign, identical-object, float-NaN "
        "(in key-less and in keyed fields) operands; (4) scripted comparison objects (== and ordering outcomes True/False/non-bool/raises, "
        "identical objects on both sides); (5) classes with 4..5 fields on sampled pairs; (6) None, '' and 0 among "
        "the values of order fields (keys that accept them / return None; un-keyed None raises TypeError, as the "
        "model predicts) and falsy callable objects as order keys (also in the palette of (2)).  distinct = "
        "distinct case inputs; non-trivial = decision rows, and chains with at least one probe")
EXTRA_TRUSTED = [
    "CPython's tuple comparison (tuplerichcompare incl. its identity shortcut) and binary-operator dispatch "
    "as modelled by C09.Model.tuple_cmp / Common.dispatch; int ordering, float NaN, and the scripted "
    "objects' own methods as modelled by Common.c_py_eq / c_py_cmp / c_py_is",
    "the field ORDER of each class is read from attr.fields(cls) (property C07), the arguments of each "
    "field from the harness's own bookkeeping",
]
ASSUMPTIONS = ["key functions are pure and total; truth-testing a comparison result does not raise",
               "instances are fully initialised (every field readable)",
               "the consistency theorems (converse, <= as < or equal, >= as not <) assume the keyed field values "
               "are totally ordered with == the order's equality (ints in the correspondence); without that "
               "assumption only order_is_tuple_order holds (e.g. NaN)"]

OPS = [lambda x, y: x < y, lambda x, y: x <= y, lambda x, y: x > y, lambda x, y: x >= y]
DUNDERS = ["__lt__", "__le__", "__gt__", "__ge__"]


def order_oct(x, y):
    out = [S.observe(lambda f=f: f(x, y)) for f in OPS]
    out += [S.observe(lambda d=d: getattr(type(x), d)(x, y)) for d in DUNDERS]
    return out


def _digit(r):
    if r == ["F"]:
        return 0
    if r == ["T"]:
        return 1
    if r == "NI":
        return 2
    if r == ["R", 2]:
        return 3
    return 4


def codes2(o):
    return [sum(_digit(r) * 5 ** j for j, r in enumerate(o[:4])),
            sum(_digit(r) * 5 ** j for j, r in enumerate(o[4:]))]


def run_chain(inp):
    specs = inp["chain"]
    n = len(specs)
    world = S.World(inp.get("script", {}))
    S._WORLD[0] = world
    try:
        classes, fieldlists = S.build_chain(specs)
    except ValueError:
        return {"def": "ValueError"}, None
    except Exception as e:  # noqa: BLE001
        return {"def": "other:" + type(e).__name__}, None
    gen = []
    for cls in reversed(classes):
        have = [d in cls.__dict__ for d in DUNDERS]
        gen.append(1 if all(have) else 0 if not any(have) else 5)
    outs = []
    for it in inp["items"]:
        i = n - 1 - it[1]
        fl = fieldlists[i]
        if it[0] == "probe":
            x = S.instantiate(classes[i], fl, it[2], world)
            y = S.mk_operand(it[3], x, classes, fieldlists, world, n)
            outs.append(["probe", order_oct(x, y)])
        elif it[0] == "pair":
            x = S.instantiate(classes[i], fl, [["i", z] for z in it[2]], world)
            i2 = n - 1 - it[3]
            y = S.instantiate(classes[i2], fieldlists[i2], [["i", z] for z in it[4]], world)
            outs.append(["all", codes2(order_oct(x, y))])
        elif it[0] == "allv":
            vecs = [list(v) for v in itertools.product(it[2], repeat=len(fl))]
            codes = []
            for xv in vecs:
                x = S.instantiate(classes[i], fl, xv, world)
                for yv in vecs:
                    codes += codes2(order_oct(x, S.instantiate(classes[i], fl, yv, world)))
            outs.append(["all", codes])
        else:
            k = len(fl)
            vecs = [[["i", z] for z in v] for v in itertools.product(it[2], repeat=k)]
            codes = []
            for xv in (vecs if it[0] == "all" else [[["i", z] for z in it[3]]]):
                x = S.instantiate(classes[i], fl, xv, world)
                for yv in vecs:
                    y = S.instantiate(classes[i], fl, yv, world)
                    codes += codes2(order_oct(x, y))
            outs.append(["all", codes])
    return {"def": "ok", "gen": gen, "outs": outs}, (classes, fieldlists)


def coq_operand(o):
    if o[0] == "same":
        return "OpSame"
    if o[0] == "inst":
        return "(OpInst %d %s)" % (o[1], lst(S.coq_val(v) for v in o[2]))
    if o[0] == "f":
        return "(OpForeign %s)" % S.coq_pyres(o[3] if len(o) > 3 else "NI")
    return "(OpForeign RNotImpl)"


def chain_case(inp):
    seen, built = run_chain(inp)
    specs = inp["chain"]
    n = len(specs)
    if built is not None:
        fieldlists = built[1]
    else:
        fieldlists = []
        for i in range(n):
            fl, names = [], set()
            for j in range(i, -1, -1):
                for f in specs[j]["own"]:
                    if f[0] not in names:
                        names.add(f[0])
                        fl.append(list(f))
            fieldlists.append(fl)
    layers = lst(S.coq_layer(specs[i], fieldlists[i]) for i in range(n - 1, -1, -1))
    items = []
    for it in inp["items"]:
        if it[0] == "probe":
            items.append("(IProbe %d %s %s)" % (it[1], lst(S.coq_val(v) for v in it[2]), coq_operand(it[3])))
        elif it[0] == "all":
            items.append("(IAll %d %s)" % (it[1], S.zl(it[2])))
        elif it[0] == "allv":
            items.append("(IAllV %d %s)" % (it[1], lst(S.coq_val(v) for v in it[2])))
        elif it[0] == "row":
            items.append("(IRow %d %s %s)" % (it[1], S.zl(it[2]), S.zl(it[3])))
        else:
            items.append("(IPair %d %s %d %s)" % (it[1], S.zl(it[2]), it[3], S.zl(it[4])))
    if seen["def"] == "ValueError":
        cs = "SeenErr"
    elif seen["def"] == "ok":
        outs = []
        for o in seen["outs"]:
            if o[0] == "probe":
                outs.append("(OProbe %s)" % lst(S.coq_pyres(q) for q in o[1]))
            else:
                outs.append("(OAll %s)" % lst(str(c) for c in o[1]))
        cs = "(SeenOk %s %s)" % (lst(str(g) for g in seen["gen"]), lst(outs))
    else:
        cs = "(SeenOk [9] [])"
    term = "(KChain %s %s %s %s)" % (layers, S.coq_script(inp.get("script", {})), lst(items), cs)
    sig = {"kind": "chain", "apis": "".join(s["api"] for s in specs), "depth": n}
    return Case(term, inp, seen, sig=sig, nontrivial=bool(inp["items"]), key=repr(inp))


# --------------------------------------------------------------------------------------
# decision table


def decide_case(inp):
    """inp: {'kind':'decide', 'api','cmp','eq','order','auto','own_eq','own_order'}"""
    spec = dict(inp, own=[["a", "N", "N", "N"]], slots=None)
    try:
        cls = S.build_class(spec, None)
        d = cls.__dict__
        e = [("__eq__" in d and d["__eq__"] is not S._own_eq), ("__ne__" in d)]
        o = [(k in d and d[k] is not S._own_lt) for k in DUNDERS]
        if e[0] != e[1] or len(set(o)) != 1:
            seen = {"bad": [e, o]}
        else:
            seen = {"eq": e[0], "order": o[0]}
    except ValueError:
        seen = "ValueError"
    except Exception as ex:  # noqa: BLE001
        seen = {"bad": type(ex).__name__}
    if seen == "ValueError":
        s = "DErr"
    elif "bad" in seen:
        s = "DBad"
    else:
        s = "(DOk %s %s)" % (b(seen["eq"]), b(seen["order"]))
    auto = inp.get("auto")
    ca = "(CA %s %s %s %s %s %s %s)" % (
        "AttrS" if inp["api"] == "s" else "Define", S.coq_tri_opt(inp.get("cmp")),
        S.coq_tri_opt(inp.get("eq")), S.coq_tri_opt(inp.get("order")),
        "None" if auto is None else "(Some %s)" % b(auto), b(inp["own_eq"]), b(inp["own_order"]))
    term = "(KDecide %s %s)" % (ca, s)
    return Case(term, inp, seen, sig={"kind": "decide", "api": inp["api"]}, nontrivial=True, key=repr(inp))


def _defaults_from_source(fname, func):
    path = os.path.join(vlib.REPO, "src", "attr", fname)
    tree = ast.parse(open(path).read())
    for node in tree.body:
        if isinstance(node, ast.FunctionDef) and node.name == func:
            a = node.args
            params = {}
            pos = a.posonlyargs + a.args
            for p, d in zip(pos[len(pos) - len(a.defaults):], a.defaults):
                params[p.arg] = d
            for p, d in zip(a.kwonlyargs, a.kw_defaults):
                if d is not None:
                    params[p.arg] = d
            out = {}
            for k in ("cmp", "eq", "order", "auto_detect"):
                if k not in params:
                    out[k] = "absent"
                    continue
                d = params[k]
                if not isinstance(d, ast.Constant) or d.value not in (None, True, False):
                    raise vlib.Infra("default of %s(%s=) in %s is not a None/True/False literal" % (func, k, fname))
                out[k] = d.value
            return out
    raise vlib.Infra("function %s not found in %s" % (func, path))


def defaults_case(inp):
    api = inp["api"]
    d = _defaults_from_source("_make.py" if api == "s" else "_next_gen.py", "attrs" if api == "s" else "define")

    def tri(v):
        return {None: "TN", True: "TT", False: "TF", "absent": "TN"}[v]
    # define() has no cmp parameter: it passes none on, attrs()'s cmp=None applies
    auto = d["auto_detect"]
    if auto not in (True, False):
        raise vlib.Infra("auto_detect default of %s is %r" % (api, auto))
    term = "(KDefaults %s %s %s %s %s)" % ("AttrS" if api == "s" else "Define", tri(d["cmp"]), tri(d["eq"]),
                                          tri(d["order"]), b(auto))
    seen = {k: (v if v == "absent" else repr(v)) for k, v in d.items()}
    return Case(term, dict(inp), seen, sig={"kind": "defaults", "api": api}, nontrivial=True, key=repr(inp))


# --------------------------------------------------------------------------------------
# generators

PALETTE = [("N", "N", "N"), ("N", "N", "F"), ("N", "N", "K0"), ("N", "N", "K1"), ("N", "F", "N"),
           ("N", "F", "F"), ("N", "K1", "N"), ("N", "K1", "K0"), ("N", "K2", "T"), ("N", "K1", "F"),
           ("K0", "N", "N"), ("F", "N", "N"), ("N", "T", "T"),
           # falsy callable OBJECTS as keys (100: v % 2, 101: min(v, 1), 102: abs)
           ("N", "N", "Q100"), ("N", "Q102", "N"), ("Q101", "N", "N")]

ARGS_ORDER = {"s": [(None, None, None), (None, None, "T"), (None, "T", "T"), ("T", None, None), (None, "N", "N"),
                    (None, "T", None), ("N", None, None)],
              "d": [(None, None, "T"), (None, "T", "T"), (None, "N", "T"), (None, None, "N"), (None, "T", "N")]}
ARGS_NOORDER = {"s": [(None, None, "F"), (None, "F", None), ("F", None, None), (None, "T", "F")],
                "d": [(None, None, None), (None, "T", None), (None, None, "F"), (None, "F", None), (None, "F", "N")]}
ARGS_ERR = {"s": [(None, "F", "T"), ("T", None, "T"), ("F", "T", None)], "d": [(None, "F", "T")]}


def rand_layer(rng, own, p_no=0.0, p_err=0.0):
    api = rng.choice("sd")
    r = rng.random()
    pool = ARGS_ERR if r < p_err else ARGS_NOORDER if r < p_err + p_no else ARGS_ORDER
    cmp, eq, order = rng.choice(pool[api])
    spec = {"api": api, "cmp": cmp, "eq": eq, "order": order, "own": [list(f) for f in own],
            "slots": rng.choice([None, True, False]), "frozen": rng.random() < 0.3,
            "auto": rng.choice([None, None, True, False])}
    if api == "d" and rng.random() < 0.5:
        spec["annot"] = True
    return spec


def sweep_cases(rng, tier):
    out = []
    for k in (1, 2, 3):
        combos = list(itertools.product(PALETTE, repeat=k))
        if k == 3:
            rng.shuffle(combos)
            combos = combos[:25 if tier == "quick" else 350]
        if k == 2 and tier == "quick":
            rng.shuffle(combos)
            combos = combos[:150]
        for combo in combos:
            own = [[S.NAMES[i]] + list(t) for i, t in enumerate(combo)]
            dom = rng.choice([[-1, 0, 1], [-1, 0, 1], [0, 1, 2]])
            layer = rand_layer(rng, own, p_no=0.08)
            if k == 1:
                out.append({"chain": [layer], "script": {}, "items": [["all", 0, dom]]})
            else:
                rows = [["row", 0, dom, list(xv)] for xv in itertools.product(dom, repeat=k)]
                step = 3 if k == 2 else 2
                for j in range(0, len(rows), step):
                    out.append({"chain": [layer], "script": {}, "items": rows[j:j + step]})
    return out


def rand_own(rng, names):
    own = []
    for n in names:
        if rng.random() < 0.6:
            t = rng.choice(PALETTE)
        else:
            vals = ["N", "T", "F", "K0", "K1", "K2", "K3"]
            t = (rng.choice(["N"] * 5 + ["T", "F", "K0"]), rng.choice(vals), rng.choice(vals))
            if t[0] != "N":
                t = (t[0], "N", "N")
            if t[1] == "F" and (t[2] == "T" or t[2][0] == "K") and rng.random() < 0.9:
                t = (t[0], t[1], "N")      # (else: rejected at definition time, ValueError)
        own.append([n] + list(t))
    return own


def rand_vals(rng, k, dom=(-1, 0, 1)):
    return [["i", rng.choice(dom)] for _ in range(k)]


FOREIGN_OPS = [["p", "object"], ["p", "none"], ["p", "int"], ["p", "tuple"], ["f", "NI", "NI", "NI"],
               ["f", "NI", "NI", ["T"]], ["f", "NI", "NI", ["F"]], ["f", "NI", "NI", ["O", True, 77]],
               ["f", "NI", "NI", ["R", 1]]]


def chain_cases(rng, tier):
    out = []
    for _ in range(70 if tier == "quick" else 800):
        depth = rng.choice([2, 2, 3])
        specs, names_so_far = [], []
        for d in range(depth):
            fresh = [n for n in S.NAMES[:5] if n not in names_so_far]
            n_new = rng.choice([0, 1, 1, 2]) if d else rng.choice([1, 2, 2])
            new = fresh[:n_new]
            over = [n for n in names_so_far if rng.random() < 0.25] if d else []
            own = rand_own(rng, over + new)
            rng.shuffle(own)
            names_so_far += new
            specs.append(rand_layer(rng, own, p_no=0.3 if d else 0.1, p_err=0.03))
        if rng.random() < 0.3:
            specs[0]["meta"] = True      # metaclass under which all classes compare ==
        try:
            S._WORLD[0] = S.World({})
            _classes, fls = S.build_chain(specs)
            sizes = [len(f) for f in fls]
        except Exception:  # noqa: BLE001
            out.append({"chain": specs, "script": {}, "items": []})
            continue
        items = []
        for c in range(depth):
            k = sizes[depth - 1 - c]
            if k <= 1:
                items.append(["all", c, [-1, 0, 1]])
            for _ in range(5):
                xv = rand_vals(rng, k)
                yv = [v if rng.random() < 0.6 else ["i", rng.randint(-1, 1)] for v in xv]
                items.append(["probe", c, xv, ["inst", c, yv]])
            items.append(["probe", c, rand_vals(rng, k), ["same"]])
            for c2 in range(depth):
                if c2 != c:
                    k2 = sizes[depth - 1 - c2]
                    items.append(["probe", c, rand_vals(rng, k), ["inst", c2, rand_vals(rng, k2)]])
            for o in rng.sample(FOREIGN_OPS, 2):
                items.append(["probe", c, rand_vals(rng, k), o])
            # float NaN, in key-less fields and in fields whose value reaches the tuple through a key
            # function (the harness's key functions return a registered NaN object per (key, input
            # object), so identity of the keyed values is known to the model: Common.c_keyf on Vn)
            fl = fls[depth - 1 - c]
            keyed_f = [j for j, f in enumerate(fl) if any(s_[0] == "K" for s_ in f[1:])]
            keyless = [j for j in range(k) if j not in keyed_f]
            for pool in (keyless, keyed_f):
                if not pool:
                    continue
                xv = rand_vals(rng, k)
                j = rng.choice(pool)
                xv[j] = ["n", 1]
                yv = list(xv)
                yv[j] = ["n", 2]
                items.append(["probe", c, xv, ["same"]])
                items.append(["probe", c, xv, ["inst", c, list(xv)]])
                items.append(["probe", c, xv, ["inst", c, yv]])
        items = S.compact(items)
        for j in range(0, len(items), 8):
            out.append({"chain": specs, "script": {}, "items": items[j:j + 8]})
    return out


EQ_OUT = [["T"], ["F"], ["O", True, 0], ["O", False, 0], ["R", 0]]
CMP_OUT = [["T"], ["F"], ["O", True, 0], ["O", False, 0], ["R", 1]]


def scripted_cases(rng, tier):
    out = []
    kinds = [("N", "N", "N"), ("N", "N", "F"), ("N", "N", "K1"), ("N", "K0", "N"), ("N", "K2", "T")]
    for k in (1, 2):
        for pat in itertools.product(range(len(kinds)), repeat=k):
            own = [[S.NAMES[i]] + list(kinds[p]) for i, p in enumerate(pat)]
            vectors = list(itertools.product(range(len(EQ_OUT) * len(CMP_OUT)), repeat=k))
            rng.shuffle(vectors)
            vectors = vectors[:(10 if tier == "quick" else 60) if k == 2 else len(vectors)]
            for chunk in range(0, len(vectors), 4):
                script, items, nid = {}, [], 1
                for vec in vectors[chunk:chunk + 4]:
                    xv, yv = [], []
                    for i, code in enumerate(vec):
                        fid = nid
                        nid += 2
                        eo, co = EQ_OUT[code % len(EQ_OUT)], CMP_OUT[code // len(EQ_OUT)]
                        eo = [eo[0], eo[1], 1000 + fid] if eo[0] == "O" else eo
                        co = [co[0], co[1], 2000 + fid] if co[0] == "O" else co
                        keyk = None
                        t = own[i][1:]
                        # the key that reaches the tuple: order key, else mirrored eq key
                        if t[2][0] == "K":
                            keyk = int(t[2][1:])
                        elif t[2] == "N" and t[1][0] == "K":
                            keyk = int(t[1][1:])
                        tgt = fid if keyk is None else 100 * (keyk + 1) + fid
                        script[tgt] = [eo, co]
                        if keyk is not None:
                            script[fid] = [["F"], ["T"] if co != ["T"] else ["F"]]
                        xv.append(["s", fid])
                        r = rng.random()
                        if r < 0.3:
                            yv.append(["s", fid])
                        elif r < 0.7:
                            yv.append(["s", fid + 1])
                        else:
                            yv.append(["i", rng.randint(-1, 1)])
                    items.append(["probe", 0, xv, ["inst", 0, yv]])
                out.append({"chain": [rand_layer(rng, own)], "script": script, "items": items})
    return out


def falsy_cases(rng, tier):
    """None, '' and 0 among the values of order fields whose key functions accept them (keys 0..3 treat
    them like 0, 8 sends them to 1, 7 sends 0 to None); un-keyed None / '' make the comparison raise
    TypeError, which the model predicts; falsy callable objects as order keys."""
    out = []
    pool = [("N", "N", "N"), ("N", "N", "K0"), ("N", "N", "K3"), ("N", "N", "K7"), ("N", "N", "K8"),
            ("N", "K8", "N"), ("K7", "N", "N"), ("N", "K7", "K8"), ("N", "N", "Q100"), ("N", "Q101", "N"),
            ("Q102", "N", "N"), ("N", "K8", "Q101"), ("N", "N", "F")]
    dom1 = [["o"], ["e"], ["i", 0], ["i", 1], ["i", -1]]
    dom2 = [["o"], ["i", 0], ["i", 1]]
    for t in pool:
        out.append({"chain": [rand_layer(rng, [[S.NAMES[0]] + list(t)])], "script": {},
                    "items": [["allv", 0, dom1]]})
    pairs = list(itertools.product(pool, repeat=2))
    rng.shuffle(pairs)
    for t1, t2 in pairs[:(20 if tier == "quick" else len(pairs))]:
        layer = rand_layer(rng, [[S.NAMES[0]] + list(t1), [S.NAMES[1]] + list(t2)])
        out.append({"chain": [layer], "script": {}, "items": [["allv", 0, dom2]]})
    return out


def wide_cases(rng, tier):
    out = []
    for _ in range(30 if tier == "quick" else 300):
        k = rng.choice([4, 5])
        own = rand_own(rng, S.NAMES[:k])
        items = []
        for _ in range(30):
            xv = rand_vals(rng, k)
            yv = [v if rng.random() < 0.75 else ["i", rng.randint(-1, 1)] for v in xv]
            items.append(["probe", 0, xv, ["inst", 0, yv]])
        layer = rand_layer(rng, own, p_no=0.05)
        items = S.compact(items)
        for j in range(0, len(items), 15):
            out.append({"chain": [layer], "script": {}, "items": items[j:j + 15]})
    return out


TRI_ARGS = [None, "N", "T", "F"]


def decide_inputs():
    for cmp, eq, order in itertools.product(TRI_ARGS, repeat=3):
        for auto in (None, True, False):
            for oe, oo in itertools.product((False, True), repeat=2):
                yield {"kind": "decide", "api": "s", "cmp": cmp, "eq": eq, "order": order, "auto": auto,
                       "own_eq": oe, "own_order": oo}
    for eq, order in itertools.product(TRI_ARGS, repeat=2):
        for auto in (None, True, False):
            for oe, oo in itertools.product((False, True), repeat=2):
                yield {"kind": "decide", "api": "d", "cmp": None, "eq": eq, "order": order, "auto": auto,
                       "own_eq": oe, "own_order": oo}


def generate(tier, seed):
    rng = random.Random(seed)
    cases = [defaults_case({"kind": "defaults", "api": "s"}), defaults_case({"kind": "defaults", "api": "d"})]
    cases += [decide_case(i) for i in decide_inputs()]
    for c, e, o in itertools.product(S.FIELD_VALUES, repeat=3):
        cases.append(field_case({"kind": "field", "api": "s", "cmp": c, "eq": e, "order": o}))
    for e, o in itertools.product(S.FIELD_VALUES, repeat=2):
        cases.append(field_case({"kind": "field", "api": "d", "cmp": "N", "eq": e, "order": o}))
    for inp in (sweep_cases(rng, tier) + scripted_cases(rng, tier) + chain_cases(rng, tier) + wide_cases(rng, tier)
                + falsy_cases(rng, tier)):
        cases.append(chain_case(inp))
    return cases


def field_case(inp):
    c = S.field_case({k: v for k, v in inp.items() if k != "kind"})
    return Case(c.term, dict(inp), c.seen, sig=c.sig, nontrivial=True, key=repr(inp))


def rerun(inp):
    if inp.get("kind") == "field":
        return field_case(inp)
    if inp.get("kind") == "decide":
        return decide_case(inp)
    if inp.get("kind") == "defaults":
        return defaults_case(inp)
    return chain_case(inp)


def F25_C09_falsy_order_key():
    """repair cb57cf9: an order / cmp key that is a callable object with a False truth value is applied."""
    for key in S._falsy_keys():
        for deco, kw in ((attr.s, {}), (attrs.define, {"order": True})):
            for how in ("order", "cmp"):
                C = deco(**kw)(type("C", (), {"a": attr.ib(**{how: key})}))
                if attr.fields(C).a.order_key is not key:
                    return "%s=%s: Attribute.order_key is %r" % (how, type(key).__name__,
                                                                  attr.fields(C).a.order_key)
                # key is abs: -2 orders above 1, and -1 ties with 1
                if not (C(1) < C(-2)) or C(-2) < C(1) or not (C(-1) <= C(1)) or not (C(1) >= C(-1)) or C(-1) > C(1):
                    return "%s=%s under %s: key not applied by the ordering methods" % (
                        how, type(key).__name__, deco.__name__)
    return None


def corpus():
    return [("F25_C09_falsy_order_key", S._safe(F25_C09_falsy_order_key))] + \
           [(k, S._safe(f)) for k, f in S._shared_corpus("_C09_") if k != "F25_C09_falsy_order_key"]


def EXHAUSTIVE(tier):
    return False


def distribution(cases):
    from collections import Counter
    kinds, depth = Counter(), Counter()
    probes = pairs = 0
    for c in cases:
        k = c.inp.get("kind")
        if k:
            kinds[k] += 1
            continue
        kinds["chain" if len(c.inp["chain"]) > 1 else ("scripted" if c.inp.get("script") else "single")] += 1
        depth[len(c.inp["chain"])] += 1
        if isinstance(c.seen, dict) and c.seen.get("def") == "ok":
            for o in c.seen["outs"]:
                if o[0] == "probe":
                    probes += 1
                else:
                    pairs += len(o[1]) // 2
    return {"case_kinds": dict(kinds), "chain_depth": dict(depth), "probes": probes,
            "coded_instance_pairs": pairs}
