"""C04 - hashability decision table, hash inputs, hash caching.  Real-side driver + case generator.

Three kinds of cases (see coq/theories/C04/Corr.v):
  A  one decorator configuration -> exception class of the decorator | provenance of __hash__ in the
     class __dict__ + what hash(cls()) did
  M  one class with generated __hash__, all instances over a small value domain -> ordered pairs that
     compare equal, hash values as a partition
  H  one class, a history of hash / copy / deepcopy / pickle / evolve / assignment / fresh-instance
     operations -> per hash() call the partition label and the fields whose values were hashed / keyed
"""
from __future__ import annotations

import ast
import copy
import itertools
import linecache
import os
import pickle
import random
import sys
import types

import attr
import attrs

from . import vlib
from .driver import Case
from .vlib import b, lst, opt

PROP = "C04"
HEADER = "From Attrs Require Import Base C04.Model C04.Corr."
CASE_TYPE = "case"
CHECK = "check_case"
MODEL = "model_of"
RULE = ("A-cases: decorator configurations api in {attr.s, define, frozen} x auto_detect x auto_exc x slots x "
        "eq/cmp in {unset,T,F} x hash x unsafe_hash in {unset,T,F} (+ a non-bool in the malformed stream) x frozen x "
        "own __hash__ x own {__eq__,__ne__} (a fresh function, or the base class's own object re-bound in the body) x field x with/without an eq key (seeded) x cache_hash x init in {default, init=False, own __init__} x base class "
        "in {object, plain class with __hash__, Exception, BaseException, attrs bases: frozen / frozen+cache_hash / unsafe_hash / "
        "unsafe_hash+cache_hash / unhashable / eq=False / frozen caching exception / hashable exception / define-frozen, "
        "each dict and slotted}; thorough = the full product over 7 base kinds for attr.s and define plus seeded random "
        "configurations over everything; quick = every row of the decision-relevant product (api x auto_detect x "
        "auto_exc x eq x hash x unsafe_hash x frozen x own __hash__ x own __eq__/__ne__ x (frozen base, exception "
        "base)) with the remaining dimensions drawn from the seed, plus seeded random configurations. "
        "M-cases: classes over per-field hash in {None,T,F} x eq in {T,F,key0,key1, and FALSY callable objects for "
        "key0/key1: callable empty dict subclass / __bool__ False / __len__ 0; keys passed as eq= or cmp=} (all 18 "
        "one-field classes, all 144 two-field classes over truthy keys plus all 180 two-field classes with a falsy key, "
        "random three-field classes) x cache_hash x frozen x slots x api x inheritance split x class-level eq in {generated, eq=False, own "
        "__eq__ auto-detected} (unsafe_hash=True); observed besides == pairs and hash partition: which fields advertise "
        "an eq_key; all "
        "instances over {0,1,2}^k, all ordered pairs.  H-cases: the same classes, fixed histories (repeat, copy, "
        "deepcopy, pickle, evolve, assignment, fresh equal instance) and seeded random histories up to length 9. "
        "P-cases: the same classes with an __attrs_post_init__ that runs a program of hash(self) / object.__setattr__ "
        "of a field (hash-then-assign, assign only, assign-then-hash, ...) followed by hash / copy / deepcopy / pickle / "
        "assignment histories; observed: whether construction raised, every hash as for H-cases. "
        "distinct = distinct (kind, input); non-trivial = A: not the all-default configuration; M: at least two "
        "instances; H: at least one hash() and one other operation")
EXTRA_TRUSTED = [
    "CPython: type() puts __hash__ = None into a class namespace that defines __eq__ without __hash__; hash(tuple) "
    "calls hash() exactly once on every element; copy.copy / copy.deepcopy / pickle use __reduce_ex__, "
    "__getstate__/__setstate__ and __dict__ as documented (the model's OCopy/ODeep/OPickle rules stand for them)",
    "the type salt hash(\"<attrs generated hash module.qualname>\") is treated as an opaque per-class constant",
]
ASSUMPTIONS = [
    "field values are hashable and their __eq__/__hash__ are consistent (element-level contract); eq-key functions "
    "are pure",
    "the legacy row (effective unsafe_hash/hash=False with eq on) is outside the property; the model still follows "
    "the code there (untouched; a slotted build gets __hash__ = None from type())",
    "the own __init__ of a configuration calls the base class's __init__",
]

A = attr._make  # only for reading source paths

# --------------------------------------------------------------------------------------
# pre_build: signature defaults extracted from the source (fail-closed)

_CONST_PARAMS = ["auto_detect", "auto_exc", "slots", "frozen", "cache_hash", "eq", "hash", "unsafe_hash", "init"]


def _const(node):
    if isinstance(node, ast.Constant) and (node.value is None or isinstance(node.value, bool)):
        return node.value
    raise vlib.Infra("C04 constants: default is not a True/False/None literal: %s" % ast.dump(node))


def _defaults_of(tree, fname):
    for n in tree.body:
        if isinstance(n, ast.FunctionDef) and n.name == fname:
            out = {}
            pos = n.args.posonlyargs + n.args.args
            for a_, d in zip(pos[len(pos) - len(n.args.defaults):], n.args.defaults):
                out[a_.arg] = d
            for a_, d in zip(n.args.kwonlyargs, n.args.kw_defaults):
                if d is not None:
                    out[a_.arg] = d
            return out
    raise vlib.Infra("C04 constants: def %s not found" % fname)


def _coq_ob(v):
    return "None" if v is None else "(Some %s)" % b(v)


def _is_name(n, name):
    return isinstance(n, ast.Name) and n.id == name


def _is_none(n):
    return isinstance(n, ast.Constant) and n.value is None


def _mentions_eq_key(node):
    return any(isinstance(m, ast.Attribute) and m.attr == "eq_key" for m in ast.walk(node))


def _classify_presence_test(node):
    """Classifies one `if` statement that branches on a field's eq key.  Recognised (X any name):
         if X.eq_key:              / if not X.eq_key:            -> KTruthy
         if X.eq_key is not None:  / if X.eq_key is None:        -> KIsNotNone
    and the branch that goes on to USE the key (mentions .eq_key) must be the one in which the key is present
    (body for the positive forms; else-branch or the code after an early `continue`/`return` for the negated
    forms).  Anything else -> None (untranslatable)."""
    def is_key(n):
        return isinstance(n, ast.Attribute) and n.attr == "eq_key" and isinstance(n.value, ast.Name)
    t = node.test
    kind = positive = None
    if is_key(t):
        kind, positive = "KTruthy", True
    elif isinstance(t, ast.UnaryOp) and isinstance(t.op, ast.Not) and is_key(t.operand):
        kind, positive = "KTruthy", False
    elif (isinstance(t, ast.Compare) and is_key(t.left) and len(t.ops) == 1 and _is_none(t.comparators[0])
          and isinstance(t.ops[0], (ast.Is, ast.IsNot))):
        kind, positive = "KIsNotNone", isinstance(t.ops[0], ast.IsNot)
    if kind is None:
        return None
    body_uses = any(_mentions_eq_key(st) for st in node.body)
    else_uses = any(_mentions_eq_key(st) for st in node.orelse)
    if positive and body_uses and not else_uses:
        return kind
    if not positive and not body_uses:
        return kind
    return None


def _module_functions(make):
    return {n.name: n for n in make.body if isinstance(n, ast.FunctionDef)}


def _with_callees(fn, fns, depth=3):
    """`fn` and the module-level functions it calls by name (helpers extracted from it), transitively"""
    seen, todo = {fn.name: fn}, [(fn, 0)]
    while todo:
        f, d = todo.pop()
        if d >= depth:
            continue
        for c in ast.walk(f):
            if isinstance(c, ast.Call) and isinstance(c.func, ast.Name) and c.func.id in fns \
                    and c.func.id not in seen:
                seen[c.func.id] = fns[c.func.id]
                todo.append((fns[c.func.id], d + 1))
    return list(seen.values())


def _site_test(name, fns):
    """The presence test a generator function (or a helper it calls) applies to a field's eq key: every `if`
    that branches on `.eq_key` must classify, and all must agree; otherwise None (untranslatable)."""
    if name not in fns:
        return None
    sites = [n for f in _with_callees(fns[name], fns) for n in ast.walk(f)
             if isinstance(n, (ast.If, ast.IfExp, ast.While)) and _mentions_eq_key(n.test)]
    kinds = {(_classify_presence_test(n) if isinstance(n, ast.If) else None) for n in sites}
    return kinds.pop() if len(kinds) == 1 else None


def _norm_test(make):
    """Attribute.__init__: the expression handed to _determine_attrib_eq_order for eq:
    `eq_key or eq` -> KTruthy ; `eq if eq_key is None else eq_key` (or mirrored) -> KIsNotNone ; else None"""
    for n in make.body:
        if isinstance(n, ast.ClassDef) and n.name == "Attribute":
            for f in n.body:
                if isinstance(f, ast.FunctionDef) and f.name == "__init__":
                    calls = [c for c in ast.walk(f) if isinstance(c, ast.Call)
                             and _is_name(c.func, "_determine_attrib_eq_order")]
                    if len(calls) != 1 or len(calls[0].args) < 2:
                        return None
                    e = calls[0].args[1]
                    if (isinstance(e, ast.BoolOp) and isinstance(e.op, ast.Or) and len(e.values) == 2
                            and _is_name(e.values[0], "eq_key") and _is_name(e.values[1], "eq")):
                        return "KTruthy"
                    if isinstance(e, ast.IfExp) and isinstance(e.test, ast.Compare) and len(e.test.ops) == 1 \
                            and _is_name(e.test.left, "eq_key") and _is_none(e.test.comparators[0]):
                        if isinstance(e.test.ops[0], ast.Is) and _is_name(e.body, "eq") and _is_name(e.orelse, "eq_key"):
                            return "KIsNotNone"
                        if isinstance(e.test.ops[0], ast.IsNot) and _is_name(e.body, "eq_key") and _is_name(e.orelse, "eq"):
                            return "KIsNotNone"
                    if isinstance(e, ast.IfExp) and _is_name(e.test, "eq_key") and _is_name(e.body, "eq_key") \
                            and _is_name(e.orelse, "eq"):
                        return "KTruthy"
                    return None
    return None


INIT_TAIL_READ = [None]


def _init_tail_events(make):
    """The order in which _attrs_to_init_script emits the call of __attrs_post_init__ and the initialisation
    of the hash cache field: list of "TPost"/"TCache" in emission order, or None when the shape is not the
    straight-line `lines.append(...)` sequence (possibly under plain `if`s) this reader understands."""
    fns = _module_functions(make)
    fn = fns.get("_attrs_to_init_script")
    if fn is None:
        return None

    def kind(arg):
        src = ast.unparse(arg)
        if "__attrs_post_init__" in src:
            return "TPost"
        if (isinstance(arg, ast.Name) and arg.id == "init_hash_cache") or "_HASH_CACHE_FIELD" in src \
                or "_attrs_cached_hash" in src:
            return "TCache"
        return None

    events = []

    def visit(stmts, in_loop):
        for st in stmts:
            if isinstance(st, (ast.For, ast.While, ast.FunctionDef, ast.With, ast.Try)):
                sub = [n for n in ast.walk(st) if isinstance(n, ast.Call)]
                if any(kind(a_) for c in sub for a_ in c.args):
                    raise _Untranslatable()
                continue
            if isinstance(st, ast.If):
                visit(st.body, in_loop)
                visit(st.orelse, in_loop)
                continue
            calls = [n for n in ast.walk(st) if isinstance(n, ast.Call)]
            for c in calls:
                ks = [kind(a_) for a_ in c.args]
                if any(ks):
                    if not (isinstance(c.func, ast.Attribute) and c.func.attr == "append"
                            and _is_name(c.func.value, "lines") and len(c.args) == 1 and isinstance(st, ast.Expr)
                            and st.value is c):
                        raise _Untranslatable()
                    events.append(ks[0])

    try:
        visit(fn.body, False)
    except _Untranslatable:
        return None
    if events.count("TPost") != 1 or "TCache" not in events:
        return None
    return events


class _Untranslatable(Exception):
    pass


KEY_TESTS_READ = [None]   # what the last pre_build() read (for the evidence)


def _key_test_lines(make):
    fns = _module_functions(make)
    tests = (_norm_test(make), _site_test("_make_eq_script", fns), _site_test("_make_hash_script", fns))
    ok = all(t is not None for t in tests)
    KEY_TESTS_READ[0] = list(tests)
    # Fail closed: if any site has a shape the reader does not know, NOTHING is claimed about the source
    # (src_key_tests_read = None: the tie lemmas are then trivially true, the evidence says "unavailable")
    # and the model is evaluated with the tests the property asks for (every given key is applied).
    return ["(* how Attribute.__init__ / _make_eq_script / _make_hash_script test for the presence of an eq key;",
            "   None = some site has a shape the reader does not recognise (tie unavailable) *)",
            "From Attrs Require Import C04.Model.",
            "Definition src_key_tests_read : option ktests := %s."
            % ("Some (KT %s %s %s)" % tests if ok else "None"),
            "Definition src_key_tests : ktests :=",
            "  match src_key_tests_read with Some t => t | None => KT KIsNotNone KIsNotNone KIsNotNone end."] \
        + _init_tail_lines(make)


def _init_tail_lines(make):
    ev = _init_tail_events(make)
    INIT_TAIL_READ[0] = ev
    return ["(* order in which the generated __init__ calls __attrs_post_init__ and initialises the hash cache;",
            "   None = shape not recognised (tie unavailable; the model then uses the order the property needs) *)",
            "Definition src_init_tail_read : option (list tail_ev) := %s."
            % ("Some [%s]" % "; ".join(ev) if ev else "None"),
            "Definition src_init_tail : list tail_ev :=",
            "  match src_init_tail_read with Some t => t | None => [TPost; TCache] end."]


def pre_build():
    src = os.path.join(vlib.REPO, "src", "attr")
    make = ast.parse(open(os.path.join(src, "_make.py")).read())
    ng = ast.parse(open(os.path.join(src, "_next_gen.py")).read())
    d_attrs = _defaults_of(make, "attrs")
    d_define = _defaults_of(ng, "define")
    lines = ["(* generated by harness/c04.py:pre_build from %s - do not edit *)" % "src/attr/{_make,_next_gen}.py",
             "From Coq Require Import List.", "Import ListNotations.",
             "Definition src_attrs : list (option bool) :=", "  ["]
    items = []
    for p in _CONST_PARAMS + ["cmp"]:
        if p not in d_attrs:
            raise vlib.Infra("C04 constants: attrs() has no parameter %s with a default" % p)
        items.append("   %s (* %s *)" % (_coq_ob(_const(d_attrs[p])), p))
    lines.append(";\n".join(items) + "].")
    lines += ["Definition src_define : list (option bool) :=", "  ["]
    items = []
    for p in _CONST_PARAMS:
        if p not in d_define:
            raise vlib.Infra("C04 constants: define() has no parameter %s with a default" % p)
        items.append("   %s (* %s *)" % (_coq_ob(_const(d_define[p])), p))
    lines.append(";\n".join(items) + "].")
    # frozen = partial(define, frozen=True, on_setattr=None)
    part = None
    for n in ng.body:
        if (isinstance(n, ast.Assign) and len(n.targets) == 1 and isinstance(n.targets[0], ast.Name)
                and n.targets[0].id == "frozen"):
            part = n.value
    if not (isinstance(part, ast.Call) and isinstance(part.func, ast.Name) and part.func.id == "partial"
            and len(part.args) == 1 and isinstance(part.args[0], ast.Name)):
        raise vlib.Infra("C04 constants: `frozen = partial(<fn>, ...)` not found in _next_gen.py")
    kws = {k.arg: k.value for k in part.keywords}
    over = []
    for p in _CONST_PARAMS:
        over.append("   %s (* %s *)" % ("None" if p not in kws else "(Some %s)" % _coq_ob(_const(kws[p])), p))
    lines += ["(* keyword overrides of the partial: None = not overridden *)",
              "Definition src_frozen_partial_of_define : bool := %s." % b(part.args[0].id == "define"),
              "Definition src_frozen_overrides : list (option (option bool)) :=", "  [",
              ";\n".join(over) + "]."]
    lines += _key_test_lines(make)
    text = "\n".join(lines) + "\n"
    path = os.path.join(vlib.THEORIES, "Gen", "C04_consts.v")
    old = open(path).read() if os.path.exists(path) else None
    if old != text:
        with open(path, "w") as fh:
            fh.write(text)


# --------------------------------------------------------------------------------------
# Part A - decorator configurations

SYN = "verif_c04_syn"
_serial = itertools.count()


def _user_hash(self):
    return 7


def _user_eq(self, other):
    return self is other


def _user_ne(self, other):
    return self is not other


def _akey(v):
    """eq key of field x in A-configurations with xkey"""
    return v


class _AFalsyKey(list):
    """a falsy key callable (xkey == "f")"""

    def __call__(self, v):
        return v


_akey_f = _AFalsyKey()


def _plain_hash(self):
    return 5


class _Plain:
    __hash__ = _plain_hash


_bases = {}
_base_errors = []

# name -> (factory, b_frozen, b_exc, b_hash)
_BASE_SPECS = {
    "obj": (lambda sl: object, False, False, "BHObj"),
    "plain": (lambda sl: _Plain, False, False, "BHObj"),
    "exc": (lambda sl: Exception, False, True, "BHObj"),
    "bexc": (lambda sl: BaseException, False, True, "BHObj"),
    "fz": (lambda sl: _abase(object, sl, frozen=True), True, False, "BHGen"),
    "fzc": (lambda sl: _abase(object, sl, frozen=True, cache_hash=True), True, False, "BHCache"),
    "uh": (lambda sl: _abase(object, sl, unsafe_hash=True), False, False, "BHGen"),
    "uhc": (lambda sl: _abase(object, sl, unsafe_hash=True, cache_hash=True), False, False, "BHCache"),
    "un": (lambda sl: _abase(object, sl), False, False, "BHNone"),
    "eqf": (lambda sl: _abase(object, sl, eq=False), False, False, "BHObj"),
    "xfzc": (lambda sl: _abase(Exception, sl, frozen=True, cache_hash=True), True, True, "BHCache"),
    "xuh": (lambda sl: _abase(Exception, sl, unsafe_hash=True), False, True, "BHGen"),
    "dfz": (lambda sl: _dbase(sl), True, False, "BHGen"),
}
MUTINIT_BASES = {"uh", "uhc", "un", "eqf", "xuh"}   # non-frozen attrs bases: generated __init__ uses plain setattr


def _cslot(cf):
    """the base is slotted and caching: it declares the slot _attrs_cached_hash"""
    return _BASE_SPECS[cf["base"]][3] == "BHCache" and bool(cf["bsl"])


CORE_BASES = ["obj", "exc", "fz", "fzc", "uhc", "un", "xfzc"]
ALL_BASES = list(_BASE_SPECS)
# one representative per (frozen base, exception base)
DECISION_BASES = {(False, False): ["obj", "plain", "uhc", "un", "uh", "eqf"], (False, True): ["exc", "xuh", "bexc"],
                  (True, False): ["fz", "fzc", "dfz"], (True, True): ["xfzc"]}


def _abase(parent, sl, **kw):
    name = "AB%d" % next(_serial)
    c = type(name, (parent,), {"bx": attr.ib(default=0), "__module__": SYN})
    return attr.s(slots=sl, **kw)(c)


def _dbase(sl):
    name = "DB%d" % next(_serial)
    c = type(name, (object,), {"__annotations__": {"bx": int}, "bx": 0, "__module__": SYN})
    return attrs.define(frozen=True, slots=sl)(c)


def _base(name, sl):
    k = (name, bool(sl))
    if k not in _bases:
        try:
            _bases[k] = _BASE_SPECS[name][0](bool(sl))
        except Exception as e:  # a base that cannot be built is itself a discrepancy (reported in extra())
            _base_errors.append((k, "%s: %s" % (type(e).__name__, e)))
            _bases[k] = None
    return _bases[k]


def _own_init(base):
    def __init__(self, x=0):
        base.__init__(self)
        object.__setattr__(self, "x", x)
    return __init__


_API = {"S": attr.s, "D": attrs.define, "F": attrs.frozen}
_HARG = {None: "HN", True: "HT", False: "HF", "X": "HX"}
_HVAL = {None: None, True: True, False: False, "X": 1}

# configuration = dict with keys:
#  api, ad, ax, sl, cmp, eq, frozen  : None | bool  (None = argument not passed)
#  hash, unsafe : None | bool | "X"
#  ohash, oeq, one, cache, oinit : bool ;  init : None | bool ;  base : name ; bsl : bool
A_KEYS = ["api", "ad", "ax", "sl", "cmp", "eq", "hash", "unsafe", "frozen", "ohash", "oeq", "one", "cache",
          "init", "oinit", "base", "bsl", "xkey"]


def is_generated(fn):
    if not isinstance(fn, types.FunctionType):
        return False
    doc = getattr(fn, "__doc__", None) or ""
    return doc.startswith("Method generated by attrs") or fn.__code__.co_filename.startswith("<attrs generated")


def run_A(cf):
    """Builds the class with the real decorator and observes.  Returns the `seen` tuple:
    ("raise", cls) | ("class", entry, probe)."""
    base = _base(cf["base"], cf["bsl"])
    if base is None:
        return ("other", "base could not be built")
    name = "C%d" % next(_serial)
    ns = {"__module__": SYN}
    xeq = {"eq": _akey_f} if cf.get("xkey") == "f" else {"eq": _akey} if cf.get("xkey") else {}
    if cf["api"] == "S":
        ns["x"] = attr.ib(default=0, **xeq)
    else:
        ns["__annotations__"] = {"x": int}
        ns["x"] = attrs.field(default=0, **xeq) if xeq else 0
    # "base": the body re-binds the very object the base class provides (`__hash__ = Base.__hash__`), which
    # is an own definition as far as the class dict is concerned
    if cf["ohash"]:
        ns["__hash__"] = base.__hash__ if cf["ohash"] == "base" else _user_hash
    if cf["oeq"]:
        ns["__eq__"] = base.__eq__ if cf["oeq"] == "base" else _user_eq
    if cf["one"]:
        ns["__ne__"] = _user_ne
    if cf["oinit"]:
        ns["__init__"] = _own_init(base)
    cls0 = type(name, (base,), ns)
    kw = {}
    for key, arg in (("ad", "auto_detect"), ("ax", "auto_exc"), ("sl", "slots"), ("cmp", "cmp"), ("eq", "eq"),
                     ("frozen", "frozen"), ("init", "init")):
        if cf[key] is not None:
            kw[arg] = cf[key]
    if cf["hash"] is not None:
        kw["hash"] = _HVAL[cf["hash"]]
    if cf["unsafe"] is not None:
        kw["unsafe_hash"] = _HVAL[cf["unsafe"]]
    if cf["cache"]:
        kw["cache_hash"] = True
    try:
        cls = _API[cf["api"]](**kw)(cls0)
    except TypeError:
        return ("raise", "ETypeError")
    except ValueError:
        return ("raise", "EValueError")
    except Exception as e:
        return ("other", type(e).__name__)
    d = cls.__dict__
    if "__hash__" not in d:
        # "untouched": nothing of its own, the attribute resolves to the base's
        entry = "EAbsent" if cls.__hash__ is base.__hash__ else "?"
    else:
        h = d["__hash__"]
        own = h is _user_hash or (cf["ohash"] == "base" and h is base.__hash__)
        entry = "ENone" if h is None else "EUser" if own else "EGen" if is_generated(h) else "?"
    if entry == "?":
        return ("other", "unclassifiable __hash__ entry")
    if entry == "EGen" and next(_tie_tick) % _TIE_EVERY[0] == 0:
        # the class as the B-model sees it: inherited bx (if the base is an attrs class) then x; the frozen
        # flag handed to _make_hash_script is is_frozen
        fl = (["(F None EqT)"] if len(cls.__attrs_attrs__) == 2 else []) + \
             ["(F None %s)" % ("(EqK K0f)" if cf.get("xkey") == "f" else "(EqK K0)" if cf.get("xkey") else "EqT")]
        _collect_script(cls, "(Cl 0 0%%Z %s %s %s %s true)" % (
            lst(fl), b(cf["cache"]), b(_is_frozen_cf(cf)), b(_slots_cf(cf))))
    try:
        inst = cls()
        if "__init__" not in d and not cf["oinit"] and hasattr(inst, "__attrs_init__"):
            inst.__attrs_init__()
    except attr.exceptions.FrozenInstanceError:
        # the base's generated __init__ assigned on an instance of a frozen subclass
        return ("class", entry, "PNotProbed", False)
    except Exception as e:
        return ("other", "cannot construct: " + type(e).__name__)
    try:
        r = hash(inst)
        probe = "PReturns" if isinstance(r, int) else "POther"
    except TypeError:
        probe = "PTypeError"
    except AttributeError:
        probe = "PAttributeError"
    except Exception:
        probe = "POther"
    ini = d.get("__init__")
    return ("class", entry, probe, bool(ini is not None and is_generated(ini)))


def enc_cfg(cf):
    bs = _BASE_SPECS[cf["base"]]
    return "(Cf Api%s %s %s %s %s %s %s %s %s %s %s %s %s %s %s (B %s %s %s %s))" % (
        cf["api"], opt(cf["ad"], b), opt(cf["ax"], b), opt(cf["sl"], b), opt(cf["cmp"], b), opt(cf["eq"], b),
        _HARG[cf["hash"]], _HARG[cf["unsafe"]], opt(cf["frozen"], b), b(cf["ohash"]), b(cf["oeq"]), b(cf["one"]),
        b(cf["cache"]), opt(cf["init"], b), b(cf["oinit"]), b(bs[1]), b(bs[2]), bs[3],
        b(cf["base"] in MUTINIT_BASES))


def enc_seen_A(seen):
    if seen[0] == "raise":
        return "(ORaise %s)" % seen[1]
    if seen[0] == "class":
        return "(OClass %s %s)" % (seen[1], seen[2])
    return "OOther"


def _spec_kind(cf):
    """The property's decision list (DESIGN 7 (v)), written from the property text, NOT from the code; used
    only to keep the known-finding matcher narrow."""
    dflt = cf["api"] != "S"
    ad = dflt if cf["ad"] is None else cf["ad"]
    ax = dflt if cf["ax"] is None else cf["ax"]
    fz = (cf["api"] == "F") if cf["frozen"] is None else cf["frozen"]
    bs = _BASE_SPECS[cf["base"]]
    if cf["cmp"] is not None and cf["eq"] is not None:
        return "error"
    req = cf["cmp"] if cf["cmp"] is not None else cf["eq"]
    eq_on = req if req is not None else not (ad and (cf["oeq"] or cf["one"]))
    eff = cf["unsafe"] if cf["unsafe"] is not None else cf["hash"]
    if ax and bs[2]:
        return "untouched"
    if eff is True:
        return "generated"
    if eff is False:
        return "untouched"
    if eff is not None:
        return "error"
    if (ad and (cf["ohash"] or cf["oeq"])) or not eq_on:
        return "untouched"
    return "generated" if (fz or bs[1]) else "unhashable"


def _is_frozen_cf(cf):
    fz = (cf["api"] == "F") if cf["frozen"] is None else cf["frozen"]
    return bool(fz or _BASE_SPECS[cf["base"]][1])


def _slots_cf(cf):
    return bool((cf["api"] != "S") if cf["sl"] is None else cf["sl"])


def _frozen_dict(cf):
    return _is_frozen_cf(cf) and not _slots_cf(cf)


_tie_tick = itertools.count()
_TIE_EVERY = [1]


_DEFAULT_CF = dict(api="S", ad=None, ax=None, sl=None, cmp=None, eq=None, hash=None, unsafe=None, frozen=None,
                   ohash=False, oeq=False, one=False, cache=False, init=None, oinit=False, base="obj", bsl=False,
                   xkey=False)


def mk_A(cf):
    seen = run_A(cf)
    term = "(CA %s %s)" % (enc_cfg(cf), enc_seen_A(seen))
    bs = _BASE_SPECS[cf["base"]]
    # facts about the case for the known-findings matcher (K1): nothing of its own in the class dict,
    # the hash resolved from a caching attrs base, hash() raised AttributeError
    sig = {}
    if seen[0] == "class":
        sig = {"case": "A", "entry": seen[1], "probe": seen[2], "base_hash": bs[3],
               "own_init_generated": seen[3], "property_says": _spec_kind(cf),
               "own_cache_hash": cf["cache"], "base_cache_slot": _cslot(cf),
               "frozen_dict_build": _frozen_dict(cf)}
    inp = {"t": "A", "cf": [cf[k] for k in A_KEYS]}
    triv = all(cf[k] == _DEFAULT_CF[k] for k in A_KEYS)
    return Case(term, inp, list(seen), sig=sig, nontrivial=not triv, key="A" + repr(inp["cf"]))


def _passed(api, key, val, rng, p_explicit):
    """Argument value to pass so that the resolved value is `val`: None (not passed) when it equals the API
    default, except with probability p_explicit."""
    dflt = {"ad": api != "S", "ax": api != "S", "sl": api != "S", "frozen": api == "F"}[key]
    if val == dflt and not (rng is not None and rng.random() < p_explicit):
        return None
    return val


REBIND_BASES = {"obj", "plain", "exc", "bexc", "eqf"}
INIT_SPECS = [(False, None, False), (True, None, False), (True, False, False), (True, None, True)]  # cache, init, oinit
OWN_CMP = [(False, False), (True, False), (False, True)]


def gen_A(tier, rng):
    out = []
    tri = (None, True, False)
    if tier == "thorough":
        for api, ad, ax, sl in itertools.product("SD", (False, True), (False, True), (False, True)):
            for eq, h, u, fz, oh, (oe, on), (ca, ini, oi), base in itertools.product(
                    tri, tri, tri, (False, True), (False, True), OWN_CMP, INIT_SPECS, CORE_BASES):
                out.append(dict(api=api, ad=_passed(api, "ad", ad, None, 0), ax=_passed(api, "ax", ax, None, 0),
                                sl=_passed(api, "sl", sl, None, 0), cmp=None, eq=eq, hash=h, unsafe=u,
                                frozen=_passed(api, "frozen", fz, None, 0), ohash=oh, oeq=oe, one=on, cache=ca,
                                init=ini, oinit=oi, base=base, bsl=sl, xkey=rng.choice((False, True, "f"))))
        n_random = 20000
    else:
        for api, ad, ax in itertools.product("SD", (False, True), (False, True)):
            for eq, h, u, fz, oh, (oe, on), bkey in itertools.product(
                    tri, tri, tri, (False, True), (False, True), OWN_CMP, sorted(DECISION_BASES)):
                # every row without cache_hash (the table entry is observable), a third of them also with it
                specs = [(False,) + rng.choice([(None, False), (None, False), (False, False), (None, True)])]
                if rng.random() < 0.34:
                    specs.append(rng.choice(INIT_SPECS[1:]))
                for ca, ini, oi in specs:
                    sl = rng.random() < 0.5
                    out.append(dict(api=api, ad=_passed(api, "ad", ad, rng, 0.2),
                                    ax=_passed(api, "ax", ax, rng, 0.2), sl=_passed(api, "sl", sl, rng, 0.2),
                                    cmp=None, eq=eq, hash=h, unsafe=u,
                                    frozen=_passed(api, "frozen", fz, rng, 0.2), ohash=oh, oeq=oe, one=on,
                                    cache=ca, init=ini, oinit=oi, base=rng.choice(DECISION_BASES[bkey]),
                                    bsl=rng.random() < 0.5, xkey=rng.choice((False, True, "f"))))
        n_random = 2500
    for _ in range(n_random):
        api = rng.choice("SSDDF")
        cf = dict(api=api)
        for k in ("ad", "ax", "sl", "frozen"):
            cf[k] = rng.choice(tri)
        cf["cmp"] = rng.choice((None, None, None, True, False)) if api == "S" else None
        cf["eq"] = rng.choice(tri)
        malformed = rng.random() < 0.06
        cf["hash"] = rng.choice(tri + (("X",) if malformed else ()))
        cf["unsafe"] = rng.choice(tri + (("X",) if malformed else ()))
        cf["ohash"] = rng.random() < 0.4
        cf["oeq"] = rng.random() < 0.35
        cf["one"] = rng.random() < 0.25
        cf["cache"] = rng.random() < 0.3
        cf["init"] = rng.choice((None, None, True, False))
        cf["oinit"] = rng.random() < 0.3
        cf["base"] = rng.choice(ALL_BASES)
        cf["bsl"] = rng.random() < 0.5
        cf["xkey"] = rng.choice((False, True, "f"))
        out.append(cf)
    # own __hash__ / __eq__ that re-bind the base's object (only below bases whose __hash__ / __eq__ are not
    # attrs-generated, so that provenance stays classifiable)
    for cf in out:
        if cf["base"] in REBIND_BASES:
            if cf["ohash"] and rng.random() < 0.5:
                cf["ohash"] = "base"
            if cf["oeq"] and rng.random() < 0.5:
                cf["oeq"] = "base"
    return out


# --------------------------------------------------------------------------------------
# Part B - hash values and caching

LOG = []
_LOGGING = [False]   # events are recorded only while a hash() call of a history is being observed


class V:
    """A field value: compares and hashes like its integer, records every __hash__ call with the
    field it belongs to."""

    def __init__(self, v, t):
        self.v = v
        self.t = t

    def __eq__(self, other):
        return isinstance(other, V) and self.v == other.v

    def __ne__(self, other):
        return not self.__eq__(other)

    def __hash__(self):
        if _LOGGING[0]:
            LOG.append(("h", self.t))
        return hash(self.v)

    def __repr__(self):
        return "V(%r,%r)" % (self.v, self.t)


def key0(a):
    if _LOGGING[0]:
        LOG.append(("k", a.t))
    return V(a.v % 2, a.t)


def key1(a):
    if _LOGGING[0]:
        LOG.append(("k", a.t))
    return V(0, a.t)


# FALSY key callables: objects that are callable (so attrs accepts them as a key) and whose truth value is
# False - a callable container that is still empty, an object with __bool__ / __len__.
class _FalsyDictKey(dict):
    def __init__(self, fn):
        dict.__init__(self)
        self.fn = fn

    def __call__(self, a):
        return self.fn(a)


class _FalsyBoolKey:
    def __init__(self, fn):
        self.fn = fn

    def __bool__(self):
        return False

    def __call__(self, a):
        return self.fn(a)


class _FalsyLenKey:
    def __init__(self, fn):
        self.fn = fn

    def __len__(self):
        return 0

    def __call__(self, a):
        return self.fn(a)


FALSY_KINDS = {"dict": _FalsyDictKey, "bool": _FalsyBoolKey, "len": _FalsyLenKey}
_FALSY = {(kind, name): ctor(fn) for kind, ctor in FALSY_KINDS.items() for name, fn in (("K0f", key0), ("K1f", key1))}
assert all(callable(k) and not k for k in _FALSY.values())

_EQ = {"T": True, "F": False, "K0": key0, "K1": key1}


def _eq_value(e, cd):
    """the object passed as eq= / cmp= for the field eq spec `e`"""
    if e in ("K0f", "K1f"):
        return _FALSY[(cd.get("fk", "dict"), e)]
    return _EQ[e]


_EQ_COQ = {"T": "EqT", "F": "EqF", "K0": "(EqK K0)", "K1": "(EqK K1)", "K0f": "(EqK K0f)", "K1f": "(EqK K1f)"}
FIELD_CFGS = [(h, e) for h in (None, True, False) for e in ("T", "F", "K0", "K1")]
FIELD_CFGS_FALSY = [(h, e) for h in (None, True, False) for e in ("K0f", "K1f")]

# class description: dict(api "S"|"D", fields [(hash, eq)], cache, frozen, slots, split, bcache, explicit)
#   split = number of leading fields that live in an attrs base class (0 = no base)
#   explicit = pass unsafe_hash=True (always for non-frozen classes)


def _syn_module():
    m = sys.modules.get(SYN)
    if m is None:
        m = types.ModuleType(SYN)
        sys.modules[SYN] = m
    return m


SYNB = "verif_c04_synb"


_POST = {"prog": [], "trace": [], "lab": None}


def _attrs_post_init(self):
    """the __attrs_post_init__ of P-case classes: runs the program in _POST["prog"] on the half-built instance
    (("hash",) = hash(self); ("set", n, v) = object.__setattr__(self, "f<n>", value)) and records what happened"""
    for o in _POST["prog"]:
        if o[0] == "hash":
            LOG.clear()
            _LOGGING[0] = True
            try:
                r = hash(self)
            except Exception as e:
                _POST["trace"].append(["raised", type(e).__name__])
                raise
            finally:
                _LOGGING[0] = False
            ev = list(LOG)
            LOG.clear()
            _POST["trace"].append(["val", _POST["lab"](r), sorted(t for k, t in ev if k == "h"),
                                   sorted(t for k, t in ev if k == "k")])
        else:
            object.__setattr__(self, "f%d" % o[1], V(o[2], o[1]))
            _POST["trace"].append(["done"])


def build_B(cd, post_init=False):
    # a FRESH module object per class description: attrs copies the defining module's namespace into the
    # globals of every generated method, so one ever-growing module would cost quadratic memory
    mod = types.ModuleType(SYNB)
    sys.modules[SYNB] = mod
    fields = cd["fields"]

    def mk(name, parent, idxs, own_eq=False, leaf=False, **kw):
        ns = {"__module__": SYNB}
        if own_eq:
            ns["__eq__"] = _user_eq
        if leaf and post_init:
            ns["__attrs_post_init__"] = _attrs_post_init
        ann = {}
        for i in idxs:
            h, e = fields[i]
            ev = _eq_value(e, cd)
            if cd["api"] == "S":
                # a key may also arrive through cmp= (eq and order key at once)
                via = "cmp" if (cd.get("via_cmp") and e not in ("T", "F")) else "eq"
                ns["f%d" % i] = attr.ib(hash=h, **{via: ev})
            else:
                ann["f%d" % i] = object
                ns["f%d" % i] = attrs.field(hash=h, eq=ev)
        if cd["api"] != "S":
            ns["__annotations__"] = ann
        c0 = type(name, (parent,), ns)
        c = (attr.s if cd["api"] == "S" else attrs.define)(frozen=cd["frozen"], **kw)(c0)
        setattr(mod, name, c)
        return c

    k = len(fields)
    parent = object
    if cd["split"] > 0:
        # "mixed": a dict class below a SLOTTED base (only hash/evolve/assign/fresh histories: copying such
        # hierarchies is C10's K4)
        parent = mk("P%d" % next(_serial), object, range(cd["split"]), unsafe_hash=True,
                    cache_hash=cd["bcache"], slots=cd["slots"] or bool(cd.get("mixed")))
    kw = {"cache_hash": cd["cache"], "slots": cd["slots"]}
    if cd.get("gs"):
        kw["getstate_setstate"] = True
    ceq = cd.get("ceq", "gen")
    if cd["explicit"] or not cd["frozen"] or ceq != "gen":
        kw["unsafe_hash"] = True
    if ceq == "off":      # class-level eq=False: no __eq__ generated, fields keep their eq keys
        kw["eq"] = False
    elif ceq == "own":    # own __eq__ auto-detected: no __eq__ generated
        kw["auto_detect"] = True
    return mk("Q%d" % next(_serial), parent, range(cd["split"], k), own_eq=(ceq == "own"), leaf=True, **kw)


def enc_cls(cd):
    # one class per case: identity and salt are irrelevant there (and large nat literals are unary in Coq)
    return "(Cl 0 0%%Z %s %s %s %s %s)" % (
        lst("(F %s %s)" % (opt(h, b), _EQ_COQ[e]) for h, e in cd["fields"]),
        b(cd["cache"]), b(cd["frozen"]),
        # [slotted] of the model = "the instance state travels through the generated __getstate__/__setstate__":
        # slotted classes, dict classes below a slotted attrs base (they regenerate the pair), getstate_setstate=True
        b(bool(cd["slots"] or cd.get("mixed") or cd.get("gs"))), b(cd.get("ceq", "gen") == "gen"))


def _inst(cls, vals):
    return cls(*[V(v, i) for i, v in enumerate(vals)])


class _Labels:
    def __init__(self):
        self.m = {}

    def __call__(self, h):
        return self.m.setdefault(h, len(self.m))


def run_M(cd, vecs):
    cls = build_B(cd)
    _collect_script(cls, enc_cls(cd))
    insts = [_inst(cls, v) for v in vecs]
    lab = _Labels()
    labels = [lab(hash(x)) for x in insts]
    eqp = [(i, j) for i in range(len(insts)) for j in range(len(insts)) if insts[i] == insts[j]]
    keys = [a_.eq_key is not None for a_ in attr.fields(cls)]
    return {"eq": eqp, "labels": labels, "keys": keys}


def mk_M(cd, vecs):
    try:
        seen = run_M(cd, vecs)
        term = "(CM %s %s %s %s %s)" % (
            enc_cls(cd), lst(lst(str(v) for v in vs) for vs in vecs),
            lst("(%d,%d)" % p for p in seen["eq"]), lst(str(x) for x in seen["labels"]),
            lst(b(x) for x in seen["keys"]))
    except Exception as e:  # the class cannot be built / hashed: show it as a mismatch, never crash
        seen = {"error": "%s: %s" % (type(e).__name__, e)}
        term = "(CM %s %s [] [] [])" % (enc_cls(cd), lst(lst(str(v) for v in vs) for vs in vecs))
    inp = {"t": "M", "cd": cd, "vecs": [list(v) for v in vecs]}
    return Case(term, inp, seen, sig={"case": "M"}, nontrivial=len(vecs) >= 2,
                key="M" + repr((sorted(cd.items()), vecs)))


def run_H(cd, start, ops):
    cls = build_B(cd)
    cur = _inst(cls, start)
    return _apply_ops(cls, cur, ops, _Labels(), [])


def run_P(cd, start, post, ops):
    """construction with a post-init program, then a history (no evolve / fresh: they would construct again)"""
    cls = build_B(cd, post_init=True)
    lab = _Labels()
    _POST["prog"], _POST["trace"], _POST["lab"] = list(post), [], lab
    try:
        try:
            cur = _inst(cls, start)
        except Exception as e:
            seen = list(_POST["trace"])
            if not seen or seen[-1][0] != "raised":
                seen.append(["raised", type(e).__name__])
            return seen
        seen = list(_POST["trace"])
        _POST["prog"] = []          # copy / pickle do not run __init__, but be safe
        return _apply_ops(cls, cur, ops, lab, seen)
    finally:
        _POST["prog"], _POST["trace"], _POST["lab"] = [], [], None


def _apply_ops(cls, cur, ops, lab, seen):
    for o in ops:
        try:
            if o[0] == "hash":
                LOG.clear()
                _LOGGING[0] = True
                try:
                    r = hash(cur)
                finally:
                    _LOGGING[0] = False
                ev = list(LOG)
                LOG.clear()
                seen.append(["val", lab(r), sorted(t for k, t in ev if k == "h"),
                             sorted(t for k, t in ev if k == "k")])
                continue
            if o[0] == "copy":
                cur = copy.copy(cur)
            elif o[0] == "deep":
                cur = copy.deepcopy(cur)
            elif o[0] == "pickle":
                cur = pickle.loads(pickle.dumps(cur, o[1]))
            elif o[0] == "evolve":
                cur = attr.evolve(cur, **{"f%d" % o[1]: V(o[2], o[1])})
            elif o[0] == "set":
                setattr(cur, "f%d" % o[1], V(o[2], o[1]))
            elif o[0] == "fresh":
                cur = _inst(cls, o[1])
            seen.append(["done"])
        except Exception as e:
            seen.append(["raised", type(e).__name__])
    return seen


def enc_op(o):
    if o[0] == "hash":
        return "OHash"
    if o[0] == "copy":
        return "OCopy"
    if o[0] == "deep":
        return "ODeep"
    if o[0] == "pickle":
        return "OPickle"
    if o[0] == "evolve":
        return "(OEvolve %d %d)" % (o[1], o[2])
    if o[0] == "set":
        return "(OSet %d %d)" % (o[1], o[2])
    return "(OFresh %s)" % lst(str(v) for v in o[1])


def enc_hobs(s):
    if s[0] == "val":
        return "(HVal %d %s %s)" % (s[1], lst(str(x) for x in s[2]), lst(str(x) for x in s[3]))
    return "HDone" if s[0] == "done" else "HRaised"


def mk_H(cd, start, ops):
    try:
        seen = run_H(cd, start, ops)
    except Exception as e:
        seen = [["raised", "%s: %s" % (type(e).__name__, e)]]
    term = "(CH %s %s %s %s)" % (enc_cls(cd), lst(str(v) for v in start), lst(enc_op(o) for o in ops),
                                 lst(enc_hobs(s) for s in seen))
    inp = {"t": "H", "cd": cd, "start": list(start), "ops": [list(o) for o in ops]}
    nt = any(o[0] == "hash" for o in ops) and any(o[0] != "hash" for o in ops)
    return Case(term, inp, seen, sig={"case": "H"}, nontrivial=nt,
                key="H" + repr((sorted(cd.items()), start, ops)))


def mk_P(cd, start, post, ops):
    try:
        seen = run_P(cd, start, post, ops)
    except Exception as e:
        seen = [["raised", "%s: %s" % (type(e).__name__, e)]]
    term = "(CP %s %s %s %s %s)" % (enc_cls(cd), lst(str(v) for v in start), lst(enc_op(o) for o in post),
                                    lst(enc_op(o) for o in ops), lst(enc_hobs(s) for s in seen))
    inp = {"t": "P", "cd": cd, "start": list(start), "post": [list(o) for o in post], "ops": [list(o) for o in ops]}
    return Case(term, inp, seen, sig={"case": "P"}, nontrivial=bool(post),
                key="P" + repr((sorted(cd.items()), start, post, ops)))


def _post_cases(cd, start, rng, n):
    """post-init programs x follow-up histories for one class"""
    k = len(start)
    i = rng.randrange(k)
    other = (start[i] + 1) % 3
    posts = [
        [("hash",), ("set", i, other)],                       # hash self, then fill in a field
        [("set", i, other)],                                   # derived field only
        [("set", i, other), ("hash",)],
        [("hash",)],
        [("hash",), ("set", i, other), ("hash",), ("set", rng.randrange(k), rng.randrange(3))],
        [],
    ]
    follow = [
        [("hash",), ("deep",), ("hash",)],
        [("hash",), ("hash",), ("copy",), ("hash",), ("pickle", rng.choice((2, 3, 4, 5))), ("hash",)],
        [("deep",), ("hash",)],
        [("hash",), ("set", i, (other + 1) % 3), ("hash",), ("deep",), ("hash",)],
        [("hash",)],
    ]
    out = []
    for _ in range(n):
        post = posts[0] if rng.random() < 0.4 else rng.choice(posts)
        ops = rng.choice(follow)
        if cd["mixed"] and _NO_MIXED_COPY:
            ops = [o for o in ops if o[0] not in ("copy", "deep", "pickle")] or [("hash",)]
        out.append(mk_P(cd, start, post, ops))
    return out


_NO_MIXED_COPY = bool(os.environ.get("VERIF_C04_NO_MIXED_COPY"))


def _fixed_histories(cd, start, rng):
    k = len(start)
    i = rng.randrange(k)
    other = (start[i] + 1) % 3
    same_key = (start[i] + 2) % 3 if start[i] != 1 else 1
    changed = list(start)
    changed[i] = other
    hs = [
        [("hash",), ("hash",), ("hash",)],
        [("hash",), ("copy",), ("hash",), ("hash",), ("fresh", list(start)), ("hash",)],
        [("hash",), ("deep",), ("hash",), ("hash",)],
        [("hash",), ("pickle", rng.choice((2, 3, 4, 5))), ("hash",), ("hash",), ("fresh", list(start)), ("hash",)],
        [("copy",), ("hash",), ("pickle", 4), ("hash",)],
        [("hash",), ("evolve", i, other), ("hash",), ("hash",), ("fresh", changed), ("hash",)],
        [("hash",), ("evolve", i, same_key), ("hash",), ("fresh", list(start)), ("hash",)],
        [("hash",), ("set", i, other), ("hash",), ("fresh", changed), ("hash",), ("fresh", list(start)), ("hash",)],
        [("hash",), ("set", i, other), ("copy",), ("hash",), ("deep",), ("hash",), ("fresh", changed), ("hash",)],
        [("set", i, other), ("hash",), ("pickle", 2), ("hash",)],
    ]
    return hs


def _random_history(k, rng):
    ops = []
    for _ in range(rng.randint(2, 9)):
        r = rng.random()
        if r < 0.45:
            ops.append(("hash",))
        elif r < 0.55:
            ops.append(("copy",))
        elif r < 0.63:
            ops.append(("deep",))
        elif r < 0.71:
            ops.append(("pickle", rng.choice((2, 3, 4, 5))))
        elif r < 0.80:
            ops.append(("evolve", rng.randrange(k), rng.randrange(3)))
        elif r < 0.90:
            ops.append(("set", rng.randrange(k), rng.randrange(3)))
        else:
            ops.append(("fresh", [rng.randrange(3) for _ in range(k)]))
    return ops


def _class_descs(tier, rng):
    out = []
    flags = list(itertools.product((False, True), repeat=3))  # cache, frozen, slots

    def desc(fields, cache, frozen, slots, split=None, api=None, ceq=None):
        k = len(fields)
        d = dict(api=api or rng.choice("SD"), fields=[list(f) for f in fields], cache=cache, frozen=frozen,
                 slots=slots, split=rng.randint(0, k) if split is None else split,
                 bcache=rng.random() < 0.5, explicit=rng.random() < 0.5)
        d["fk"] = rng.choice(sorted(FALSY_KINDS))      # which kind of falsy callable stands for K0f / K1f
        d["via_cmp"] = rng.random() < 0.25            # keys passed as cmp= instead of eq= (attr.ib only)
        d["ceq"] = ceq or rng.choice(("gen", "gen", "off", "own"))
        if d["ceq"] == "off":
            d["split"] = 0   # below an attrs base the base's generated __eq__ would be inherited
        d["mixed"] = bool(d["split"] > 0 and not slots and rng.random() < 0.3)
        # a dict class with an explicitly requested generated __getstate__/__setstate__ pair
        d["gs"] = bool(not slots and not d["mixed"] and rng.random() < 0.2)
        return d

    # two-field classes with at least one falsy key callable
    falsy_pairs = ([(f, g) for f in FIELD_CFGS_FALSY for g in FIELD_CFGS + FIELD_CFGS_FALSY]
                   + [(f, g) for f in FIELD_CFGS for g in FIELD_CFGS_FALSY])
    for f in FIELD_CFGS + FIELD_CFGS_FALSY:
        for ca, fz, sl in flags:
            for api in "SD":
                for ceq in ("gen", "off", "own"):
                    out.append(desc([f], ca, fz, sl, split=rng.choice((0, 0, 1)), api=api, ceq=ceq))
    if tier == "thorough":
        for f, g in itertools.product(FIELD_CFGS, repeat=2):
            for ca, fz, sl in flags:
                for split in (0, 1, 2):
                    out.append(desc([f, g], ca, fz, sl, split=split, ceq="gen"))
                out.append(desc([f, g], ca, fz, sl, ceq="off"))
                out.append(desc([f, g], ca, fz, sl, ceq="own"))
        for f, g in falsy_pairs:
            for ceq in ("gen", "gen", "off", "own"):
                for _ in range(2):
                    ca, fz, sl = rng.choice(flags)
                    out.append(desc([f, g], ca, fz, sl, ceq=ceq))
        for f, g in falsy_pairs:
            ca, fz, sl = rng.choice(flags)
            out.append(desc([f, g], ca, fz, sl))
        n3 = 1500
    else:
        for f, g in itertools.product(FIELD_CFGS, repeat=2):
            for ceq in ("gen", "off", "own"):
                ca, fz, sl = rng.choice(flags)
                out.append(desc([f, g], ca, fz, sl, ceq=ceq))
        for f, g in falsy_pairs:
            ca, fz, sl = rng.choice(flags)
            out.append(desc([f, g], ca, fz, sl))
        n3 = 150
    for _ in range(n3):
        ca, fz, sl = rng.choice(flags)
        out.append(desc([rng.choice(FIELD_CFGS + FIELD_CFGS_FALSY) for _ in range(3)], ca, fz, sl))
    return out


_twin = {"pairs": 0, "differ": 0}


def _twin_probe(cd, vec):
    """Informational only (never a discrepancy): two classes with the same field configuration and different
    qualnames - does the type salt tell them apart?  The property does not demand it."""
    try:
        h1 = hash(_inst(build_B(cd), vec))
        h2 = hash(_inst(build_B(cd), vec))
    except Exception:
        return
    _twin["pairs"] += 1
    _twin["differ"] += h1 != h2


def gen_B(tier, rng):
    cases = []
    _twin["pairs"] = _twin["differ"] = 0
    for n, cd in enumerate(_class_descs(tier, rng)):
        k = len(cd["fields"])
        vecs = [list(v) for v in itertools.product(range(3), repeat=k)]
        cases.append(mk_M(cd, vecs))
        if n % 5 == 0:
            _twin_probe(cd, vecs[-1])
        start = [rng.randrange(3) for _ in range(k)]
        fixed = _fixed_histories(cd, start, rng)
        picks = fixed if (tier == "thorough" and k <= 2 and rng.random() < 0.25) else rng.sample(fixed, 2)
        rnd = _random_history(k, rng)
        if cd["mixed"] and _NO_MIXED_COPY:
            picks = [[o for o in ops if o[0] not in ("copy", "deep", "pickle")] for ops in picks]
            rnd = [o for o in rnd if o[0] not in ("copy", "deep", "pickle")] or [("hash",)]
        for ops in picks:
            cases.append(mk_H(cd, start, ops))
        cases.append(mk_H(cd, start, rnd))
        cases.extend(_post_cases(cd, start, rng, 1 if tier == "quick" else 2))
    return cases



# --------------------------------------------------------------------------------------
# script-level tie (supplementary evidence, never an alarm): the source text of the real generated
# __hash__, read by a small fail-closed ast reader into the model's hscript term

_script_terms = []          # (coq term of the script_case, source text)
_script_unrecognised = []
_CACHE = "_attrs_cached_hash"


class _Unrecognised(Exception):
    pass


def _need(cond, what):
    if not cond:
        raise _Unrecognised(what)


def _is_self_attr(node, attr=None):
    return (isinstance(node, ast.Attribute) and isinstance(node.value, ast.Name) and node.value.id == "self"
            and (attr is None or node.attr == attr))


def _parse_hash_call(node, index):
    """hash((<int literal>, e1, .., en)) -> list of helem terms"""
    _need(isinstance(node, ast.Call) and isinstance(node.func, ast.Name) and node.func.id == "hash"
          and len(node.args) == 1 and not node.keywords and isinstance(node.args[0], ast.Tuple), "hash((...)) call")
    elts = node.args[0].elts
    _need(len(elts) >= 1, "salt element")
    salt = elts[0]
    if isinstance(salt, ast.UnaryOp) and isinstance(salt.op, ast.USub):
        salt = salt.operand
    _need(isinstance(salt, ast.Constant) and type(salt.value) is int, "salt is an integer literal")
    out = []
    for e in elts[1:]:
        if _is_self_attr(e):
            _need(e.attr in index, "field name " + e.attr)
            out.append("HField %d" % index[e.attr])
        else:
            _need(isinstance(e, ast.Call) and isinstance(e.func, ast.Name) and len(e.args) == 1 and not e.keywords
                  and _is_self_attr(e.args[0]) and e.func.id == "__attr_key_" + e.args[0].attr
                  and e.args[0].attr in index, "keyed element")
            out.append("HKeyed %d" % index[e.args[0].attr])
    return out


def parse_hash_source(src, names):
    """Source text of a generated __hash__ -> Coq term of type hscript.  Raises _Unrecognised."""
    import textwrap
    index = {n: i for i, n in enumerate(names)}
    try:
        tree = ast.parse(textwrap.dedent(src))
    except SyntaxError:
        raise _Unrecognised("does not parse")
    _need(len(tree.body) == 1 and isinstance(tree.body[0], ast.FunctionDef), "one function definition")
    fn = tree.body[0]
    a = fn.args
    _need(fn.name == "__hash__" and not fn.decorator_list and not a.posonlyargs and not a.vararg and not a.kwarg
          and not a.defaults and [x.arg for x in a.args] == ["self"], "def __hash__(self ...)")
    wrapper = False
    if a.kwonlyargs:
        _need(len(a.kwonlyargs) == 1 and a.kwonlyargs[0].arg == "_cache_wrapper" and a.kw_defaults[0] is not None
              and ast.unparse(a.kw_defaults[0]) == "__import__('attr._make')._make._CacheHashWrapper",
              "_cache_wrapper default argument")
        wrapper = True
    body = fn.body
    if len(body) == 1:
        _need(isinstance(body[0], ast.Return), "return statement")
        return "(HS %s StReturn %s)" % (b(wrapper), lst(_parse_hash_call(body[0].value, index)))
    _need(len(body) == 2 and isinstance(body[0], ast.If) and isinstance(body[1], ast.Return), "if + return")
    test = body[0].test
    _need(isinstance(test, ast.Compare) and _is_self_attr(test.left, _CACHE) and len(test.ops) == 1
          and isinstance(test.ops[0], ast.Is) and isinstance(test.comparators[0], ast.Constant)
          and test.comparators[0].value is None and not body[0].orelse and len(body[0].body) == 1,
          "if self._attrs_cached_hash is None:")
    _need(_is_self_attr(body[1].value, _CACHE), "return self._attrs_cached_hash")
    st = body[0].body[0]
    if isinstance(st, ast.Assign):
        _need(len(st.targets) == 1 and _is_self_attr(st.targets[0], _CACHE), "self._attrs_cached_hash = ...")
        store, val = "StAssign", st.value
    else:
        _need(isinstance(st, ast.Expr) and isinstance(st.value, ast.Call)
              and ast.unparse(st.value.func) == "object.__setattr__" and len(st.value.args) == 3
              and not st.value.keywords and isinstance(st.value.args[0], ast.Name) and st.value.args[0].id == "self"
              and isinstance(st.value.args[1], ast.Constant) and st.value.args[1].value == _CACHE,
              "object.__setattr__(self, '_attrs_cached_hash', ...)")
        store, val = "StSetattr", st.value.args[2]
    _need(isinstance(val, ast.Call) and isinstance(val.func, ast.Name) and val.func.id == "_cache_wrapper"
          and len(val.args) == 1 and not val.keywords, "_cache_wrapper(hash(...))")
    return "(HS %s %s %s)" % (b(wrapper), store, lst(_parse_hash_call(val.args[0], index)))


def _collect_script(cls, cls_term):
    """Reads the real generated __hash__ of `cls` (if it has one of its own) for the script-level tie."""
    import inspect
    fn = cls.__dict__.get("__hash__")
    if not is_generated(fn):
        return
    try:
        src = inspect.getsource(fn)
        term = parse_hash_source(src, [a_.name for a_ in cls.__attrs_attrs__])
    except _Unrecognised as e:
        _script_unrecognised.append("%s\n%s" % (e, src))
        return
    except Exception as e:
        _script_unrecognised.append("source unavailable: %s: %s" % (type(e).__name__, e))
        return
    _script_terms.append(("(SC %s %s)" % (cls_term, term), src))


def script_tie():
    if not _script_terms and not _script_unrecognised:
        return {"script_tie": "no classes"}
    bad = vlib.run_cases(PROP, HEADER, "script_case", "script_case_ok", [t for t, _ in _script_terms], tag="script")
    res = {"script_tie": {"classes_parsed": len(_script_terms), "equal": len(_script_terms) - len(bad),
                          "different": len(bad), "unrecognised": len(_script_unrecognised)}}
    if bad:
        t, src = _script_terms[bad[0]]
        res["script_tie"]["first_difference"] = {
            "real_source": src, "case": t,
            "model_script": vlib.eval_in_coq(PROP, HEADER, "script_model_of %s" % t)[:2000]}
    if _script_unrecognised:
        res["script_tie"]["first_unrecognised"] = _script_unrecognised[0][:800]
    if bad or _script_unrecognised:
        print("NOTE: script-level tie: of %d real __hash__ sources %d differ from the model's script, %d have an "
              "unrecognised shape (supplementary evidence, not a verdict; see evidence/C04.json)"
              % (len(_script_terms) + len(_script_unrecognised), len(bad), len(_script_unrecognised)))
    return res

# --------------------------------------------------------------------------------------
# driver interface


def _cleanup(lc_before):
    sys.modules.pop(SYN, None)
    sys.modules.pop(SYNB, None)
    for k in [k for k in linecache.cache if k not in lc_before and k.startswith("<attrs generated")]:
        del linecache.cache[k]


def generate(tier, seed):
    rng = random.Random(seed)
    lc_before = set(linecache.cache)
    _syn_module()
    _script_terms.clear()
    _script_unrecognised.clear()
    _TIE_EVERY[0] = 1 if tier == "quick" else 4
    try:
        cases = [mk_A(cf) for cf in gen_A(tier, rng)]
        cases += gen_B(tier, rng)
    finally:
        _cleanup(lc_before)
    return cases


def extra(tier, seed):
    out = [vlib.Discrepancy({"kind": "base-construction-failed", "base": list(k)},
                            "attrs base class %r could not be built: %s" % (k, msg),
                            {"corpus": "c04_bases_build"})
           for k, msg in _base_errors[:5]]
    cov_tie = script_tie()
    r = KEY_TESTS_READ[0]
    cov_tie["init_tail_tie"] = ("unavailable (shape not recognised)" if not INIT_TAIL_READ[0]
                                else " -> ".join(INIT_TAIL_READ[0]))
    cov_tie["key_presence_tie"] = ("unavailable (a site has an unrecognised shape: %r)" % (r,)
                                   if r is None or None in r else
                                   "norm=%s eq=%s hash=%s" % tuple(r))
    cov_tie.update({"runtime_observations": 0,
                 "info_twin_classes_hash_differently": "%d of %d same-shape class pairs (type salt; not asserted)"
                 % (_twin["differ"], _twin["pairs"])})
    return out, cov_tie


def rerun(inp):
    lc_before = set(linecache.cache)
    _syn_module()
    try:
        if inp["t"] == "A":
            return mk_A(dict(zip(A_KEYS, inp["cf"])))
        cd = dict(inp["cd"])
        cd["fields"] = [tuple(f) for f in cd["fields"]]
        if inp["t"] == "M":
            return mk_M(cd, [list(v) for v in inp["vecs"]])
        if inp["t"] == "P":
            return mk_P(cd, list(inp["start"]), [tuple(o) for o in inp["post"]], [tuple(o) for o in inp["ops"]])
        return mk_H(cd, list(inp["start"]), [tuple(o) for o in inp["ops"]])
    finally:
        _cleanup(lc_before)


def _c04_bases_build():
    lc_before = set(linecache.cache)
    _syn_module()
    try:
        for name in ALL_BASES:
            for sl in (False, True):
                try:
                    _BASE_SPECS[name][0](sl)
                except Exception as e:
                    return "base %s slots=%s: %s: %s" % (name, sl, type(e).__name__, e)
    finally:
        _cleanup(lc_before)


def _c04_docs_example():
    """docs/hashing.md: frozen + eq -> hashable, equal instances hash equal; cache_hash computes once."""
    calls = []

    class Cnt(int):
        def __hash__(self):
            calls.append(1)
            return int.__hash__(self)

    @attr.s(frozen=True, cache_hash=True)
    class C:
        x = attr.ib()

    a, c = C(Cnt(1)), C(Cnt(1))
    if a != c or hash(a) != hash(c):
        return "equal frozen instances hash differently"
    if hash(a) != hash(a) or len(calls) != 2:
        return "cache_hash class hashed its field %d times for two instances" % len(calls)


def F25_C04_falsy_key():
    """fix cb57cf9: a key callable that is falsy (callable empty dict subclass, __bool__ False, __len__ 0) is
    advertised on the Attribute and applied by == AND by the generated hash - with eq generated or not."""
    for kind, ctor in sorted(FALSY_KINDS.items()):
        key = ctor(lambda s: s.lower())
        if key or not callable(key):
            return "reproducer broken: key of kind %s is not a falsy callable" % kind
        for deco in (attr.s(unsafe_hash=True), attr.s(frozen=True, cache_hash=True), attr.s(eq=False, unsafe_hash=True),
                     attrs.define(frozen=True), attrs.define(unsafe_hash=True, slots=False)):
            ns = {"name": attr.ib(eq=key), "__annotations__": {"name": str}}
            C = deco(type("C", (object,), ns))
            if attr.fields(C).name.eq_key is not key:
                return "%s key: dropped from the Attribute (eq_key=%r)" % (kind, attr.fields(C).name.eq_key)
            x, y = C("Widget"), C("wIDGET")
            if "__eq__" in C.__dict__ and not (x == y):
                return "%s key: not applied by the generated __eq__" % kind
            if hash(x) != hash(y):
                return "%s key: C('Widget') and C('wIDGET') hash differently although their keyed values agree" % kind
            if hash(x) == hash(C("other")) and hash(x) == hash(C("third")) and hash(x) == hash(C("4th")):
                return "%s key: hash ignores the field" % kind


def corpus():
    import importlib.util
    spec = importlib.util.spec_from_file_location("verif_defects", os.path.join(vlib.VERIF, "corpus", "defects.py"))
    m = importlib.util.module_from_spec(spec)
    spec.loader.exec_module(m)
    def safe(fn):
        def run():
            try:
                return fn()
            except Exception as e:  # a reproducer that raises is a failing reproducer, not a broken check
                return "raised %s: %s" % (type(e).__name__, e)
        return run

    return ([(k, safe(f)) for k, f in m.ALL.items() if "_C04_" in k]
            + [("F25_C04_falsy_key", safe(F25_C04_falsy_key)),
               ("c04_bases_build", safe(_c04_bases_build)), ("c04_docs_example", safe(_c04_docs_example))])


def EXHAUSTIVE(tier):
    return tier == "thorough"


def distribution(cases):
    from collections import Counter
    kinds = Counter(c.inp["t"] for c in cases)
    out = Counter()
    base = Counter()
    api = Counter()
    for c in cases:
        if c.inp["t"] == "A":
            s = c.seen
            out[" ".join(str(x) for x in s[:3]) if s[0] != "other" else "other"] += 1
            cf = dict(zip(A_KEYS, c.inp["cf"]))
            base[cf["base"]] += 1
            api[cf["api"]] += 1
    ops = Counter(o[0] for c in cases if c.inp["t"] in "HP" for o in c.inp["ops"])
    nf = Counter(len(c.inp["cd"]["fields"]) for c in cases if c.inp["t"] in "MHP")
    return {"case_kinds": dict(kinds), "A_outcomes": dict(out), "A_bases": dict(base), "A_api": dict(api),
            "H_operations": dict(ops), "B_fields_per_class": {str(k): v for k, v in nf.items()}}
