"""Shared machinery of the /verif checks.

* Coq side: incremental `make` of the proof development under a file lock, capture of
  the `Print Assumptions` output of Props/<id>.v, kernel evaluation (`vm_compute` inside
  `coqc`) of the model's check function on generated case files.
* Python side: Gallina literal encoders, the known-findings classifier, replay files,
  evidence files, the VIOLATION / KNOWN-FINDING protocol and exit codes
  (0 held, 1 violation, 2 infrastructure failure - never a VIOLATION line).
"""
from __future__ import annotations

import fcntl
import hashlib
import json
import os
import re
import shutil
import subprocess
import sys
import time
from concurrent.futures import ThreadPoolExecutor

VERIF = os.path.dirname(os.path.dirname(os.path.abspath(__file__)))
# VERIF_COQ_DIR: a private copy of the development (tools/seedtest.sh uses one per mutated tree, so that
# regenerated Gen/*.v files and .vo files of concurrent runs against different trees never mix)
COQ = os.environ.get("VERIF_COQ_DIR") or os.path.join(VERIF, "coq")
THEORIES = os.path.join(COQ, "theories")
BUILD = os.path.join(COQ, "build")
REPO = os.environ.get("ATTRS_REPO", "/repo")
NPROC = int(os.environ.get("VERIF_JOBS", "16"))
import threading
_RETRY_LOCK = threading.Lock()

TRUSTED_BASE_COMMON = [
    "Coq 8.16.1 kernel, including its vm_compute abstract machine (used to evaluate the "
    "model on correspondence cases and in finite-domain proofs); native_compute is not used",
    "no Axiom/Parameter/Admitted/admit in the development; no kernel check disabled "
    "(tools/audit.sh greps for them, Print Assumptions output is recorded below)",
    "hand-written Gallina model of the named attrs functions (tied to /repo only by the "
    "correspondence check of this run and, where stated, by constants/functions regenerated "
    "from the source into theories/Gen by harness/translate.py)",
    "the Python harness: case generators, real-side drivers, Gallina literal encoder, "
    "known-findings matcher (harness/*.py); CPython 3.12 semantics for everything the model "
    "treats as an oracle",
]


class Infra(Exception):
    """The check itself is broken (exit 2, no VIOLATION line)."""


# --------------------------------------------------------------------------------------
# Gallina literal encoders


def q(s: str) -> str:
    """Coq string literal."""
    assert all(32 <= ord(ch) < 127 for ch in s), repr(s)
    return '"' + s.replace('"', '""') + '"'


def b(x: bool) -> str:
    return "true" if x else "false"


def lst(items) -> str:
    items = list(items)
    return "[" + "; ".join(items) + "]" if items else "[]"


def opt(x, enc=lambda t: t) -> str:
    return "None" if x is None else "(Some %s)" % enc(x)


def z(n: int) -> str:
    return "(%d)%%Z" % n


def nat(n: int) -> str:
    assert 0 <= n < 5000
    return "%d" % n


def pair(a: str, c: str) -> str:
    return "(%s, %s)" % (a, c)


# --------------------------------------------------------------------------------------
# Coq build


def _run(cmd, cwd=None, timeout=1800, env=None):
    p = subprocess.run(cmd, cwd=cwd, stdout=subprocess.PIPE, stderr=subprocess.STDOUT,
                       text=True, timeout=timeout, env=env)
    out = "\n".join(l for l in p.stdout.splitlines() if "WARNING: conda" not in l)
    return p.returncode, out


class Lock:
    def __enter__(self):
        self.f = open(os.path.join(COQ, ".coq.lock") if os.environ.get("VERIF_COQ_DIR") else os.path.join(VERIF, ".coq.lock"), "w")
        fcntl.flock(self.f, fcntl.LOCK_EX)
        return self

    def __exit__(self, *a):
        fcntl.flock(self.f, fcntl.LOCK_UN)
        self.f.close()


def coq_files():
    out = []
    for root, _dirs, files in os.walk(THEORIES):
        for f in files:
            if f.endswith(".v"):
                out.append(os.path.relpath(os.path.join(root, f), COQ))
    return sorted(out)


def ensure_makefile():
    """_CoqProject lists every .v under theories/ and is rewritten when that set changes."""
    mk = os.path.join(COQ, "Makefile")
    proj = os.path.join(COQ, "_CoqProject")
    want = "-Q theories Attrs\n" + "\n".join(coq_files()) + "\n"
    have = open(proj).read() if os.path.exists(proj) else ""
    if want != have:
        with open(proj, "w") as fh:
            fh.write(want)
    if want != have or not os.path.exists(mk) or os.path.getmtime(mk) < os.path.getmtime(proj):
        rc, out = _run(["coq_makefile", "-f", "_CoqProject", "-o", "Makefile"], cwd=COQ)
        if rc:
            raise Infra("coq_makefile failed:\n" + out)


def make(targets=(), timeout=3000):
    """Incremental build of .vo targets (paths relative to coq/).  Returns (ok, log)."""
    with Lock():
        ensure_makefile()
        cmd = ["timeout", str(timeout), "make", "-j%d" % NPROC] + list(targets)
        rc, out = _run(cmd, cwd=COQ, timeout=timeout + 60)
    return rc == 0, out


def coqc_file(path, timeout=900):
    rc, out = _run(["timeout", str(timeout), "coqc", "-Q", THEORIES, "Attrs", path],
                   cwd=os.path.dirname(path), timeout=timeout + 30)
    return rc, out


def props_report(prop: str):
    """Compile Props/<prop>.v on its own to capture the Print Assumptions output.
    Returns dict(theorems=[...], assumptions={thm: text}, ok=bool, log=str)."""
    src = os.path.join(THEORIES, "Props", prop + ".v")
    text = open(src).read()
    thms = re.findall(r"^\s*Theorem\s+([A-Za-z0-9_']+)", text, re.M)
    tmpdir = os.path.join(BUILD, "props")
    os.makedirs(tmpdir, exist_ok=True)
    tmp = os.path.join(tmpdir, "Report_%s.v" % prop)
    shutil.copy(src, tmp)
    rc, out = coqc_file(tmp)
    blocks = {}
    # Print Assumptions output comes in order of the Print commands
    printed = re.findall(r"^\s*Print Assumptions\s+([A-Za-z0-9_']+)\.", text, re.M)
    chunks = re.split(r"(?m)^(?=Closed under the global context|Axioms:)", out)
    chunks = [c.strip() for c in chunks if c.strip().startswith(("Closed", "Axioms:"))]
    for name, c in zip(printed, chunks):
        blocks[name] = c
    return {"theorems": thms, "assumptions": blocks, "ok": rc == 0 and len(chunks) == len(printed),
            "log": out}


# --------------------------------------------------------------------------------------
# Kernel-evaluated correspondence


_STR_RE = re.compile(r'"(?:[^"]|"")*"')


def _intern_strings(terms):
    """Elaborating a Coq string literal costs ~10 constructor nodes per character; a shard
    repeats the same few hundred names thousands of times.  Bind every distinct literal to a
    short identifier once and use the identifier inside the case terms."""
    table = {}

    def sub(m):
        lit = m.group(0)
        if lit not in table:
            table[lit] = "s%d_" % len(table)
        return table[lit]

    new_terms = [_STR_RE.sub(sub, t) for t in terms]
    defs = "".join("Definition %s := %s.\n" % (ident, lit) for lit, ident in table.items())
    return defs, new_terms


def _shard_text(header, case_type, check, terms):
    defs, terms = _intern_strings(terms)
    return (
        header + "\nFrom Coq Require Import List String ZArith.\nImport ListNotations.\n"
        "Open Scope string_scope.\n" + defs +
        "Definition cases : list %s :=\n  [ %s ].\n" % (case_type, "\n  ; ".join(terms))
        + "Definition bad := Eval vm_compute in mismatches %s 0 cases.\n" % check
        + "Print bad.\n"
    )


def run_cases(prop, header, case_type, check, terms, shard=400, tag="cases"):
    """Evaluate [check] on every case term inside coqc.  Returns sorted mismatching
    indices.  Raises Infra if a shard does not compile (encoder bug, model broken)."""
    d = os.path.join(BUILD, "cases", prop, "%s-%d" % (tag, os.getpid()))   # private to this run
    shutil.rmtree(d, ignore_errors=True)
    os.makedirs(d)
    files = []
    for k in range(0, len(terms), shard):
        f = os.path.join(d, "S%04d.v" % (k // shard))
        with open(f, "w") as fh:
            fh.write(_shard_text(header, case_type, check, terms[k:k + shard]))
        files.append((k, f))

    def one(job):
        k, f = job
        rc, out = coqc_file(f)
        tries = 0
        while rc != 0 and not out.strip() and tries < 2:
            # coqc died without a message: killed from outside (memory pressure on a busy machine); a Coq error
            # always comes with text.  Retry alone after a pause - an infrastructure matter, never a verdict.
            tries += 1
            time.sleep(5 * tries)
            with _RETRY_LOCK:
                rc, out = coqc_file(f)
        if rc != 0:
            raise Infra("coqc failed on %s:\n%s" % (f, out[-3000:]))
        m = re.search(r"bad\s*=\s*\[(.*?)\]\s*:\s*list nat", out, re.S)
        if not m:
            raise Infra("cannot parse coqc output of %s:\n%s" % (f, out[-2000:]))
        return [k + int(t) for t in re.findall(r"\d+", m.group(1))]

    bad = []
    with ThreadPoolExecutor(max_workers=NPROC) as ex:
        for r in ex.map(one, files):
            bad.extend(r)
    shutil.rmtree(d, ignore_errors=True)
    return sorted(bad)


def eval_in_coq(prop, header, expr, tag="explain"):
    """vm_compute one expression and return Coq's printed answer (for replay files)."""
    d = os.path.join(BUILD, "cases", prop, "%s-%d" % (tag, os.getpid()))
    os.makedirs(d, exist_ok=True)
    f = os.path.join(d, "E%s.v" % hashlib.sha1(expr.encode()).hexdigest()[:10])
    with open(f, "w") as fh:
        fh.write(header + "\nFrom Coq Require Import List String ZArith.\nImport ListNotations.\n"
                 "Open Scope string_scope.\nSet Printing Width 100000.\nSet Printing Depth 100000.\n"
                 "Definition it := Eval vm_compute in (%s).\nPrint it.\n" % expr)
    rc, out = coqc_file(f, timeout=120)
    for ext in (".v", ".vo", ".glob", ".vok", ".vos"):
        try:
            os.remove(f[:-2] + ext)
        except OSError:
            pass
    if rc != 0:
        return "<coqc failed: %s>" % out[-500:]
    return out.strip()


# --------------------------------------------------------------------------------------
# Findings, replays, evidence


def load_known_findings():
    """known_findings.json plus the per-property fragments in known_findings.json ."""
    with open(os.path.join(VERIF, "known_findings.json")) as fh:
        kf = json.load(fh)
    d = os.path.join(VERIF, "known_findings.json")
    if os.path.isdir(d):
        for f in sorted(os.listdir(d)):
            if f.endswith(".json"):
                with open(os.path.join(d, f)) as fh:
                    part = json.load(fh)
                kf.setdefault("findings", []).extend(part.get("findings", []))
                kf.setdefault("fixed", []).extend(part.get("fixed", []))
    return kf


def match_finding(prop, sig, kf):
    """A discrepancy signature (dict) matches an entry when every key of the entry's
    `match` is present with an equal value.  `fixed` entries never match."""
    for e in kf.get("findings", []):
        if e["property"] != prop:
            continue
        m = e["match"]
        if all(sig.get(k) == v for k, v in m.items()):
            return e
    return None


class Discrepancy:
    def __init__(self, sig, what, replay):
        self.sig = sig          # dict used by the known-findings matcher
        self.what = what        # one line
        self.replay = replay    # JSON-serialisable: enough to re-run


def write_replay(prop, disc: Discrepancy):
    rdir = os.environ.get("VERIF_REPLAY_DIR") or os.path.join(VERIF, "replays")
    os.makedirs(rdir, exist_ok=True)
    body = json.dumps({"property": prop, "signature": disc.sig, "what": disc.what,
                       "replay": disc.replay}, indent=1, sort_keys=True, default=str)
    h = hashlib.sha1(body.encode()).hexdigest()[:12]
    path = os.path.join(rdir, "%s-%s.json" % (prop, h))
    with open(path, "w") as fh:
        fh.write(body + "\n")
    return path


def finish(prop, tier, seed, t0, *, obligations, discharged, assumptions, checker_cmd,
           evaluations, distinct_nontrivial, rule, samples, exhaustive, discrepancies,
           proof_failure=None, extra_cov=None, extra_trusted=(), assumptions_list=()):
    """Classify discrepancies, print protocol lines, write evidence, return exit code."""
    kf = load_known_findings()
    known_seen = {}
    violations = []
    for d in discrepancies:
        e = match_finding(prop, d.sig, kf)
        if e is not None:
            known_seen.setdefault(e["id"], [e, 0])[1] += 1
        else:
            violations.append(d)
    for fid, (e, n) in sorted(known_seen.items()):
        print("KNOWN-FINDING: property=%s %s: %s (%d case(s) this run)" % (prop, fid, e["what"], n))
    reported = 0
    seen_sigs = set()
    for d in violations:
        key = json.dumps(d.sig, sort_keys=True, default=str)
        if key in seen_sigs and reported >= 1:
            continue
        seen_sigs.add(key)
        if reported < 10:
            path = write_replay(prop, d)
            print("VIOLATION property=%s replay=%s" % (prop, path))
            print("  what: %s" % d.what)
            reported += 1
    if proof_failure and not violations:
        d = Discrepancy({"kind": "proof-obligation"}, proof_failure["what"],
                        {"theorem_or_lemma": proof_failure["name"], "log_tail": proof_failure["log"][-4000:],
                         "searched": proof_failure.get("searched", "")})
        path = write_replay(prop, d)
        print("VIOLATION property=%s replay=%s no-failing-input-found" % (prop, path))
        violations.append(d)
    cov = {
        "obligations": obligations,
        "discharged": discharged,
        "checker_cmd": checker_cmd,
        "trusted_base": TRUSTED_BASE_COMMON + list(extra_trusted)
        + ["Print Assumptions: %s => %s" % (k, " ".join(v.split())) for k, v in sorted(assumptions.items())],
        "evaluations": evaluations,
        "distinct_nontrivial": distinct_nontrivial,
        "rule": rule,
        "samples": samples[:6],
        "exhaustive": bool(exhaustive),
        "known_findings_seen": {k: v[1] for k, v in known_seen.items()},
    }
    if extra_cov:
        cov.update(extra_cov)
    ev = {
        "property_id": prop,
        "tier": tier,
        "seed": seed,
        "level": "proof",
        "coverage": cov,
        "assumptions": list(assumptions_list),
        "wall_s": round(time.time() - t0, 2),
        "violations": len(violations),
    }
    evdir = os.environ.get("VERIF_EVIDENCE_DIR") or os.path.join(VERIF, "evidence")   # seed tests write elsewhere
    os.makedirs(evdir, exist_ok=True)
    with open(os.path.join(evdir, prop + ".json"), "w") as fh:
        json.dump(ev, fh, indent=1, sort_keys=True, default=str)
        fh.write("\n")
    print("%s tier=%s seed=%d: %d theorem(s) checked, %d case(s) evaluated in Coq, "
          "%d known finding(s), %d violation(s), %.1fs"
          % (prop, tier, seed, discharged, evaluations, len(known_seen), len(violations), time.time() - t0))
    return 1 if violations else 0


def build_property(prop, extra_targets=()):
    """Build the proof files of one property.  Returns (model_ok, proofs_ok, report, log).
    model_ok False means the model/Corr files themselves do not compile: infrastructure."""
    ok_model, log1 = make(["theories/%s/Corr.vo" % prop] + list(extra_targets))
    if not ok_model:
        return False, False, None, log1
    ok_proofs, log2 = make(["theories/Props/%s.vo" % prop])
    rep = None
    if ok_proofs:
        rep = props_report(prop)
        ok_proofs = rep["ok"]
        if not ok_proofs:
            log2 += "\n" + rep["log"]
    return True, ok_proofs, rep, log1 + "\n" + log2


def coqchk(prop, timeout=1800):
    """Independent re-check of the compiled property file and everything it depends on; returns the
    CONTEXT SUMMARY (axioms, type-in-type, unsafe fixpoints, assumed positivity) as text."""
    rc, out = _run(["timeout", str(timeout), "coqchk", "-silent", "-o", "-Q", "theories", "Attrs",
                    "Attrs.Props.%s" % prop], cwd=COQ, timeout=timeout + 60)
    i = out.find("CONTEXT SUMMARY")
    summary = " ".join(out[i:].split()) if i >= 0 else "coqchk produced no summary: " + out[-300:]
    return rc == 0, summary


def failing_item(log: str) -> str:
    m = re.search(r'File "([^"]+)", line (\d+)', log)
    n = re.search(r"\(in proof ([A-Za-z0-9_']+)\)", log)
    s = ""
    if m:
        s = "%s:%s" % (os.path.relpath(m.group(1), COQ) if os.path.isabs(m.group(1)) else m.group(1), m.group(2))
    if n:
        s += " proof %s" % n.group(1)
    return s or "unknown (see log)"
