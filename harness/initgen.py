"""Shared by C01/C02/C05/C06/C12: class-specification generator, instrumented callables,
real-side construction driver and Gallina encoders for Core/Init.v + Core/InitCorr.v."""
import inspect
import itertools
import random

import attr
import attrs
from attr import setters

from .vlib import b, lst, nat, opt, pair, q

# --------------------------------------------------------------------------------------
# symbolic values


class Tok:
    __slots__ = ("n",)

    def __init__(self, n):
        self.n = n

    def __repr__(self):
        return "Tok(%d)" % self.n


class Dflt:
    """The object given as default= of a field."""
    __slots__ = ("fld",)

    def __init__(self, fld):
        self.fld = fld

    def __repr__(self):
        return "Dflt(%s)" % self.fld


class Sym:
    """Result of calling a symbolic user callable."""
    __slots__ = ("fn", "args")

    def __init__(self, fn, args):
        self.fn = fn
        self.args = tuple(args)

    def __repr__(self):
        return "%s(%s)" % (self.fn, ", ".join(js_val(a) for a in self.args))


class Marker(Exception):
    def __init__(self, idx):
        super().__init__(idx)
        self.idx = idx


class Ann:
    """Unique annotation / type= objects."""

    def __init__(self, tag):
        self.tag = tag

    def __repr__(self):
        return "Ann(%s)" % self.tag


UNSET = object()


class Recorder:
    def __init__(self):
        self.trace = []
        self.fault_at = None
        self.cls = None          # class under test (instances encode as VSelf)
        self.early = []          # steps observed too early (see post_init)

    def reset(self, fault_at=None):
        self.trace = []
        self.fault_at = fault_at

    def cb(self, ev):
        idx = len(self.trace)
        self.trace.append(ev)
        if self.fault_at is not None and idx == self.fault_at:
            raise Marker(idx)


REC = Recorder()


def enc_val(v):
    if isinstance(v, Tok):
        return "VTok %d" % v.n
    if v is None:
        return "VNone"
    if v is attr.NOTHING:
        return "VNothing"
    if isinstance(v, bool):
        return "VBool %s" % b(v)
    if isinstance(v, Dflt):
        return "VDefault %s" % q(v.fld)
    if isinstance(v, Sym):
        return "VApp %s %s" % (q(v.fn), lst("(%s)" % enc_val(a) if " " in enc_val(a) else enc_val(a) for a in v.args))
    if isinstance(v, attr.Attribute):
        return "VAttr %s" % q(v.name)
    if REC.cls is not None and isinstance(v, REC.cls):
        return "VSelf"
    return "VApp %s []" % q("<foreign:%s>" % type(v).__name__)


def pv(v):
    s = enc_val(v)
    return "(%s)" % s if " " in s else s


# --------------------------------------------------------------------------------------
# instrumented callables (each knows the field it belongs to)


class FalsyCall:
    """A callable object whose truth value is False (attrs must test user callables for None, not truthiness)."""
    def __init__(self, fn, how="bool"):
        self.fn = fn
        self.how = how
        for k in ("sym", "ann"):
            if hasattr(fn, k):
                setattr(self, k, getattr(fn, k))

    def __call__(self, *a, **kw):
        return self.fn(*a, **kw)

    def __bool__(self):
        return False

    def __len__(self):
        return 0


class FactorySub(attr.Factory):
    """a strict subclass of attrs.Factory (attrs must recognise factories by isinstance, not by exact class)"""
    __slots__ = ()


def init_function(cls):
    """the generated initializer: __attrs_init__ for a class defined with init=False"""
    return cls.__attrs_init__ if "__attrs_init__" in cls.__dict__ else cls.__init__


def mk_factory(fld, fn, takes_self):
    if takes_self:
        def fac(self):
            REC.cb(("fac", fld, fn, True))
            return Sym(fn, (self,))
    else:
        def fac():
            REC.cb(("fac", fld, fn, False))
            return Sym(fn, ())
    fac.sym = fn
    return fac


_CONV_REG = {}      # uid -> attr.Converter object (so that a spec can name an object to share)


def mk_converter(fld, fn, kind):
    """kind: ('plain', annotated) | ('conv', ts, tf, annotated)
    fld == "" : the callable may serve several fields; its events carry a wildcard field name."""
    annotated = kind[-1]
    ann = Ann("ca_" + fn) if annotated else None
    if kind[0] == "plain":
        if annotated:
            def conv(v: ann):
                REC.cb(("conv", fld, fn, [v]))
                return Sym(fn, (v,))
        else:
            def conv(v):
                REC.cb(("conv", fld, fn, [v]))
                return Sym(fn, (v,))
        conv.sym, conv.ann = fn, ann
        return conv
    _, ts, tf, _ = kind
    if annotated:
        def conv(v: ann, *extra):
            REC.cb(("conv", fld, fn, [v] + list(extra)))
            return Sym(fn, (v,) + extra)
    else:
        def conv(v, *extra):
            REC.cb(("conv", fld, fn, [v] + list(extra)))
            return Sym(fn, (v,) + extra)
    c = attr.Converter(conv, takes_self=ts, takes_field=tf)
    conv.sym, conv.ann = fn, ann
    return c


def mk_validator(fld, vn):
    def val(inst, a, value):
        snap = [(f.name, getattr(inst, f.name, UNSET)) for f in attr.fields(type(inst))]
        REC.cb(("val", a.name, vn, value, snap))
    val.sym = vn
    return val


def mk_hook(hn):
    def hook(inst, a, value):
        REC.cb(("hook", a.name, hn, value))
        return Sym(hn, (value,))
    hook.sym = hn
    return hook


def mk_pre(kind, pos_names=(), kw_names=()):
    if kind == "self":
        def __attrs_pre_init__(self):
            REC.cb(("pre", [], []))
    elif kind == "star":
        def __attrs_pre_init__(self, *args, **kwargs):
            REC.cb(("pre", list(args), list(kwargs.items())))
    elif kind == "kwstar":
        def __attrs_pre_init__(self, **kwargs):
            REC.cb(("pre", [], list(kwargs.items())))
    elif kind == "named":
        # exactly the initializer's own parameters, by name
        params = ", ".join(list(pos_names) + (["*"] + list(kw_names) if kw_names else []))
        src = ("def __attrs_pre_init__(self%s):\n    REC.cb((\"pre\", [%s], [%s]))\n"
               % (", " + params if params else "", ", ".join(pos_names),
                  ", ".join("(%r, %s)" % (n, n) for n in kw_names)))
        ns = {"REC": REC}
        exec(src, ns)
        return ns["__attrs_pre_init__"]
    else:
        raise ValueError(kind)
    return __attrs_pre_init__


def post_init(self):
    # what must NOT have happened yet when __attrs_post_init__ runs (C02: the steps after it come after it)
    try:
        object.__getattribute__(self, "_attrs_cached_hash")
        REC.early.append("hash cache initialised before __attrs_post_init__ (%s)" % type(self).__name__)
    except AttributeError:
        pass
    REC.cb(("post",))


# --------------------------------------------------------------------------------------
# specifications

NAMES = ["x", "y", "z", "_p", "w", "_q_", "_x"]
CONV_KINDS = [None, None, ("plain", False), ("plain", True), ("conv", False, False, False),
              ("conv", True, False, False), ("conv", False, True, False), ("conv", True, True, True)]


def gen_field(rng, name, cls_uid, allow_hooks=True):
    f = {"name": name}
    r = rng.random()
    f["default"] = None if r < 0.4 else ("value" if r < 0.7 else ("factory", rng.random() < 0.4))
    f["init"] = rng.random() < 0.8
    f["kw_only"] = rng.random() < 0.2
    f["converter"] = rng.choice(CONV_KINDS)
    f["validator"] = rng.random() < 0.4
    f["validator_style"] = rng.choice(["arg", "decorator"])
    f["alias"] = None if rng.random() < 0.8 else "al_" + name.strip("_")
    os_ = rng.random()
    f["on_setattr"] = None
    if allow_hooks and os_ < 0.3:
        f["on_setattr"] = rng.choice(["NO_OP", "user", "validate", "convert", "list_cv", "list_user2", "frozen"])
    f["type"] = rng.random() < 0.3
    f["uid"] = "%s_%s" % (name.strip("_") or "u", cls_uid)
    return f


def gen_class_spec(rng, uid, base=None, hooks_ok=True, extras=False):
    """base: an already built ClassUnderTest or None."""
    api = rng.choice(["attrs", "attrs", "define"])
    s = {"uid": uid, "api": api, "base": base}
    s["style"] = rng.choice(["attrib", "attrib", "annot", "these", "make_class"]) if api == "attrs" else rng.choice(["annot", "attrib_in_define", "these"])
    s["slots"] = rng.random() < 0.5
    s["frozen"] = rng.random() < 0.3
    s["kw_only"] = rng.random() < 0.1
    s["exc"] = base is None and rng.random() < 0.15
    s["cache_hash"] = rng.random() < 0.25
    base_frozen = base is not None and base.frozen
    if base is not None and base.is_exc_base:
        s["exc"] = False
    s["pre"] = rng.choice([None, None, None, "self", "star", "named"])
    if s["pre"] is None and base is not None and base.has_hook("pre") == "named":
        # an inherited hook with named parameters only fits the class it was written for
        s["pre"] = rng.choice(["self", "star", "named"])
    s["post"] = rng.random() < 0.3
    r = rng.random()
    s["on_setattr"] = None
    if r < 0.35 and hooks_ok:
        s["on_setattr"] = rng.choice(["NO_OP", "validate", "convert", "list_cv", "user", "list_user2"])
    n_fields = rng.choice([0, 1, 1, 2, 2, 3, 3, 4])
    pool = NAMES[:] if extras else [n for n in NAMES if n != "_x"]   # extras: opt-in dimensions (C01/C02)
    rng.shuffle(pool)
    names = pool[:n_fields]
    if base is not None and base.field_names and rng.random() < 0.4 and names:
        names[0] = rng.choice(base.field_names)      # override an inherited name
        names = list(dict.fromkeys(names))
    frozen_eff = s["frozen"] or base_frozen
    allow_field_hooks = hooks_ok and (not frozen_eff or rng.random() < 0.15)
    s["fields"] = [gen_field(rng, n, uid, allow_field_hooks) for n in names]
    if "x" in names and "_x" in names:
        # two fields whose default aliases coincide: legal only if at most one is an init parameter;
        # give both factories so that their helpers must not be mixed up
        fx, f_x = [f for f in s["fields"] if f["name"] == "x"][0], [f for f in s["fields"] if f["name"] == "_x"][0]
        loser = rng.choice([fx, f_x])
        loser["init"] = False
        fx["default"] = ("factory", rng.random() < 0.3)
        f_x["default"] = ("factory", rng.random() < 0.3)
    s["extras"] = bool(extras)
    s["init_false"] = bool(extras and not s["cache_hash"] and rng.random() < 0.12)
    if extras:
        for f in s["fields"]:
            # falsy callable objects wherever a callable is accepted
            if f["default"] not in (None, "value") and rng.random() < 0.25:
                f["factory_subclass"] = True
            if rng.random() < 0.2:
                f["falsy"] = [r for r in ("factory", "converter", "validator", "hook") if rng.random() < 0.6]
                if "converter" in f["falsy"] and f["converter"] is not None:
                    f["converter"] = tuple(list(f["converter"][:-1]) + [False])     # a callable object carries no annotation
        convs = [f for f in s["fields"] if f["converter"] and f["converter"][0] == "conv"]
        others = [f for f in s["fields"]]
        # (a) one Converter object serving two fields of this class
        if convs and len(others) >= 2 and rng.random() < 0.3:
            a = rng.choice(convs)
            b_ = rng.choice([f for f in others if f is not a])
            b_["converter"] = a["converter"]
            b_["conv_share"] = a.get("conv_share") or a["uid"]
        # (b) a Converter object of the base reused here for a differently named field, while the
        #     base's field of that name is redefined here with another converter
        if base is not None and rng.random() < 0.5:
            donors = []
            c = base
            while c is not None:
                donors += [f for f in c.spec["fields"] if c.spec.get("extras") and f["converter"] and f["converter"][0] == "conv"]
                c = c.spec["base"]
            own = {f["name"]: f for f in s["fields"]}
            donors = [d for d in donors if d["name"] in own]
            if donors:
                d = rng.choice(donors)
                rec = [f for f in s["fields"] if f["name"] != d["name"]]
                if rec:
                    r_ = rng.choice(rec)
                    r_["converter"] = d["converter"]
                    r_["conv_share"] = d.get("conv_share") or d["uid"]
                    if own[d["name"]].get("conv_share") == r_["conv_share"]:
                        own[d["name"]].pop("conv_share")
                        own[d["name"]]["converter"] = ("conv", False, False, False)
        # (c) bare annotations / plain class-level defaults in the annotation front-end
        if s["style"] == "annot":
            if base is not None:
                for f in s["fields"]:
                    # re-declaring an inherited field by a bare annotation (the ancestor's slot descriptor or
                    # class attribute of that name must not become its default)
                    if f["name"] in base.field_names and rng.random() < 0.7:
                        f.update({"default": None, "converter": None, "validator": False, "alias": None,
                                  "on_setattr": None, "init": True, "kw_only": False, "bare": True})
            for f in s["fields"]:
                if (f["default"] in (None, "value") and f["converter"] is None and not f["validator"] and not f["alias"]
                        and f["on_setattr"] is None and f["init"] and not f["kw_only"] and rng.random() < 0.5):
                    f["bare"] = True
    # an undecorated class between the base and this class (dict leaves only: the slotted build's
    # immediate-bases-only reset is the documented K6 limitation)
    s["plain_between"] = bool(extras and base is not None and not s["slots"] and rng.random() < 0.25)
    if frozen_eff and s["on_setattr"] not in (None, "NO_OP") and rng.random() < 0.85:
        s["on_setattr"] = None
    return s


HOOKSYMS = {"user": ["h"], "list_user2": ["h1", "h2"]}


def resolve_on_setattr(tag, uid):
    """tag -> (python object, model hooks list | special)"""
    if tag is None:
        return None
    if tag == "NO_OP":
        return setters.NO_OP
    if tag == "validate":
        return setters.validate
    if tag == "convert":
        return setters.convert
    if tag == "frozen":
        return setters.frozen
    if tag == "list_cv":
        return [setters.convert, setters.validate]
    if tag == "user":
        return mk_hook("h_" + uid)
    if tag == "list_user2":
        return [mk_hook("h1_" + uid), setters.validate, mk_hook("h2_" + uid)]
    raise ValueError(tag)


def hooks_model(tag, uid):
    return {
        "validate": ["HValidate"], "convert": ["HConvert"], "frozen": ["HFrozen"],
        "list_cv": ["HConvert", "HValidate"], "user": ['HUser %s' % q("h_" + uid)],
        "list_user2": ['HUser %s' % q("h1_" + uid), "HValidate", 'HUser %s' % q("h2_" + uid)],
    }[tag]


class ClassUnderTest:
    """A real attrs class built from a spec, with what the model needs to know."""

    def __init__(self, spec):
        self.spec = spec
        self.cls = None
        self.def_error = None
        self.build()

    # -- building ---------------------------------------------------------------
    def build(self):
        s = self.spec
        base = s["base"]
        uid = s["uid"]
        body = {}
        anns = {}
        these = {}
        field_objs = []
        for f in s["fields"]:
            kw = {}
            fu = f["uid"]
            if f["default"] == "value":
                kw["default"] = Dflt(f["name"])
            elif f["default"] is not None:
                fac = mk_factory(f["name"], "f_" + fu, f["default"][1])
                if "factory" in f.get("falsy", ()):
                    fac = FalsyCall(fac)
                if "factory" in f.get("falsy", ()) and not f["default"][1]:
                    kw["factory"] = fac                      # the factory= spelling
                else:
                    fcls = FactorySub if f.get("factory_subclass") else attr.Factory
                    kw["default"] = fcls(fac, takes_self=f["default"][1])
            if not f["init"]:
                kw["init"] = False
            if f["kw_only"]:
                kw["kw_only"] = True
            if f["converter"] is not None:
                if s.get("extras") and f["converter"][0] == "conv":
                    key = f.get("conv_share") or fu
                    if key not in _CONV_REG:
                        _CONV_REG[key] = mk_converter("", "c_" + key, f["converter"])
                    kw["converter"] = _CONV_REG[key]
                else:
                    kw["converter"] = mk_converter(f["name"], "c_" + fu, f["converter"])
                    if "converter" in f.get("falsy", ()) and f["converter"][0] == "plain":
                        kw["converter"] = FalsyCall(kw["converter"])
            mkv = (lambda *a: FalsyCall(mk_validator(*a))) if "validator" in f.get("falsy", ()) else mk_validator
            if f["validator"] and f["validator_style"] == "arg":
                kw["validator"] = mkv(f["name"], "v_" + fu)
            if f["alias"]:
                kw["alias"] = f["alias"]
            if f["on_setattr"] is not None:
                kw["on_setattr"] = resolve_on_setattr(f["on_setattr"], fu)
                if "hook" in f.get("falsy", ()) and f["on_setattr"] == "user":
                    kw["on_setattr"] = FalsyCall(kw["on_setattr"])
            use_annot = s["style"] in ("annot",)
            if f["type"] and not use_annot:
                kw["type"] = Ann("t_" + fu)
            if f.get("bare") and use_annot:
                # annotation only (mandatory) or a plain class-level value (default)
                field_objs.append((f, kw["default"] if f["default"] == "value" else None))
                continue
            ca = attr.ib(**kw) if s["api"] == "attrs" else attrs.field(**kw)
            if f["validator"] and f["validator_style"] == "decorator":
                ca.validator(mkv(f["name"], "v_" + fu))
            field_objs.append((f, ca))
        for f, ca in field_objs:
            if s["style"] in ("these", "make_class"):
                these[f["name"]] = ca
            else:
                if not (f.get("bare") and ca is None):
                    body[f["name"]] = ca
                if s["style"] == "annot":
                    anns[f["name"]] = Ann("t_" + f["uid"]) if f["type"] else int
        if anns:
            body["__annotations__"] = anns
        if s["pre"] == "named":
            if "_named_sig" not in s:
                # build once without the hook to learn the initializer's parameters
                s["pre"] = None
                probe = ClassUnderTest(s)
                s["pre"] = "named"
                s["_named_sig"] = signature_of(probe.cls) if probe.cls is not None else []
            sg = s["_named_sig"]
            body["__attrs_pre_init__"] = mk_pre("named", [n for n, k, _ in sg if not k], [n for n, k, _ in sg if k])
        elif s["pre"]:
            body["__attrs_pre_init__"] = mk_pre(s["pre"])
        if s["post"]:
            body["__attrs_post_init__"] = post_init
        bases = (base.cls,) if base is not None else ((Exception,) if s["exc"] else (object,))
        if base is not None and s.get("plain_between"):
            bases = (type("P" + uid, (base.cls,), {}),)
        kwargs = {}
        if s["slots"] != (s["api"] == "define"):
            kwargs["slots"] = s["slots"]
        if s["frozen"]:
            kwargs["frozen"] = True
        if s["kw_only"]:
            kwargs["kw_only"] = True
        if s["cache_hash"]:
            kwargs["cache_hash"] = True
            kwargs["unsafe_hash"] = True
        if s["api"] == "attrs":
            kwargs["auto_exc"] = True
            kwargs["eq"] = False if s["exc"] else True
        if s["on_setattr"] is not None:
            kwargs["on_setattr"] = resolve_on_setattr(s["on_setattr"], uid)
        if s.get("init_false"):
            kwargs["init"] = False
        if s["style"] == "annot" and s["api"] == "attrs":
            kwargs["auto_attribs"] = True
        name = "K" + uid
        try:
            if s["style"] == "make_class":
                d = dict(these)
                cb = {k: v for k, v in body.items()}
                self.cls = attr.make_class(name, d, bases=bases, class_body=cb, **kwargs)
            else:
                raw = type(name, bases, dict(body))
                deco = attr.s if s["api"] == "attrs" else attrs.define
                if s["style"] == "these":
                    kwargs["these"] = these
                self.cls = deco(**kwargs)(raw)
        except ValueError as e:
            self.def_error = ("ValueError", str(e))
        except Exception as e:  # pragma: no cover - reported as ObsOther-like definition failure
            self.def_error = (type(e).__name__, str(e))

    # -- facts the model is given --------------------------------------------------
    @property
    def frozen(self):
        s = self.spec
        return bool(s["frozen"] or (s["base"] is not None and s["base"].frozen))

    @property
    def is_exc_base(self):
        s = self.spec
        return bool(s["exc"] or (s["base"] is not None and s["base"].is_exc_base))

    @property
    def field_names(self):
        return [a.name for a in attr.fields(self.cls)] if self.cls is not None else []

    def has_hook(self, which):
        s = self.spec
        while s is not None:
            if s[which]:
                return s[which]
            s = s["base"].spec if s["base"] is not None else None
        return None

    def pre_init_accepts_arguments(self):
        """Does the resolved __attrs_pre_init__ accept anything besides self?  (A property-level fact
        about the user's hook, computed from how the harness wrote it.)"""
        s = self.spec
        while s is not None:
            if s["pre"]:
                if s["pre"] == "named":
                    return bool(s.get("_named_sig"))
                return s["pre"] in ("star", "kwstar")
            s = s["base"].spec if s["base"] is not None else None
        return False

    def builder_on_setattr(self):
        """What the class builder is handed (mirrors the documented define default)."""
        s = self.spec
        tag = s["on_setattr"]
        base_frozen = s["base"] is not None and s["base"].frozen
        if s["api"] == "define":
            if tag is None and not s["frozen"]:
                return "COsNoOp" if base_frozen else "COsDefault"
            if base_frozen and tag is None:
                return "COsNoOp"
        if tag is None:
            return "COsNone"
        if tag == "NO_OP":
            return "COsNoOp"
        hs = hooks_model(tag, s["uid"])
        if tag in ("validate", "convert", "user"):
            return "(COsSingle (%s))" % hs[0] if " " in hs[0] else "(COsSingle %s)" % hs[0]
        return "(COsPipe %s)" % lst(hs)


def enc_attribute(a, owner_fields):
    """Encode a real attr.Attribute into the Coq record (symbols come from our callables)."""
    d = a.default
    if d is attr.NOTHING:
        dk = "DNothing"
    elif isinstance(d, attr.Factory):
        dk = "(DFactory %s %s)" % (q(d.factory.sym), b(d.takes_self))
    else:
        dk = "DValue"
    c = a.converter
    if c is None:
        ck = "CNone"
    elif isinstance(c, attr.Converter):
        fn = c.converter
        ck = "(CConverter %s %s %s %s)" % (q(fn.sym), b(c.takes_self), b(c.takes_field), b(fn.ann is not None))
    else:
        ck = "(CPlain %s %s)" % (q(c.sym), b(c.ann is not None))
    v = a.validator
    vk = "None" if v is None else "(Some %s)" % q(v.sym)
    os_ = a.on_setattr
    if os_ is None:
        ok = "OsNone"
    elif os_ is setters.NO_OP:
        ok = "OsNoOp"
    else:
        ok = "(OsPipe %s)" % lst(owner_fields.get(a.name, ["HValidate"]))
    t = a.type
    tk = "(Some %s)" % q(t.tag) if isinstance(t, Ann) else ("(Some %s)" % q("int") if t is int else "None")
    return ("(Build_attribute %s %s %s %s %s None %s None %s %s %s %s %s %s %s (Some %s))"
            % (q(a.name), dk, vk, b(a.repr is not False), b(bool(a.eq)), b(bool(a.order)),
               "None" if a.hash is None else "(Some %s)" % b(a.hash), b(a.init), tk, ck,
               b(a.kw_only), b(a.inherited), ok, q(a.alias)))


def field_hook_models(cut):
    """name -> list of model hooks for fields with a field-level on_setattr pipe (own or inherited)."""
    out = {}
    c = cut
    while c is not None:
        for f in c.spec["fields"]:
            if f["name"] not in out and f["on_setattr"] not in (None, "NO_OP"):
                out[f["name"]] = hooks_model(f["on_setattr"], f["uid"])
            elif f["name"] not in out:
                out[f["name"]] = None
        c = c.spec["base"]
    return {k: v for k, v in out.items() if v}


def mro_slots(cls):
    out = []
    for c in cls.__mro__[1:-1]:
        sl = c.__dict__.get("__slots__", ())
        if isinstance(sl, str):
            sl = (sl,)
        out.extend(sl)
    return sorted(set(out))


def enc_spec(cut):
    cls = cut.cls
    s = cut.spec
    fl = attr.fields(cls)
    fh = field_hook_models(cut)
    pre = cut.has_hook("pre")
    has_dict = any("__dict__" in c.__dict__ for c in cls.__mro__)
    is_exc = issubclass(cls, BaseException)
    return ("(Build_cls_spec %s %s %s %s %s %s %s %s %s %s %s)"
            % (lst(enc_attribute(a, fh) for a in fl), b(cut.frozen), b(s["slots"]), b(s["cache_hash"]),
               b(is_exc), b(bool(pre)), b(cut.pre_init_accepts_arguments()), b(bool(cut.has_hook("post"))),
               cut.builder_on_setattr(), lst(q(n) for n in mro_slots(cls)), b(has_dict)))


def enc_spec_rejected(cut):
    """For a class whose definition raised ValueError we still need a spec the model rejects:
    encode from the spec (no real Attribute objects exist).  Only used for the hooks-on-frozen rule."""
    return None


# --------------------------------------------------------------------------------------
# events / observations


def enc_event(ev):
    k = ev[0]
    if k == "pre":
        return "(EvPreInit %s %s)" % (lst(enc_val(v) for v in ev[1]), lst(pair(q(n), enc_val(v)) for n, v in ev[2]))
    if k == "fac":
        return "(EvFactory %s %s %s)" % (q(ev[1]), q(ev[2]), b(ev[3]))
    if k == "conv":
        return "(EvConverter %s %s %s)" % (q(ev[1]), q(ev[2]), lst(enc_val(v) for v in ev[3]))
    if k == "val":
        snap = lst(pair(q(n), "None" if v is UNSET else "(Some %s)" % pv(v)) for n, v in ev[4])
        return "(EvValidator %s %s %s %s)" % (q(ev[1]), q(ev[2]), pv(ev[3]), snap)
    if k == "post":
        return "EvPostInit"
    if k == "hook":
        return "(EvHook %s (HUser %s) %s)" % (q(ev[1]), q(ev[2]), pv(ev[3]))
    raise ValueError(ev)


def js_val(v):
    if REC.cls is not None and isinstance(v, REC.cls):
        return "<self>"
    if isinstance(v, attr.Attribute):
        return "<Attribute %s>" % v.name
    if isinstance(v, (Tok, Dflt, Sym)) or v is None or v is attr.NOTHING or isinstance(v, (bool, int, str)):
        return repr(v)
    return "<%s object>" % type(v).__name__


def js_event(ev):
    if ev[0] == "val":
        return ["val", ev[1], ev[2], js_val(ev[3]), [(n, "<unset>" if v is UNSET else js_val(v)) for n, v in ev[4]]]
    if ev[0] == "conv":
        return ["conv", ev[1], ev[2], [js_val(v) for v in ev[3]]]
    if ev[0] == "pre":
        return ["pre", [js_val(v) for v in ev[1]], [(n, js_val(v)) for n, v in ev[2]]]
    return [js_val(x) if not isinstance(x, (str, bool)) else x for x in ev]


def construct(cut, pos, kw, fault_at=None, validators_on=True):
    """Run the real initializer.  Returns (coq observed term, json observed, trace length, instance|None)."""
    cls = cut.cls
    REC.cls = cls
    REC.reset(fault_at)
    from attr import _config
    _config._run_validators = validators_on
    inst = None
    try:
        try:
            if "__attrs_init__" in cls.__dict__:
                # defined with init=False: the equivalent initializer attrs provides instead
                inst = cls.__new__(cls)
                inst.__attrs_init__(*pos, **dict(kw))
            else:
                inst = cls(*pos, **dict(kw))
            out = "done"
        except Marker as m:
            out = ("raised", m.idx)
        except TypeError as e:
            out = "typeerror" if not REC.trace else ("other", "TypeError")
        except Exception as e:
            out = ("other", type(e).__name__)
    finally:
        _config._run_validators = True
    trace = list(REC.trace)
    if out == "done":
        state = [(a.name, getattr(inst, a.name, UNSET)) for a in attr.fields(cls)]
        cache = None
        if cut.spec["cache_hash"]:
            c = getattr(inst, "_attrs_cached_hash", UNSET)
            cache = None if c is UNSET else c
            cache_t = "None" if c is UNSET else "(Some %s)" % pv(c if c is None or isinstance(c, (Tok, Sym)) else Sym("<int>", ()))
        else:
            cache_t = "None"
        args_t = "None"
        args_js = None
        if issubclass(cls, BaseException):
            args_t = "(Some %s)" % lst(enc_val(v) for v in inst.args)
            args_js = [js_val(v) for v in inst.args]
        term = "(ObsDone %s %s %s %s)" % (
            lst(pair(q(n), "None" if v is UNSET else "(Some %s)" % pv(v)) for n, v in state),
            cache_t, args_t, lst(enc_event(e) for e in trace))
        js = {"outcome": "done", "state": [(n, "<unset>" if v is UNSET else js_val(v)) for n, v in state],
              "args": args_js, "trace": [js_event(e) for e in trace]}
    elif out == "typeerror":
        term, js = "ObsTypeError", {"outcome": "TypeError before any callback"}
    elif out[0] == "raised":
        term = "(ObsRaised %d %s)" % (out[1], lst(enc_event(e) for e in trace))
        js = {"outcome": "marker exception %d propagated" % out[1], "trace": [js_event(e) for e in trace]}
    else:
        term = "(ObsOther %s)" % q(out[1])
        js = {"outcome": "exception " + out[1], "trace": [js_event(e) for e in trace]}
    return term, js, len(trace), inst


def enc_call(pos, kw, fault_at, validators_on):
    return "(Build_call %s %s %s %s)" % (
        lst(enc_val(v) for v in pos), lst(pair(q(n), enc_val(v)) for n, v in kw),
        "None" if fault_at is None else "(Some %d)" % fault_at, b(validators_on))


def signature_of(cls):
    sig = inspect.signature(init_function(cls))
    out = []
    for p in list(sig.parameters.values())[1:]:
        out.append((p.name, p.kind is p.KEYWORD_ONLY, p.default is not p.empty))
    return out


def enc_definition(cut):
    if cut.cls is None:
        return "DefRejected"
    cls = cut.cls
    sg = signature_of(cls)
    ann = []
    for name, v in init_function(cls).__annotations__.items():
        if name == "return":
            continue
        if isinstance(v, Ann):
            if v.tag.startswith("ca_"):
                ann.append(pair(q(name), "(AConvParam %s)" % q(v.tag[3:])))
            else:
                ann.append(pair(q(name), "(AType %s)" % q(v.tag)))
        else:
            ann.append(pair(q(name), "(AType %s)" % q(getattr(v, "__name__", repr(v)))))
    return "(DefOk %s %s)" % (lst("(%s, %s, %s)" % (q(n), b(k), b(d)) for n, k, d in sg), lst(ann))


# --------------------------------------------------------------------------------------
# call shapes


def call_shapes(cut, rng, counter):
    """Yield (pos, kw, kind) over the real signature."""
    sg = signature_of(cut.cls)
    posn = [(n, d) for n, k, d in sg if not k]
    kwn = [(n, d) for n, k, d in sg if k]

    def tok():
        counter[0] += 1
        return Tok(counter[0])

    shapes = []
    # only mandatory
    shapes.append(([tok() for n, d in posn if not d], [(n, tok()) for n, d in kwn if not d], "mandatory-only"))
    # all positional + all kw
    shapes.append(([tok() for _ in posn], [(n, tok()) for n, _ in kwn], "all-positional"))
    # all keyword
    shapes.append(([], [(n, tok()) for n, _ in posn + kwn], "all-keyword"))
    # random split
    cut_at = rng.randint(0, len(posn))
    rest = [(n, tok()) for n, d in posn[cut_at:] + kwn if (not d) or rng.random() < 0.5]
    rng.shuffle(rest)
    shapes.append(([tok() for _ in posn[:cut_at]], rest, "random-split"))
    # each optional omitted singly
    for n, d in posn + kwn:
        if d:
            shapes.append(([], [(m, tok()) for m, _ in posn + kwn if m != n], "omit-" + n))
    # explicit NOTHING for one parameter
    if posn + kwn:
        n0 = rng.choice(posn + kwn)[0]
        shapes.append(([], [(m, attr.NOTHING if m == n0 else tok()) for m, _ in posn + kwn], "explicit-NOTHING"))
    # malformed
    mand = [n for n, d in posn + kwn if not d]
    if mand:
        miss = rng.choice(mand)
        shapes.append(([], [(m, tok()) for m, _ in posn + kwn if m != miss], "missing"))
    shapes.append(([], [(m, tok()) for m, _ in posn + kwn] + [("no_such_param", tok())], "unknown"))
    shapes.append(([tok() for _ in posn] + [tok()], [(n, tok()) for n, _ in kwn], "surplus"))
    if posn:
        shapes.append(([tok() for _ in posn], [(posn[0][0], tok())] + [(n, tok()) for n, _ in kwn], "duplicate"))
    # dedupe identical shapes (e.g. no optional params)
    seen, out = set(), []
    for pos, kw, kind in shapes:
        key = (len(pos), tuple(n for n, _ in kw), tuple(v is attr.NOTHING for _, v in kw))
        if key in seen:
            continue
        seen.add(key)
        out.append((pos, kw, kind))
    return out
