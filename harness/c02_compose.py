"""C02 - composite callbacks: converter lists / pipe() with Converter members, validator lists,
nested and shared and_() composites, duplicate members, @x.validator on top of a composite.
Model: coq/theories/C02/Compose.v (theorems composite_* in Props/C02.v).  Each generated class is
constructed fault-free (validators on and off) and once per trace position with that callback
raising a marked exception; the model is evaluated on the same spec inside coqc."""
import random
from collections import Counter

import attr

from . import vlib
from .vlib import Discrepancy

HEADER = "From Attrs Require Import Base C02.Compose."
CASE_TYPE = "ccase"
CHECK = "check_ccase"
MODEL = "model_of_c"


class Marked(Exception):
    pass


class _Run:
    log = []
    pos = 0
    fault = None
    marked = None


def _tick():
    k = _Run.pos
    _Run.pos += 1
    if _Run.fault is not None and k == _Run.fault:
        _Run.marked = Marked("fault at %d" % k)
        raise _Run.marked


def _root(x):
    while isinstance(x, tuple) and x and x[0] == "app":
        x = x[2]
    return x[1] if isinstance(x, tuple) and x and x[0] == "arg" else None


def _mk_plain(name):
    def conv(x):
        _Run.log.append(("conv", name, x, False, False, None))
        _tick()
        return ("app", name, x)
    conv.__name__ = name
    return conv


def _mk_converter(name, ts, tf):
    def conv(x, *rest):
        rest = list(rest)
        inst = rest.pop(0) if ts and rest else None
        fld = rest.pop(0) if tf and rest else None
        got_inst = ts and inst is not None and attr.has(type(inst))
        _Run.log.append(("conv", name, x, bool(got_inst), fld is not None and isinstance(fld, attr.Attribute),
                         fld.name if isinstance(fld, attr.Attribute) else None))
        _tick()
        return ("app", name, x)
    conv.__name__ = name
    return attr.Converter(conv, takes_self=ts, takes_field=tf)


def _mk_validator(name):
    def val(inst, a, x):
        _Run.log.append(("val", name, x, a.name))
        _tick()
    val.__name__ = name
    return val


def gen_spec(rng, uid):
    """A spec is JSON-able; sharing is by name (same name = same Python object)."""
    nf = rng.choice([1, 2, 2, 3])
    conv_pool = ["c%d" % i for i in range(4)]
    val_pool = ["v%d" % i for i in range(4)]
    kinds = {}
    for c in conv_pool:
        kinds[c] = rng.choice([(None,), (None,), (False, False), (True, False), (False, True), (True, True)])
    # some members are wrapped in converters.optional(): arguments are never None here, so the wrapper must
    # behave exactly like its member (same call, same forwarding of instance/field)
    optw = {c: rng.random() < 0.3 for c in conv_pool}
    shared_comp = None
    if rng.random() < 0.6:
        shared_comp = [rng.choice(val_pool) for _ in range(rng.choice([1, 2, 2, 3]))]
    fields = []
    for i in range(nf):
        steps = [rng.choice(conv_pool) for _ in range(rng.choice([0, 1, 2, 3, 3]))]
        vstyle = rng.choice(["none", "list", "and", "nested", "shared", "shared", "single"])
        if vstyle == "shared" and shared_comp is None:
            vstyle = "list"
        vals = {"none": [], "single": [rng.choice(val_pool)], "shared": list(shared_comp or [])}.get(vstyle)
        if vals is None:
            vals = [rng.choice(val_pool) for _ in range(rng.choice([1, 2, 3, 3]))]   # duplicates welcome
        fields.append({"name": "f%d" % i, "steps": steps, "cstyle": rng.choice(["list", "pipe", "tuple"]),
                       "vstyle": vstyle, "vals": vals,
                       "deco": rng.random() < 0.3, "deco2": rng.random() < 0.1})
    return {"uid": uid, "fields": fields, "kinds": {k: list(v) for k, v in kinds.items()}, "opt": optw,
            "shared": shared_comp, "api": rng.choice(["attrs", "define"]), "slots": rng.random() < 0.5,
            "frozen": rng.random() < 0.3}


def build(spec):
    convs = {}
    for name, k in spec["kinds"].items():
        convs[name] = _mk_plain(name) if k[0] is None else _mk_converter(name, k[0], k[1])
        if spec.get("opt", {}).get(name):
            convs[name] = attr.converters.optional(convs[name])
    vals = {n: _mk_validator(n) for n in ("v0", "v1", "v2", "v3")}
    shared = attr.validators.and_(*[vals[v] for v in spec["shared"]]) if spec["shared"] is not None else None
    ns = {}
    decos = []
    for f in spec["fields"]:
        kw = {}
        members = [convs[s] for s in f["steps"]]
        if members:
            kw["converter"] = {"list": members, "tuple": tuple(members),
                               "pipe": attr.converters.pipe(*members)}[f["cstyle"]]
        vs = [vals[v] for v in f["vals"]]
        st = f["vstyle"]
        if st == "single":
            kw["validator"] = vs[0]
        elif st == "list":
            kw["validator"] = vs
        elif st == "and":
            kw["validator"] = attr.validators.and_(*vs)
        elif st == "nested":
            kw["validator"] = attr.validators.and_(vs[0], attr.validators.and_(*vs[1:])) if len(vs) > 1 \
                else attr.validators.and_(attr.validators.and_(*vs))
        elif st == "shared":
            kw["validator"] = shared
        ca = attr.ib(**kw)
        ns[f["name"]] = ca
        for flag, tag in ((f["deco"], "m_"), (f["deco2"], "n_")):
            if flag:
                mname = tag + f["name"]

                def meth(self, a, x, _n=mname):
                    _Run.log.append(("val", _n, x, a.name))
                    _tick()
                meth.__name__ = mname
                ns[mname] = ca.validator(meth)
                decos.append(mname)
    body = type("K" + spec["uid"], (), ns)
    if spec["api"] == "attrs":
        cls = attr.s(slots=spec["slots"], frozen=spec["frozen"])(body)
    else:
        cls = attr.define(slots=spec["slots"], frozen=spec["frozen"])(body)
    return cls


def model_fields(spec):
    out = []
    for f in spec["fields"]:
        vs = list(f["vals"])
        if f["deco"]:
            vs.append("m_" + f["name"])
        if f["deco2"]:
            vs.append("n_" + f["name"])
        out.append((f["name"], [(s, spec["kinds"][s]) for s in f["steps"]], vs))
    return out


def enc_tm(x):
    if isinstance(x, tuple) and x and x[0] == "arg":
        return "(TArg %d)" % x[1]
    if isinstance(x, tuple) and x and x[0] == "app":
        return "(TApp %s %s)" % (vlib.q(x[1]), enc_tm(x[2]))
    return '(TApp "<foreign value>" (TArg 0))'


def enc_event(e, names):
    if e[0] == "conv":
        _, name, x, gi, gf, fname = e
        r = _root(x)
        fld = fname if fname is not None else (names[r] if r is not None and r < len(names) else "?")
        return "(EConv %s %s %s %s %s)" % (vlib.q(fld), vlib.q(name), enc_tm(x), vlib.b(gi), vlib.b(gf))
    _, name, x, fld = e
    return "(EVal %s %s %s)" % (vlib.q(fld), vlib.q(name), enc_tm(x))


def enc_fields(spec):
    fs = []
    for name, steps, vs in model_fields(spec):
        st = ["{| s_fn := %s; s_self := %s; s_field := %s |}" % (vlib.q(s), vlib.b(bool(k[0])), vlib.b(bool(k[1])) if k[0] is not None else "false")
              for s, k in steps]
        fs.append("{| c_name := %s; c_steps := %s; c_vals := %s |}" % (vlib.q(name), vlib.lst(st), vlib.lst(vlib.q(v) for v in vs)))
    return vlib.lst(fs)


def observe(cls, spec, von, fault):
    """Returns (trace, values | None, problem | None)."""
    names = [f["name"] for f in spec["fields"]]
    _Run.log, _Run.pos, _Run.fault, _Run.marked = [], 0, fault, None
    attr.validators.set_disabled(not von)
    try:
        try:
            inst = cls(*[("arg", i) for i in range(len(names))])
        except Marked as e:
            if e is not _Run.marked:
                return list(_Run.log), None, "a different exception object came out"
            return list(_Run.log), None, None
        except Exception as e:  # noqa: BLE001
            return list(_Run.log), None, "construction raised %s: %s" % (type(e).__name__, e)
        if _Run.marked is not None:
            return list(_Run.log), None, "the marked exception of callback %d was swallowed" % fault
        return list(_Run.log), [getattr(inst, n) for n in names], None
    finally:
        attr.validators.set_disabled(False)
        _Run.fault = None


def case_term(spec, von, fault, trace, values):
    names = [f["name"] for f in spec["fields"]]
    return ("{| cc_fields := %s; cc_von := %s; cc_fault := %s; cc_seen_trace := %s; cc_seen_values := %s |}"
            % (enc_fields(spec), vlib.b(von), vlib.opt(fault, lambda k: "%d" % k),
               vlib.lst(enc_event(e, names) for e in trace),
               "None" if values is None else "(Some %s)" % vlib.lst(enc_tm(v) for v in values)))


def cases_of(spec):
    """[(term, inp, seen, problem)]"""
    out = []
    try:
        cls = build(spec)
    except Exception as e:  # noqa: BLE001
        return [(None, {"compose_spec": spec}, None, "definition raised %s: %s" % (type(e).__name__, e))]
    t0, v0, p0 = observe(cls, spec, True, None)
    runs = [(True, None, t0, v0, p0)]
    runs.append((False, None) + observe(cls, spec, False, None))
    # one run per position of the specification trace (computed from the spec, not from the observed run)
    n = sum(len(s) for _, s, _ in model_fields(spec)) + sum(len(v) for _, _, v in model_fields(spec))
    for k in range(n):
        runs.append((True, k) + observe(cls, spec, True, k))
    for von, fault, tr, vals, prob in runs:
        inp = {"compose_spec": spec, "validators_on": von, "fault": fault}
        seen = {"trace": [list(map(str, e)) for e in tr], "values": None if vals is None else [str(v) for v in vals]}
        out.append((case_term(spec, von, fault, tr, vals), inp, seen, prob))
    return out


def run(tier, seed, prop="C02"):
    rng = random.Random(seed * 7919 + 17)
    n = 45 if tier == "quick" else 700
    dist = Counter()
    terms, meta, disc = [], [], []
    for i in range(n):
        spec = gen_spec(rng, "c%d" % i)
        for term, inp, seen, prob in cases_of(spec):
            if prob is not None:
                if len(disc) < 6:
                    disc.append(Discrepancy({"kind": "composite-callbacks"}, "composite callbacks: " + prob,
                                            {"input": inp, "implementation": seen, "seed": seed, "tier": tier}))
                continue
            terms.append(term)
            meta.append((inp, seen))
        dist["classes"] += 1
        for f in spec["fields"]:
            dist["vstyle=" + f["vstyle"]] += 1
            dist["steps=%d" % len(f["steps"])] += 1
            dist["dup-validators"] += len(set(f["vals"])) < len(f["vals"])
            dist["mixed-pipe"] += len({spec["kinds"][s][0] is None for s in f["steps"]}) == 2
            dist["decorated"] += bool(f["deco"])
            dist["optional-wrapped-members"] += sum(1 for st in f["steps"] if spec["opt"].get(st))
    bad = vlib.run_cases(prop, HEADER, CASE_TYPE, CHECK, terms, tag="compose")
    for i in bad[:6]:
        inp, seen = meta[i]
        try:
            says = vlib.eval_in_coq(prop, HEADER, "%s (%s)" % (MODEL, terms[i]))
        except Exception as e:  # pragma: no cover
            says = "<explain failed: %r>" % (e,)
        disc.append(Discrepancy({"kind": "composite-callbacks"}, "composite callbacks: model and implementation differ",
                                {"input": inp, "implementation": seen, "model": says, "seed": seed, "tier": tier}))
    cov = {"composite_cases_evaluated_in_coq": len(terms), "composite_distribution": dict(dist)}
    return disc, cov


def rerun(inp):
    spec = inp["compose_spec"]
    cls = build(spec)
    tr, vals, prob = observe(cls, spec, inp.get("validators_on", True), inp.get("fault"))
    seen = {"trace": [list(map(str, e)) for e in tr], "values": None if vals is None else [str(v) for v in vals], "problem": prob}
    return case_term(spec, inp.get("validators_on", True), inp.get("fault"), tr, vals), seen, prob
