"""C17 - generated code is hermetic and its source is faithfully inspectable.

Real-side driver.  Every class is defined from generated SOURCE TEXT by exec in a fresh
synthetic module; the text only mentions the module global `H` (a dict with the decorator,
the prepared attr.ib objects, hooks ...), so every other name of the module namespace -
including all builtin names - can be pre-bound to poison objects."""
from __future__ import annotations

import builtins
import copy
import dis
import functools
import gc
import inspect
import itertools
import json
import linecache
import random
import sys
import threading
import time
import types
from collections import Counter

import attr
import attrs
from attr import _compat, _config, setters

from . import initgen as g
from . import vlib
from .driver import Case
from .vlib import b, lst, q

PROP = "C17"
CASE_TYPE = "case"
CHECK = "check_case"
MODEL = "model_of"

# names of the builtins namespace that a poisoned module pre-binds (module attributes such as
# __name__ are left alone: the class statement itself reads them)
_KEEP = {"__name__", "__doc__", "__package__", "__loader__", "__spec__", "__debug__", "__builtins__"}
# Since 8708354 attrs reads the defining module's namespace with vars(); a module-level global called
# __dict__ is poisoned like every other name (and the `repeat` family keeps the fresh-interpreter
# scenario of the old defect).  The harness itself never evaluates `module.__dict__` on such a module.
NO_POISON = set()
BUILTIN_NAMES = sorted(n for n in dir(builtins) if n not in _KEEP and all(32 <= ord(c) < 127 for c in n))

HEADER = ("From Attrs Require Import Base Core.Attr Core.Init C17.Model C17.Corr.\n"
          "From Coq Require Import List String.\nImport ListNotations.\nOpen Scope string_scope.\n"
          "Definition bn_ : list string := %s.\n" % lst(q(n) for n in BUILTIN_NAMES))

RULE = ("(a) seeded random class specifications (harness/initgen.py option space: per field default "
        "none/value/factory x init x kw_only x converter kinds x validator x alias x on_setattr x type; "
        "class slots x frozen x cache_hash x kw_only x hooks x exception base x attr.s/define front ends, "
        "extended with repr True/False/custom callable, eq True/False/key function, hash None/True/False, "
        "class-level repr/eq/unsafe_hash/init switches) are each defined from source text three times: in a "
        "clean module, in a module that pre-binds every co_names/co_varnames name of the generated code "
        "objects, every helper name of every role for every field, every fixed name and every builtin name "
        "to poison objects and whose __builtins__ entry is a dict of poison objects, and in a module with "
        "only the poisoned __builtins__; per build the harness records for each generated method the "
        "LOAD_GLOBAL names, co_varnames, the names read while the defs executed and the provenance of "
        "each in the real globals dict (helper callable by identity, attrs object, real builtin, module "
        "poison, builtins fall-through), and compares construction for all call shapes, repr, ==, !=, "
        "hash equality and assignment with the clean build; (b) field-name sets built from prefixes and "
        "suffixes of the naming scheme with random roles, compared with the same class under innocuous "
        "names; (b') init aliases equal or close to names the generated __init__ uses; (c) inspect.getsource "
        "/ linecache / recompilation of every generated method (recognised by the doc string "
        "_add_method_dunders leaves, not by the predicted filename), also exhaustively over slots x frozen x "
        "cache_hash x unsafe_hash x init; (c') the cached-property __getattr__ wrapper; (d) histories of up to 6 same-module classes over qualnames K, K-1, K-2 with repeated "
        "and distinct bodies and garbage collection in between; (e) 2/4/8 threads defining same-qualname "
        "classes with different bodies under sys.setswitchinterval(1e-6), 60% of them with a trace hook that "
        "yields between the lines of _linecache_and_compile, and in two thirds of them 1-2 further threads publishing "
        "and deleting globals of the defining module (its namespace changes SIZE while classes are defined; a "
        "failed definition is a never-predicted observation); (f) in a fresh interpreter 40 classes defined in ONE "
        "module binding a global __dict__ (the defect fixed by 8708354) / a control set of other internal names; "
        "(g) converter OBJECTS with a history: one attr.Converter / converters.optional(Converter) / pipe(Converter, ..) "
        "/ plain function object first used for a field of one or two earlier classes, or for another field of the same "
        "class, then for a differently named field of the class under test (which may have its own field of the earlier "
        "name with another converter): provenance per helper name, source, and behaviour equal to the same class built "
        "with a never-used object.  "
        "distinct = distinct case term; "
        "non-trivial = class with at least one field (a, b), at least two definitions (d, e)")
EXTRA_TRUSTED = [
    "harness/translate_c17.py: the fail-closed translator that regenerates Gen/C17_tie.v from the text of "
    "_generate_unique_filename, _GENERATED_CODE_BUILTINS, _ClassBuilder._eval_snippets, attrs().wrap (snippet "
    "order), _linecache_and_compile and _compile_and_eval; its primitives drop_last (x[:-1]), render (f'{int}'), "
    "dict.update as list append with last-write-wins lookup, and the linecache tuple abstracted to (script, string "
    "component) with len / splitlines equality as the oracles leqb / seqb",
    "dis.get_instructions (LOAD_GLOBAL / LOAD_NAME / co_varnames) is how the harness learns which names the "
    "real code objects read; identity of the objects found in function.__globals__ is how it learns their "
    "provenance",
    "inspect.getsource / linecache.getlines / compile fidelity and real thread preemption are runtime "
    "observations (families c, d own-source flags, e): label partial",
    "linecache tuples (len, None, lines, filename) stored under one key are equal iff the scripts are "
    "(''.join(s.splitlines(True)) == s)",
]
ASSUMPTIONS = [
    "nobody but attrs writes or deletes '<attrs generated ...>' keys of linecache.cache (linecache.checkcache "
    "keeps entries whose mtime is None; linecache.clearcache() would drop them)",
    "dict.setdefault on a str-keyed dict is atomic (one bytecode-level C call under the GIL)",
    "vars(sys.modules[m]) is the namespace of module m",
    "no init alias equals a name the generated __init__ uses (guard of theorem hermetic; violations are "
    "finding K9)",
]

_uid = itertools.count(1)


def pre_build():
    # Gen/C17_tie.v is regenerated from the current source text (theories/C17/Tie.v imports it)
    from . import translate_c17
    translate_c17.regenerate()


def translated_tie():
    from . import translate_c17
    return translate_c17.regenerate(), "theories/C17/Tie.vo"


# --------------------------------------------------------------------------------------
# naming replica (tied to the Coq model by the hc_py_guard field of every CHerm case)

PREFIXES = {"RRepr": "__attr_repr_", "RKey": "__attr_key_", "RFactory": "__attr_factory_",
            "RConverter": "__attr_converter_", "RValidator": "__attr_validator_", "RField": "__attr_field_"}
ROLES = ["RRepr", "RKey", "RFactory", "RConverter", "RValidator", "RField"]
FIXED = ["AttributeError", "BaseException", "NotImplemented", "__import__", "getattr", "hash", "id", "object",
         "_compat", "_config", "NOTHING", "attr_dict", "_cached_setattr_get",
         "self", "other", "already_repring", "_cache_wrapper", "_setattr", "_inst_dict",
         "__repr__", "__eq__", "__hash__", "__init__", "__attrs_init__"]
PINNED = FIXED[:8]


def helper_name(role, n):
    return PREFIXES[role] + n


def old_helper_name(role, n):
    """The scheme before b8060e0 (still poisoned, so that a revert is seen)."""
    if role == "RRepr":
        return n + "_repr"
    if role == "RKey":
        return "_" + n + "_key"
    return PREFIXES[role] + n


def name_guard(role, n):
    """Nothing is required of field names since all helpers are prefixed."""
    return True


# --------------------------------------------------------------------------------------
# poison


class PoisonUsed(Exception):
    pass


class Poison:
    __slots__ = ("pname", "tag")

    def __init__(self, pname, tag):
        object.__setattr__(self, "pname", pname)
        object.__setattr__(self, "tag", tag)

    def _boom(self, *a, **k):
        raise PoisonUsed(object.__getattribute__(self, "pname"))

    __call__ = __eq__ = __ne__ = __lt__ = __le__ = __gt__ = __ge__ = __bool__ = __iter__ = _boom
    __getitem__ = __len__ = __contains__ = __hash__ = __setattr__ = __delattr__ = __get__ = _boom
    __str__ = __format__ = __add__ = __radd__ = __enter__ = __index__ = __instancecheck__ = _boom

    def __getattr__(self, item):
        raise PoisonUsed(object.__getattribute__(self, "pname") + "." + item)

    def __repr__(self):
        raise PoisonUsed(object.__getattribute__(self, "pname"))


TAG_BUILTINS_NS = 999


# --------------------------------------------------------------------------------------
# recording helper callables for the two roles initgen does not have


def mk_repr(fld, fn):
    def rep(v):
        g.REC.cb(("REPR", fld, fn))
        return "<%s>" % fn
    rep.sym = fn
    return rep


def mk_key(fld, fn):
    def key(v):
        g.REC.cb(("KEY", fld, fn))
        return (fn, v)
    key.sym = fn
    return key


# --------------------------------------------------------------------------------------
# specifications: initgen's generator + repr / eq / hash / method switches


def extend_spec(rng, s, rich=True):
    for f in s["fields"]:
        r = rng.random()
        f["repr"] = "custom" if r < 0.3 else (False if r < 0.4 else True)
        r = rng.random()
        f["eq"] = "key" if r < 0.3 else (False if r < 0.4 else True)
        r = rng.random()
        f["hash"] = None if r < 0.8 else (r < 0.9)
    s["c_repr"] = rng.random() < 0.9
    s["c_eq"] = rng.random() < 0.85
    s["c_hash"] = rng.random() < 0.6
    s["c_init"] = rng.random() < 0.9
    s["qual"] = "K"
    s["nest"] = rng.choice([None, None, "function", "class"])
    # the other branch of the repr generator (attr.s only)
    s["repr_ns"] = "NS" if s["api"] == "attrs" and rng.random() < 0.3 else None
    return s


def norm_spec(s):
    """After a JSON round trip: tuples back."""
    s = dict(s)
    s["base"] = None
    s["fields"] = [dict(f) for f in s["fields"]]
    for f in s["fields"]:
        if isinstance(f["default"], list):
            f["default"] = tuple(f["default"])
        if isinstance(f["converter"], list):
            f["converter"] = tuple(f["converter"])
    if "_named_sig" in s:
        s["_named_sig"] = [tuple(x) for x in s["_named_sig"]]
    return s


def describe(s):
    d = {k: v for k, v in s.items() if k != "base"}
    return json.loads(json.dumps(d, default=str))


# --------------------------------------------------------------------------------------
# synthetic modules


class Env:
    """A synthetic defining module.  kind: clean | names | builtins."""

    def __init__(self, kind, poison_names=()):
        self.kind = kind
        self.name = "verif_c17_m%d" % next(_uid)
        self.mod = types.ModuleType(self.name)
        sys.modules[self.name] = self.mod
        # keep the dict itself: once the module binds a name `__dict__`, CPython's specialised
        # LOAD_ATTR for module attributes may hand out that binding for `mod.__dict__`
        d = self.ns = self.mod.__dict__
        self.bound = []          # module-level names that get a tag (position + 1)
        self.bn = kind == "names"
        self.poisons = {}
        if kind == "clean":
            d["__builtins__"] = builtins.__dict__
        else:
            pb = {n: Poison("builtins." + n, TAG_BUILTINS_NS) for n in BUILTIN_NAMES}
            pb["__build_class__"] = builtins.__build_class__
            pb["__name__"] = "builtins"
            self.poison_builtins = pb
            d["__builtins__"] = pb
        if kind == "names":
            for i, n in enumerate(BUILTIN_NAMES):
                p = Poison(n, 1000 + i)
                d[n] = p
            for n in poison_names:
                if n in _KEEP or n in NO_POISON or n == "H" or n in d:
                    continue
                self.bound.append(n)
                d[n] = Poison(n, len(self.bound))

    def builtins_binding(self):
        return "(Some BRealBuiltins)" if self.kind == "clean" else "(Some (BModule %d))" % TAG_BUILTINS_NS

    def close(self):
        sys.modules.pop(self.name, None)
        for k in [k for k in linecache.cache if isinstance(k, str) and k.startswith("<attrs generated") and (" " + self.name + ".") in k]:
            del linecache.cache[k]


class TextClass(g.ClassUnderTest):
    """A real attrs class built from a spec by exec of source text in env's module."""

    def __init__(self, spec, env, shared=None):
        self.env = env
        self.shared = shared or {}   # key -> prebuilt converter object (possibly used before, elsewhere)
        self.helpers = {}        # id(callable) -> [(role, field), ...]
        self.keep = []           # keep helper objects alive (ids must stay unique)
        self.text = None
        super().__init__(spec)

    def _reg(self, role, fld, obj):
        self.helpers.setdefault(id(obj), []).append((role, fld))
        self.keep.append(obj)
        return obj

    def build(self):
        s = self.spec
        uid = s["uid"]
        H = {"ca": {}, "ann": {}, "these": {}, "body": {}}
        field_lines = []
        for f in s["fields"]:
            kw = {}
            fu = f["uid"]
            name = f["name"]
            if f["default"] == "value":
                kw["default"] = g.Dflt(name)
            elif f["default"] is not None:
                fac = self._reg("RFactory", name, g.mk_factory(name, "f_" + fu, f["default"][1]))
                kw["default"] = attr.Factory(fac, takes_self=f["default"][1])
            if not f["init"]:
                kw["init"] = False
            if f["kw_only"]:
                kw["kw_only"] = True
            if f.get("conv_ref") is not None:
                c = self.shared[f["conv_ref"]]
                self._reg("RConverter", name, c.converter if isinstance(c, attr.Converter) else c)
                kw["converter"] = c
            elif f["converter"] is not None:
                c = g.mk_converter(name, "c_" + fu, f["converter"])
                self._reg("RConverter", name, c.converter if isinstance(c, attr.Converter) else c)
                self.keep.append(c)
                kw["converter"] = c
            val = None
            if f["validator"]:
                val = self._reg("RValidator", name, g.mk_validator(name, "v_" + fu))
                if f["validator_style"] == "arg":
                    kw["validator"] = val
            if f["alias"]:
                kw["alias"] = f["alias"]
            if f["on_setattr"] is not None:
                kw["on_setattr"] = g.resolve_on_setattr(f["on_setattr"], fu)
            if f.get("repr", True) == "custom":
                kw["repr"] = self._reg("RRepr", name, mk_repr(name, "r_" + fu))
            elif f.get("repr", True) is False:
                kw["repr"] = False
            if f.get("eq", True) == "key":
                kw["eq"] = self._reg("RKey", name, mk_key(name, "k_" + fu))
            elif f.get("eq", True) is False:
                kw["eq"] = False
            if f.get("hash") is not None:
                kw["hash"] = f["hash"]
            use_annot = s["style"] == "annot"
            if f["type"] and not use_annot:
                kw["type"] = g.Ann("t_" + fu)
            ca = attr.ib(**kw) if s["api"] == "attrs" else attrs.field(**kw)
            if val is not None and f["validator_style"] == "decorator":
                ca.validator(val)
            if s["style"] in ("these", "make_class"):
                H["these"][name] = ca
            else:
                H["ca"][name] = ca
                if use_annot:
                    H["ann"][name] = g.Ann("t_" + fu) if f["type"] else int
                    field_lines.append('    %s: H["ann"][%r] = H["ca"][%r]' % (name, name, name))
                else:
                    field_lines.append('    %s = H["ca"][%r]' % (name, name))
        hook_lines = []
        if s["pre"] == "named":
            if "_named_sig" not in s:
                s["pre"] = None
                probe = TextClass(s, self.env)
                s["pre"] = "named"
                s["_named_sig"] = g.signature_of(probe.cls) if probe.cls is not None else []
            sg = s["_named_sig"]
            H["body"]["__attrs_pre_init__"] = g.mk_pre("named", [n for n, k, _ in sg if not k], [n for n, k, _ in sg if k])
        elif s["pre"]:
            H["body"]["__attrs_pre_init__"] = g.mk_pre(s["pre"])
        if s["post"]:
            H["body"]["__attrs_post_init__"] = g.post_init
        for hn in H["body"]:
            hook_lines.append('    %s = H["body"][%r]' % (hn, hn))
        H["bases"] = (Exception,) if s["exc"] else (object,)
        kwargs = {}
        if s["slots"] != (s["api"] == "define"):
            kwargs["slots"] = s["slots"]
        if s["frozen"]:
            kwargs["frozen"] = True
        if s["kw_only"]:
            kwargs["kw_only"] = True
        if s["api"] == "attrs":
            kwargs["auto_exc"] = True
            kwargs["eq"] = False if s["exc"] else True
        if not s.get("c_eq", True):
            kwargs["eq"] = False
        if s["cache_hash"]:
            kwargs["cache_hash"] = True
            kwargs["unsafe_hash"] = True
        elif s.get("c_hash", False):
            kwargs["unsafe_hash"] = True
        if not s.get("c_repr", True):
            kwargs["repr"] = False
        elif s.get("repr_ns") and s["api"] == "attrs":
            kwargs["repr_ns"] = s["repr_ns"]
        if not s.get("c_init", True):
            kwargs["init"] = False
        if s["on_setattr"] is not None:
            kwargs["on_setattr"] = g.resolve_on_setattr(s["on_setattr"], uid)
        if s["style"] == "annot" and s["api"] == "attrs":
            kwargs["auto_attribs"] = True
        if s["style"] == "these":
            kwargs["these"] = H["these"]
        H["kw"] = kwargs
        H["deco"] = attr.s if s["api"] == "attrs" else attrs.define
        H["make_class"] = attr.make_class
        qual = s.get("qual", "K")
        if s["style"] == "make_class":
            text = 'K_ = H["make_class"](%r, H["these"], bases=H["bases"], class_body=H["body"], **H["kw"])\n' % qual
        elif s.get("nest") == "function":
            body = field_lines + hook_lines or ["    pass"]
            text = ('def mk_():\n    @H["deco"](**H["kw"])\n    class %s(*H["bases"]):\n%s\n    return %s\nK_ = mk_()\n'
                    % (qual, "\n".join("    " + l for l in body), qual))
        elif s.get("nest") == "class":
            body = field_lines + hook_lines or ["    pass"]
            text = ('class Outer_:\n    @H["deco"](**H["kw"])\n    class %s(*H["bases"]):\n%s\nK_ = Outer_.%s\n'
                    % (qual, "\n".join("    " + l for l in body), qual))
        else:
            body = field_lines + hook_lines or ["    pass"]
            text = '@H["deco"](**H["kw"])\nclass %s(*H["bases"]):\n%s\nK_ = %s\n' % (qual, "\n".join(body), qual)
        self.text = text
        self.H = H
        d = self.env.ns
        d["H"] = H
        try:
            import warnings
            with warnings.catch_warnings():
                warnings.simplefilter("ignore", DeprecationWarning)      # repr_ns
                exec(compile(text, "<c17 %s>" % self.env.name, "exec"), d)
            self.cls = d["K_"]
        except ValueError as e:
            self.def_error = ("ValueError", str(e))
        except PoisonUsed as e:
            self.def_error = ("PoisonUsed", str(e))
        except Exception as e:
            self.def_error = (type(e).__name__, str(e))


# --------------------------------------------------------------------------------------
# observations on a built class

SCRIPT_METHODS = ["__repr__", "__eq__", "__hash__", "__init__", "__attrs_init__"]
METH = {"__repr__": "MRepr", "__eq__": "MEq", "__hash__": "MHash", "__init__": "MInit", "__attrs_init__": "MInit"}


def generated_funcs(cls):
    """The attrs-generated script methods of the class, recognised by what _add_method_dunders
    leaves on them (or by an '<attrs generated' filename of any kind) - NOT by the filename the
    model predicts: a generated method compiled elsewhere must still be observed."""
    out = []
    for n in SCRIPT_METHODS:
        f = cls.__dict__.get(n)
        if not isinstance(f, types.FunctionType):
            continue
        doc = f.__doc__ or ""
        if doc.startswith("Method generated by attrs for class") or f.__code__.co_filename.startswith("<attrs generated"):
            out.append((n, f))
    return out


def global_reads(code):
    return sorted({i.argval for i in dis.get_instructions(code) if i.opname in ("LOAD_GLOBAL", "LOAD_NAME")})


def enc_binding(t):
    k = t[0]
    if k == "module":
        return "(BModule %d)" % t[1]
    if k == "realbuiltins":
        return "BRealBuiltins"
    if k == "builtin":
        return "(BBuiltin %s)" % q(t[1])
    if k == "attrs":
        return "(BAttrs %s)" % q(t[1])
    if k == "helper":
        return "(BHelper %s %s)" % (t[1], q(t[2]))
    raise ValueError(t)


def enc_resolution(r):
    if r[0] == "local":
        return "RLocal"
    if r[0] == "global":
        return "(RGlobal %s)" % enc_binding(r[1])
    return "(RBuiltins %s %s)" % ("None" if r[1] is None else "(Some %s)" % enc_binding(r[1]), q(r[2]))


def classify_value(v, tc, name=None):
    if isinstance(v, Poison):
        return ("module", object.__getattribute__(v, "tag"))
    hs = tc.helpers.get(id(v))
    if hs:
        # one object may serve several fields: it is the helper of the field the name belongs to, if any
        for r, f in hs:
            if name is not None and helper_name(r, f) == name:
                return ("helper", r, f)
        return ("helper", hs[0][0], hs[0][1])
    if isinstance(v, attr.Attribute) and tc.cls is not None and any(v is a for a in attr.fields(tc.cls)):
        return ("helper", "RField", v.name)
    if v is _compat:
        return ("attrs", "_compat")
    if v is _config:
        return ("attrs", "_config")
    if v is attr.NOTHING:
        return ("attrs", "NOTHING")
    if v is builtins.__dict__ or v is builtins:
        return ("realbuiltins",)
    if isinstance(v, dict) and tc.cls is not None and v and all(
            isinstance(x, attr.Attribute) and any(x is a for a in attr.fields(tc.cls)) and k == x.name
            for k, x in v.items()):
        return ("attrs", "attr_dict")
    if isinstance(v, dict) and not v and tc.cls is not None:
        return ("attrs", "attr_dict")
    try:
        if v == object.__setattr__.__get__ and type(v) is type(object.__setattr__.__get__):
            return ("attrs", "_cached_setattr_get")
    except Exception:
        pass
    for n in BUILTIN_NAMES:
        if v is getattr(builtins, n):
            return ("builtin", n)
    return ("module", 0)


def resolve_real(glob, n, tc, local_names=()):
    if n in local_names:
        return ("local",)
    if n in glob:
        return ("global", classify_value(glob[n], tc, n))
    bi = glob.get("__builtins__", None)
    via = None
    if bi is not None:
        via = classify_value(bi, tc)
        if isinstance(bi, dict) and bi is getattr(tc.env, "poison_builtins", None):
            via = ("module", TAG_BUILTINS_NS)
    return ("builtins", via, n)


def script_of(fname):
    return "".join(linecache.getlines(fname))


def observe_methods(tc):
    """-> (methods observation, deftime observation)"""
    funcs = generated_funcs(tc.cls)
    mobs = []
    for n, f in funcs:
        code = f.__code__
        names = [x for x in global_reads(code)]
        seen = [(x, resolve_real(f.__globals__, x, tc)) for x in names]
        mobs.append((METH[n], seen, list(code.co_varnames)))
    deftime = []
    if funcs:
        f0 = funcs[0][1]
        text = script_of(f0.__code__.co_filename)
        try:
            top = compile(text, f0.__code__.co_filename, "exec")
            stored = {i.argval for i in dis.get_instructions(top) if i.opname == "STORE_NAME"}
            for x in global_reads(top):
                deftime.append((x, resolve_real(f0.__globals__, x, tc, local_names=())))
        except SyntaxError:
            deftime.append(("<script does not compile>", ("global", ("module", 0))))
    return mobs, deftime


def in_hash(a):
    return a.hash is True or (a.hash is None and a.eq is True)


def py_registered(tc):
    """(role, field) pairs for which a helper is registered, with the name used."""
    cls = tc.cls
    gen = {n for n, _ in generated_funcs(cls)}
    out = []
    fl = attr.fields(cls)
    for a in fl:
        if "__repr__" in gen and a.repr is not False and a.repr is not True:
            out.append(("RRepr", a.name))
        if a.eq_key is not None and (("__eq__" in gen and a.eq) or ("__hash__" in gen and in_hash(a))):
            out.append(("RKey", a.name))
    if "__init__" in gen or "__attrs_init__" in gen:
        for a in fl:
            if not a.init and a.default is attr.NOTHING:
                continue
            if a.converter is not None:
                out.append(("RConverter", a.name))
            if isinstance(a.default, attr.Factory):
                out.append(("RFactory", a.name))
        for a in fl:
            if (a.init or a.default is not attr.NOTHING) and a.validator is not None:
                out.append(("RValidator", a.name))
                out.append(("RField", a.name))
    return out


def py_collisions(tc):
    by = {}
    for r, f in py_registered(tc):
        by.setdefault(helper_name(r, f), set()).add((r, f))
    out = []
    for n, s in sorted(by.items()):
        if len(s) > 1:
            out.append("=".join("%s(%s)" % rf for rf in sorted(s)))
    return ";".join(out)


def py_init_internal(tc):
    """Replica of init_internal_names: what the generated __init__ itself uses."""
    cls = tc.cls
    s = tc.spec
    gen = {n for n, _ in generated_funcs(cls)}
    if not ("__init__" in gen or "__attrs_init__" in gen):
        return None
    fl = [a for a in attr.fields(cls) if a.init or a.default is not attr.NOTHING]
    names = {"self"}
    f = dict(generated_funcs(cls)).get("__init__") or dict(generated_funcs(cls)).get("__attrs_init__")
    # bound locals: decided from the class configuration, like the model does
    frozen = tc.frozen
    has_cls = tc.builder_on_setattr() not in ("COsNone", "COsNoOp")
    eff = effective_has_cls(tc)
    needs_cached = s["cache_hash"] or frozen or any(
        a.on_setattr is not None or (eff and a.on_setattr is not setters.NO_OP) for a in fl)
    if needs_cached:
        names |= {"_setattr", "_cached_setattr_get"}
    if frozen and not s["slots"]:
        names.add("_inst_dict")
    for a in fl:
        c = a.converter
        if c is not None:
            names.add(helper_name("RConverter", a.name))
            if isinstance(c, attr.Converter) and c.takes_field:
                names.add("attr_dict")
        if isinstance(a.default, attr.Factory):
            names.add(helper_name("RFactory", a.name))
            if a.init:
                names.add("NOTHING")
        elif not a.init:
            names.add("attr_dict")
    vs = [a for a in fl if a.validator is not None]
    if vs:
        names.add("_config")
        for a in vs:
            names.add(helper_name("RValidator", a.name))
            names.add(helper_name("RField", a.name))
    if issubclass(cls, BaseException):
        names.add("BaseException")
    return names


def effective_has_cls(tc):
    """has_cls_on_setattr (effective_cls_on_setattr k) of the model, from the real class."""
    tag = tc.builder_on_setattr()
    if tag in ("COsNone", "COsNoOp"):
        return False
    if tc.frozen:
        return True
    fl = attr.fields(tc.cls)
    anyv = any(a.validator is not None for a in fl)
    anyc = any(a.converter is not None for a in fl)
    if tag == "COsDefault":
        return anyv or anyc
    if tag == "(COsSingle HValidate)":
        return anyv
    if tag == "(COsSingle HConvert)":
        return anyc
    return True


def py_aliases(tc):
    return [a.alias for a in attr.fields(tc.cls) if a.init]


def collision_kind(tc):
    """suffix-vs-prefix: every collision is between a custom-repr / eq-key helper and a factory /
    converter / validator / Attribute helper (finding K13); anything else would be new."""
    by = {}
    for r, f in py_registered(tc):
        by.setdefault(helper_name(r, f), set()).add((r, f))
    kinds = set()
    for n, s_ in by.items():
        if len(s_) > 1:
            roles = sorted(r for r, _ in s_)
            suffix = [r for r in roles if r in ("RRepr", "RKey")]
            prefix = [r for r in roles if r not in ("RRepr", "RKey")]
            kinds.add("suffix-vs-prefix" if len(suffix) == 1 and len(prefix) == 1 else "other")
    if not kinds:
        return "none"
    return "suffix-vs-prefix" if kinds == {"suffix-vs-prefix"} else "other"


def py_guard(tc):
    ng = all(name_guard(r, f) for r, f in py_registered(tc) if r in ("RRepr", "RKey"))
    internal = py_init_internal(tc)
    ag = True if internal is None else all(al not in internal for al in py_aliases(tc))
    return ng, ag


def shadow_category(tc):
    internal = py_init_internal(tc) or set()
    cats = []
    for al in py_aliases(tc):
        if al in internal:
            cats.append(al if al in FIXED else "helper-name")
    return ",".join(sorted(set(cats)))


# --------------------------------------------------------------------------------------
# spec encoding (initgen's, plus eq_key and the hspec wrapper)


def enc_attribute17(a, owner_fields):
    d = a.default
    if d is attr.NOTHING:
        dk = "DNothing"
    elif isinstance(d, attr.Factory):
        dk = "(DFactory %s %s)" % (q(d.factory.sym), b(d.takes_self))
    else:
        dk = "DValue"
    c = a.converter
    if c is None:
        ck = "CNone"
    elif isinstance(c, attr.Converter):
        fn = c.converter
        ck = "(CConverter %s %s %s %s)" % (q(fn.sym), b(c.takes_self), b(c.takes_field), b(fn.ann is not None))
    else:
        ck = "(CPlain %s %s)" % (q(c.sym), b(c.ann is not None))
    v = a.validator
    vk = "None" if v is None else "(Some %s)" % q(getattr(v, "sym", "v"))
    os_ = a.on_setattr
    if os_ is None:
        ok = "OsNone"
    elif os_ is setters.NO_OP:
        ok = "OsNoOp"
    else:
        ok = "(OsPipe %s)" % lst(owner_fields.get(a.name, ["HValidate"]))
    ek = "None" if a.eq_key is None else "(Some %s)" % q(getattr(a.eq_key, "sym", "k"))
    return ("(Build_attribute %s %s %s %s %s %s %s None %s %s None %s %s %s %s (Some %s))"
            % (q(a.name), dk, vk, b(a.repr is not False), b(bool(a.eq)), ek, b(bool(a.order)),
               "None" if a.hash is None else "(Some %s)" % b(a.hash), b(a.init), ck,
               b(a.kw_only), b(a.inherited), ok, q(a.alias)))


def enc_hspec(tc, alias_override=None):
    cls = tc.cls
    s = tc.spec
    fl = attr.fields(cls)
    fh = g.field_hook_models(tc)
    pre = tc.has_hook("pre")
    has_dict = any("__dict__" in c.__dict__ for c in cls.__mro__)
    is_exc = issubclass(cls, BaseException)
    ats = []
    for a in fl:
        if alias_override and a.name in alias_override:
            a = a.evolve(alias=alias_override[a.name])
        ats.append(enc_attribute17(a, fh))
    cls_t = ("(Build_cls_spec %s %s %s %s %s %s %s %s %s %s %s)"
             % (lst(ats), b(tc.frozen), b(s["slots"]), b(s["cache_hash"]), b(is_exc), b(bool(pre)),
                b(tc.pre_init_accepts_arguments()), b(bool(tc.has_hook("post"))), tc.builder_on_setattr(),
                lst(q(n) for n in g.mro_slots(cls)), b(has_dict)))
    gen = {n for n, _ in generated_funcs(cls)}
    custom = [a.name for a in fl if a.repr is not True and a.repr is not False]
    return "(Build_hspec %s %s %s %s %s %s)" % (
        cls_t, lst(q(n) for n in custom), b("__repr__" in gen), b("__eq__" in gen), b("__hash__" in gen),
        b("__init__" in gen or "__attrs_init__" in gen))


# --------------------------------------------------------------------------------------
# behaviour of a built class (canonical, JSON-able)


def _jsv(v):
    return g.js_val(v)


def _run(fn):
    g.REC.reset()
    try:
        r = fn()
        out = ("ok", r)
    except g.Marker as m:
        out = ("raised", "Marker")
    except PoisonUsed as e:
        out = ("raised", "PoisonUsed")
    except RecursionError:
        out = ("raised", "RecursionError")
    except Exception as e:
        out = ("raised", type(e).__name__)
    return out, [g.js_event(e) for e in g.REC.trace]


def behaviour(tc, seed, with_repr_text=True):
    cls = tc.cls
    g.REC.cls = cls
    rng = random.Random(seed)
    counter = [0]
    out = []
    insts = []
    gen = dict(generated_funcs(cls))
    via_attrs_init = "__init__" not in gen and "__attrs_init__" in gen
    try:
        shim = tc if not via_attrs_init else types.SimpleNamespace(cls=types.SimpleNamespace(__init__=gen["__attrs_init__"]))
        shapes = g.call_shapes(shim, rng, counter)
    except Exception as e:
        return [["signature", type(e).__name__]]
    names = [a.name for a in attr.fields(cls)]

    def make(pos, kw):
        if via_attrs_init:
            i = cls.__new__(cls)
            i.__attrs_init__(*pos, **dict(kw))
            return i
        return cls(*pos, **dict(kw))

    def state(i):
        return [[n, _jsv(getattr(i, n, "<unset>")) if hasattr_safe(i, n) else "<unset>"] for n in names]

    for pos, kw, kind in shapes:
        box = []

        def mk(pos=pos, kw=kw):
            i = make(pos, kw)
            box.append(i)
            return state(i)
        res, tr = _run(mk)
        out.append(["OP_CONSTRUCT", kind, res, tr])
        if res[0] == "ok" and kind in ("mandatory-only", "all-positional", "all-keyword") and len(insts) < 2:
            insts.append((box[0], pos, kw))
    if insts:
        a, pos, kw = insts[0]
        r2, _ = _run(lambda: make(pos, kw))
        a2 = None
        if r2[0] == "ok":
            a2 = r2[1]
        c = insts[-1][0]
        res, tr = _run(lambda: repr(a))
        if (not with_repr_text or "__repr__" not in gen) and res[0] == "ok":
            res = ("ok", "<text>")
        out.append(["OP_REPR", res, tr])
        if a2 is not None:
            out.append(["OP_EQ_SAME_ARGS"] + list(_run(lambda: bool(a == a2))))
            out.append(["OP_NE_SAME_ARGS"] + list(_run(lambda: bool(a != a2))))
            out.append(["OP_HASH_EQ"] + list(_run(lambda: hash(a) == hash(a2))))
        out.append(["OP_EQ_SELF"] + list(_run(lambda: bool(a == a))))
        out.append(["OP_EQ_OTHER"] + list(_run(lambda: bool(a == c))))
        out.append(["OP_EQ_FOREIGN"] + list(_run(lambda: bool(a == 3))))
        if names:
            t = g.Tok(9000)
            res, tr = _run(lambda: setattr(a, names[0], t))
            out.append(["OP_ASSIGN", res if res[0] != "ok" else ("ok", state(a)), tr])
    _config._run_validators = True
    return json.loads(json.dumps(out, default=str))


def hasattr_safe(i, n):
    try:
        getattr(i, n)
        return True
    except Exception:
        return False


_NAME_IN_VALUE = None


def _canon_val(v, ren):
    """Field names inside rendered values: Dflt(name), <Attribute name>."""
    import re
    if not isinstance(v, str):
        return v
    v = re.sub(r"Dflt\(([A-Za-z0-9_]+)\)", lambda m: "Dflt(%s)" % ren.get(m.group(1), m.group(1)), v)
    v = re.sub(r"<Attribute ([A-Za-z0-9_]+)>", lambda m: "<Attribute %s>" % ren.get(m.group(1), m.group(1)), v)
    return v


def _canon_vals(x, ren):
    if isinstance(x, list):
        return [_canon_vals(y, ren) for y in x]
    return _canon_val(x, ren)


def _canon_event(ev, ren, ren_alias):
    tag = ev[0]
    if tag in ("conv", "fac", "hook", "REPR", "KEY"):
        return [tag, ren.get(ev[1], ev[1])] + _canon_vals(ev[2:], ren)
    if tag == "val":
        return [tag, ren.get(ev[1], ev[1]), ev[2], _canon_val(ev[3], ren),
                [[ren.get(n, n), _canon_val(v, ren)] for n, v in ev[4]]]
    if tag == "pre":
        return [tag, _canon_vals(ev[1], ren), [[ren_alias.get(n, n), _canon_val(v, ren)] for n, v in ev[2]]]
    return _canon_vals(ev, ren)


def _canon_res(res, ren):
    if res[0] == "ok" and isinstance(res[1], list):
        return ["ok", [[ren.get(n, n), _canon_val(v, ren)] for n, v in res[1]]]
    return list(res)


def rename_beh(beh, ren, ren_alias=None):
    """Apply a field renaming (and an alias renaming) to a behaviour record: names are replaced
    in name positions only, and inside Dflt(..) / <Attribute ..> renderings."""
    ren_alias = ren if ren_alias is None else ren_alias
    out = []
    for op in beh:
        if op[0] == "OP_CONSTRUCT":
            kind = op[1]
            if kind.startswith("omit-"):
                kind = "omit-" + ren_alias.get(kind[5:], kind[5:])
            out.append([op[0], kind, _canon_res(op[2], ren), [_canon_event(e, ren, ren_alias) for e in op[3]]])
        elif op[0] == "signature":
            out.append(op)
        else:
            out.append([op[0], _canon_res(op[1], ren), [_canon_event(e, ren, ren_alias) for e in op[2]]])
    return out


# --------------------------------------------------------------------------------------
# case builders


def poison_name_set(tc0):
    names = set(FIXED)
    for _, f in generated_funcs(tc0.cls):
        names.update(f.__code__.co_names)
        names.update(f.__code__.co_varnames)
    funcs = generated_funcs(tc0.cls)
    if funcs:
        try:
            top = compile(script_of(funcs[0][1].__code__.co_filename), "<x>", "exec")
            names.update(top.co_names)
        except SyntaxError:
            pass
    for a in attr.fields(tc0.cls):
        for r in ROLES:
            names.add(helper_name(r, a.name))
            names.add(old_helper_name(r, a.name))
        names.add("__attr_" + a.name)
    return sorted(n for n in names if n.isidentifier() or True)


def herm_case(tc, same, inp, family, extra_sig=None):
    mobs, deftime = observe_methods(tc)
    env = tc.env
    ng, ag = py_guard(tc)
    mt = lst("(Build_mobs %s %s %s)" % (
        m, lst("(%s, %s)" % (q(n), enc_resolution(r)) for n, r in seen), lst(q(v) for v in varnames))
        for m, seen, varnames in mobs)
    term = "(CHerm (Build_hcase %s %s %s %s %s %s %s %s))" % (
        enc_hspec(tc), lst(q(n) for n in env.bound), "bn_" if env.bn else "[]", env.builtins_binding(),
        mt, lst("(%s, %s)" % (q(n), enc_resolution(r)) for n, r in deftime), b(ng and ag), b(same))
    seen_js = {"module": env.kind, "methods": [[m, [[n, list(map(str, r))] for n, r in seen], vn] for m, seen, vn in mobs],
               "deftime": [[n, list(map(str, r))] for n, r in deftime], "same_behaviour_as_reference": same,
               "class_source": tc.text}
    sig = {"layer": "model", "family": family, "module": env.kind}
    if extra_sig:
        sig.update(extra_sig)
    return Case(term, inp, seen_js, sig=sig, nontrivial=bool(attr.fields(tc.cls)), key=term)


def source_obs(cls, kind="methods"):
    """Runtime observations on inspect / linecache / compile for the generated functions."""
    obs = []
    if kind == "methods":
        funcs = generated_funcs(cls)
    else:
        f = cls.__dict__.get("__getattr__")
        funcs = [("__getattr__", f)] if f is not None else []
    fname = funcs[0][1].__code__.co_filename if funcs else ""
    obs.append(("one-file", all(f.__code__.co_filename == fname for _, f in funcs)))
    tops = {}
    for n, f in funcs:
        fn_ = f.__code__.co_filename
        if fn_ not in tops:
            text_ = script_of(fn_)
            try:
                tops[fn_] = (text_, compile(text_, fn_, "exec") if text_ else None)
            except SyntaxError:
                tops[fn_] = (text_, None)
        obs.append((n + ":linecache-entry", bool(tops[fn_][0])))
        obs.append((n + ":entry-compiles", tops[fn_][1] is not None))
    for n, f in funcs:
        code = f.__code__
        text, top = tops[code.co_filename]
        rec = find_code(top, code.co_name, code.co_firstlineno) if top is not None else None
        obs.append((n + ":recompiled-code-equal", rec is not None and code_equal(rec, code, True)))
        try:
            src = inspect.getsource(f)
        except (OSError, TypeError):
            src = None
        obs.append((n + ":getsource", src is not None))
        if src is not None:
            lines = text.splitlines(True)
            k = code.co_firstlineno - 1
            sl = src.splitlines(True)
            obs.append((n + ":getsource-is-entry-block", lines[k:k + len(sl)] == sl or
                        [x.rstrip("\n") for x in lines[k:k + len(sl)]] == [x.rstrip("\n") for x in sl]))
            if kind == "methods":
                try:
                    alone = compile(src, fname, "exec")
                    rec2 = find_code(alone, code.co_name, None)
                    obs.append((n + ":getsource-compiles-to-running-code", rec2 is not None and code_equal(rec2, code, False)))
                except SyntaxError:
                    obs.append((n + ":getsource-compiles-to-running-code", False))
        if kind == "methods":
            obs.append((n + ":__module__", getattr(f, "__module__", None) == cls.__module__))
            obs.append((n + ":__qualname__", f.__qualname__ == "%s.%s" % (cls.__qualname__, f.__name__)))
    return fname, obs


def find_code(top, name, firstlineno):
    stack = [top]
    while stack:
        c = stack.pop()
        for k in c.co_consts:
            if isinstance(k, types.CodeType):
                if k.co_name == name and (firstlineno is None or k.co_firstlineno == firstlineno):
                    return k
                stack.append(k)
    return None


def code_equal(a, c, with_lines):
    if (a.co_code != c.co_code or a.co_names != c.co_names or a.co_varnames != c.co_varnames
            or a.co_argcount != c.co_argcount or a.co_kwonlyargcount != c.co_kwonlyargcount
            or a.co_freevars != c.co_freevars or a.co_cellvars != c.co_cellvars or len(a.co_consts) != len(c.co_consts)):
        return False
    if with_lines and (a.co_firstlineno != c.co_firstlineno or list(a.co_lines()) != list(c.co_lines())):
        return False
    for x, y in zip(a.co_consts, c.co_consts):
        if isinstance(x, types.CodeType) != isinstance(y, types.CodeType):
            return False
        if isinstance(x, types.CodeType):
            if not code_equal(x, y, with_lines):
                return False
        elif x != y or type(x) is not type(y):
            return False
    return True


def src_case(tc, inp, kind="methods"):
    fname, obs = source_obs(tc.cls, kind)
    term = "(CSrc %s %s %s %s %s)" % (q(kind), q(tc.cls.__module__), q(tc.cls.__qualname__), q(fname),
                                      lst("(%s, %s)" % (q(n), b(v)) for n, v in obs))
    return Case(term, inp, {"filename": fname, "observations": obs, "class_source": getattr(tc, "text", None)},
                sig={"layer": "runtime", "family": "source"}, nontrivial=True,
                key=term.replace(tc.cls.__module__, "<module>"))


def prop_case(same, inp, seen, sig):
    s = {"layer": "property"}
    s.update(sig)
    return Case("(CProp %s)" % b(same), inp, seen, sig=s, nontrivial=True,
                key="prop:" + json.dumps(inp, sort_keys=True, default=str))


def first_diff(b0, b1):
    for i, (x, y) in enumerate(zip(b0, b1)):
        if x != y:
            return {"index": i, "reference": x, "observed": y}
    if len(b0) != len(b1):
        return {"length": [len(b0), len(b1)]}
    return None


def fix_mandatory(spec):
    for f in spec["fields"]:
        if f["default"] is None and f["init"]:
            f["kw_only"] = True


def build_ok(spec, env):
    tc = TextClass(spec, env)
    if tc.def_error and "No mandatory attributes" in tc.def_error[1]:
        fix_mandatory(spec)
        tc = TextClass(spec, env)
    return tc


# ---- family (a): poison runs ----------------------------------------------------------


def poison_cases(spec, seed, which=None):
    """All cases of one specification.  which: restrict to one variant (for rerun)."""
    envs = []
    out = []
    try:
        e0 = Env("clean")
        envs.append(e0)
        tc0 = build_ok(spec, e0)
        if tc0.cls is None:
            return out
        beh0 = behaviour(tc0, seed)
        base_inp = {"family": "poison", "spec": describe(spec), "seed": seed}
        pn = poison_name_set(tc0)
        if which in (None, "clean"):
            out.append(herm_case(tc0, True, dict(base_inp, variant="clean"), "poison"))
        if which in (None, "source"):
            out.append(src_case(tc0, dict(base_inp, variant="source")))
        for kind in ("names", "builtins"):
            if which not in (None, kind):
                continue
            e = Env(kind, pn)
            envs.append(e)
            tc = TextClass(copy.deepcopy(spec), e)
            inp = dict(base_inp, variant=kind)
            if tc.cls is None:
                out.append(prop_case(False, inp, {"definition_in_poisoned_module": tc.def_error, "class_source": tc.text},
                                     {"family": "poison", "module": kind, "what": "definition-fails"}))
                continue
            beh = behaviour(tc, seed)
            same = beh == beh0
            c = herm_case(tc, same, inp, "poison")
            if not same:
                c.seen["first_difference"] = first_diff(beh0, beh)
            out.append(c)
        return out
    finally:
        for e in envs:
            e.close()


# ---- family (b): naming ---------------------------------------------------------------

NAME_SETS = [
    ["x", "x_repr"], ["x", "_x_key"], ["x", "x_key"], ["y", "converter_y"], ["y", "factory_y"],
    ["y", "validator_y"], ["y", "field_y"], ["y", "_z"], ["y", "attr_y"],
    ["repr", "__attr_factory"], ["repr", "__attr_converter"], ["repr", "__attr_validator"], ["repr", "__attr_field"],
    ["b_repr", "__attr_factory_b"], ["b_repr", "__attr_converter_b"], ["b_repr", "__attr_validator_b"],
    ["b_repr", "__attr_field_b"],
    ["key", "_attr_factory"], ["key", "_attr_converter"], ["key", "_attr_validator"], ["key", "_attr_field"],
    ["b_key", "_attr_factory_b"], ["b_key", "_attr_converter_b"], ["b_key", "_attr_validator_b"],
    ["b_key", "_attr_field_b"],
    ["repr", "__attr_factoryX"], ["repr", "__attr"], ["repr", "__attr_"], ["repr", "_attr_factory"],
    ["key", "__attr_factory"], ["key", "_attr"], ["key", "attr_factory"], ["repr", "attr_factory"],
    ["compat", "config"], ["_compat", "_config"], ["hash", "id"],
    ["x", "x_repr", "_x_key", "factory_x"], ["repr", "key", "__attr_factory", "_attr_converter"],
    ["r", "__attr_factory_r", "__attr_factory_r_repr"], ["_x", "__y", "x_"],
    ["x", "repr_x"], ["x", "key_x"], ["x", "__attr_repr_x"], ["x", "__attr_key_x"], ["repr_", "_x"], ["key_", "_x"],
    ["repr", "key", "field", "factory"],
]


def naming_spec(rng, names, uid):
    s = g.gen_class_spec(rng, uid, base=None, hooks_ok=rng.random() < 0.3)
    s["style"] = "make_class"
    s["api"] = "attrs"
    s["exc"] = False
    s["pre"] = None
    dunder = any(n.startswith("__") for n in names)
    if dunder:
        s["slots"] = False
    s["fields"] = []
    for i, n in enumerate(names):
        f = g.gen_field(rng, n, uid, allow_hooks=False)
        f["uid"] = "n%d_%s" % (i, uid)
        f["alias"] = None
        f["kw_only"] = False
        f["init"] = True if rng.random() < 0.85 else f["init"]
        # bias towards the roles that make helper names
        f["repr"] = "custom" if rng.random() < 0.6 else True
        f["eq"] = "key" if rng.random() < 0.6 else True
        f["hash"] = None
        if rng.random() < 0.5:
            f["default"] = ("factory", rng.random() < 0.3)
        if rng.random() < 0.5:
            f["converter"] = rng.choice(g.CONV_KINDS[2:])
        f["validator"] = rng.random() < 0.5
        f["validator_style"] = "arg"
        s["fields"].append(f)
    # mandatory-after-default order: make defaults monotone
    seen_default = False
    for f in s["fields"]:
        if f["default"] is not None and f["init"]:
            seen_default = True
        elif seen_default and f["init"]:
            f["default"] = "value"
    s["c_repr"], s["c_eq"], s["c_hash"], s["c_init"] = True, True, rng.random() < 0.7, True
    s["qual"] = "K"
    return s


def twin_of(spec):
    t = copy.deepcopy(spec)
    ren, ren_alias = {}, {}
    for i, f in enumerate(t["fields"]):
        new = "fld%s" % "abcdefgh"[i]
        ren[f["name"]] = new
        if f["alias"] is None:
            ren_alias[f["name"].lstrip("_")] = new
        f["name"] = new
    t.pop("_named_sig", None)
    return t, (ren, ren_alias)


def naming_cases(spec, seed, which=None):
    envs = []
    out = []
    try:
        e0, e1 = Env("clean"), Env("clean")
        envs += [e0, e1]
        tc = build_ok(spec, e0)
        twin_spec, ren = twin_of(spec)
        tw = build_ok(twin_spec, e1)
        if tc.cls is None or tw.cls is None:
            return out
        base_inp = {"family": "naming", "spec": describe(spec), "seed": seed}
        bt = rename_beh(behaviour(tc, seed, with_repr_text=False), ren[0], ren[1])
        bw = behaviour(tw, seed, with_repr_text=False)
        same = bt == bw
        coll = py_collisions(tc)
        ng, ag = py_guard(tc)
        if which in (None, "model"):
            out.append(herm_case(tc, True, dict(base_inp, variant="model"), "naming",
                                 {"collision": coll}))
        if which in (None, "def"):
            out.append(Case("(CDef %s true)" % enc_hspec(tc), dict(base_inp, variant="def"), {"defined": True},
                            sig={"layer": "model", "family": "naming"}, nontrivial=True))
        if not same and which in (None, "property"):
            out.append(prop_case(False, dict(base_inp, variant="property"),
                                 {"class_source": tc.text, "fields": [f["name"] for f in spec["fields"]],
                                  "first_difference_from_innocuously_named_twin": first_diff(bw, bt),
                                  "collision_predicted": coll},
                                 {"family": "naming", "collision": coll, "collision_kind": collision_kind(tc),
                                  "naming_guard": ng, "alias_guard": ag}))
        return out
    finally:
        for e in envs:
            e.close()


# ---- family (b'): aliases -------------------------------------------------------------

ALIAS_POOL = ["attr_dict", "NOTHING", "_config", "_setattr", "_inst_dict", "_cached_setattr_get", "self",
              "BaseException", "__attr_factory_y", "__attr_converter_y", "__attr_validator_y", "__attr_field_y",
              # near misses
              "attr_dict_", "nothing", "config", "setattr", "inst_dict", "__attr_factory_", "_attr_factory_y",
              "__attr_field_q", "other", "already_repring", "_cache_wrapper", "_compat", "hash", "object"]


def alias_spec(rng, uid):
    s = g.gen_class_spec(rng, uid, base=None, hooks_ok=False)
    s["style"] = rng.choice(["attrib", "these", "make_class"])
    s["api"] = "attrs"
    s["pre"] = None
    s["kw_only"] = False
    s["fields"] = []
    for i, n in enumerate(["x", "y", "z"]):
        f = g.gen_field(rng, n, uid, allow_hooks=False)
        f["uid"] = "a%d_%s" % (i, uid)
        f["alias"] = None
        f["kw_only"] = False
        f["repr"], f["eq"], f["hash"] = True, True, None
        s["fields"].append(f)
    fx, fy, fz = s["fields"]
    fx["init"] = True
    fx["default"] = rng.choice([None, "value"])
    fx["converter"] = None
    fy["default"] = rng.choice([("factory", False), ("factory", True), "value"])
    fy["converter"] = rng.choice(g.CONV_KINDS[2:])
    fy["validator"] = True
    fy["validator_style"] = "arg"
    fy["init"] = True
    fz["init"] = rng.random() < 0.5
    fz["default"] = "value"
    mode = rng.random()
    if mode < 0.8:
        fx["alias"] = rng.choice(ALIAS_POOL)
    elif mode < 0.9:
        fx["name"] = rng.choice(["attr_dict", "NOTHING", "BaseException", "_attr_dict", "__NOTHING"])
        if fx["name"].startswith("__"):
            s["style"] = "make_class"
            s["slots"] = False
    if fx["default"] is None:
        pass
    else:
        pass
    s["c_repr"], s["c_eq"], s["c_hash"], s["c_init"] = True, True, False, True
    s["qual"] = "K"
    return s


def alias_twin(spec):
    t = copy.deepcopy(spec)
    ren, ren_alias = {}, {}
    fx = t["fields"][0]
    if fx["alias"]:
        ren_alias[fx["alias"]] = "al_ok"
        fx["alias"] = "al_ok"
    else:
        ren[fx["name"]] = "fldx"
        ren_alias[fx["name"].lstrip("_")] = "fldx"
        fx["name"] = "fldx"
    return t, (ren, ren_alias)


def alias_cases(spec, seed, which=None):
    envs = []
    out = []
    try:
        e0, e1 = Env("clean"), Env("clean")
        envs += [e0, e1]
        twin_spec, ren = alias_twin(spec)
        tw = build_ok(twin_spec, e1)
        if tw.cls is None:
            return out
        # keep the two specs aligned if build_ok had to adjust kw_only
        for f, ft in zip(spec["fields"], twin_spec["fields"]):
            f["kw_only"] = ft["kw_only"]
        tc = TextClass(spec, e0)
        base_inp = {"family": "alias", "spec": describe(spec), "seed": seed}
        bw = behaviour(tw, seed, with_repr_text=False)
        if tc.cls is None:
            fx = spec["fields"][0]
            over = {twin_spec["fields"][0]["name"]: fx["alias"] or fx["name"].lstrip("_")}
            if which in (None, "def"):
                out.append(Case("(CDef %s false)" % enc_hspec(tw, alias_override=over),
                                dict(base_inp, variant="def"), {"defined": False, "error": tc.def_error, "class_source": tc.text},
                                sig={"layer": "model", "family": "alias"}, nontrivial=True))
            if which in (None, "property"):
                cat = fx["alias"] if fx["alias"] in FIXED else ("helper-name" if fx["alias"] else fx["name"].lstrip("_"))
                out.append(prop_case(False, dict(base_inp, variant="property"),
                                     {"class_source": tc.text, "definition_error": tc.def_error},
                                     {"family": "alias", "shadowed": cat, "alias_guard": False,
                                      "effect": "definition-" + tc.def_error[0]}))
            return out
        bt = rename_beh(behaviour(tc, seed, with_repr_text=False), ren[0], ren[1])
        same = bt == bw
        ng, ag = py_guard(tc)
        if which in (None, "model"):
            out.append(herm_case(tc, True, dict(base_inp, variant="model"), "alias"))
        if which in (None, "def"):
            out.append(Case("(CDef %s true)" % enc_hspec(tc), dict(base_inp, variant="def"), {"defined": True},
                            sig={"layer": "model", "family": "alias"}, nontrivial=True))
        if not same and which in (None, "property"):
            out.append(prop_case(False, dict(base_inp, variant="property"),
                                 {"class_source": tc.text, "alias": spec["fields"][0]["alias"],
                                  "first_difference_from_twin_with_innocuous_alias": first_diff(bw, bt)},
                                 {"family": "alias", "shadowed": shadow_category(tc), "alias_guard": ag,
                                  "naming_guard": ng, "effect": "behaviour"}))
        return out
    finally:
        for e in envs:
            e.close()


# ---- family (c'): cached-property __getattr__ wrapper ------------------------------------


def getattr_cases(seed, has_original, which=None):
    envs = []
    out = []
    try:
        results = []
        for kind in ("clean", "names"):
            pn = sorted(set(FIXED) | {"cached_properties", "original_getattr", "_cls", "wrapper", "__getattr__", "item",
                                      "func", "result", "_setter", "original_error", "get", "__getattribute__",
                                      "__class__", "__name__x", "cp", "x"})
            e = Env(kind, pn)
            envs.append(e)
            log = []

            def og(self, item, log=log):
                log.append(item)
                raise AttributeError(item)

            H = {"deco": attrs.define, "cp": functools.cached_property(lambda self: ("computed", self.x)),
                 "ca": attrs.field(default=1), "og": og}
            text = ('@H["deco"]\nclass K:\n    x = H["ca"]\n    cp = H["cp"]\n' +
                    ('    __getattr__ = H["og"]\n' if has_original else '') + 'K_ = K\n')
            e.ns["H"] = H
            try:
                exec(compile(text, "<c17 %s>" % e.name, "exec"), e.ns)
            except Exception as ex:
                out.append(prop_case(False, {"family": "getattr", "has_original": has_original, "variant": kind, "seed": seed},
                                     {"definition_error": [type(ex).__name__, str(ex)], "class_source": text},
                                     {"family": "getattr", "module": kind, "what": "definition-fails"}))
                continue
            cls = e.ns["K_"]
            f = cls.__dict__["__getattr__"]
            beh = []
            i = cls(5)
            for op in (lambda: i.cp, lambda: i.cp, lambda: i.nope, lambda: cls().cp):
                try:
                    beh.append(["ok", repr(op())])
                except PoisonUsed:
                    beh.append(["raised", "PoisonUsed"])
                except Exception as ex:
                    beh.append(["raised", type(ex).__name__])
            results.append((e, cls, f, beh, text))
        if not results or results[0][0].kind != "clean":
            return out
        beh0 = results[0][3]
        for e, cls, f, beh, text in results:
            if which not in (None, e.kind):
                continue
            tcx = types.SimpleNamespace(helpers={}, cls=None, env=e)
            seen = []
            for n in global_reads(f.__code__):
                r = resolve_real(f.__globals__, n, tcx)
                if r[0] == "builtins" and r[1] == ("realbuiltins",):
                    r = ("builtins", None, n)      # eval() inserted the real builtins itself
                elif r[0] == "global" and n in ("cached_properties", "original_getattr", "_cached_setattr_get"):
                    r = ("global", ("attrs", n)) if not isinstance(f.__globals__[n], Poison) else r
                seen.append((n, r))
            term = "(CGet %s %s %s)" % (b(has_original), lst("(%s, %s)" % (q(n), enc_resolution(r)) for n, r in seen),
                                       b(beh == beh0))
            inp = {"family": "getattr", "has_original": has_original, "variant": e.kind, "seed": seed}
            out.append(Case(term, inp, {"module": e.kind, "globals": [[n, list(map(str, r))] for n, r in seen],
                                        "behaviour": beh, "class_source": text},
                            sig={"layer": "model", "family": "getattr"}, nontrivial=True, key=term + e.kind))
            if e.kind == "clean" and which in (None, "clean"):
                tcs = types.SimpleNamespace(cls=cls, text=text)
                c = src_case(tcs, dict(inp, variant="source"), kind="getattr")
                out.append(c)
        if which == "source":
            e, cls, f, beh, text = results[0]
            out = [src_case(types.SimpleNamespace(cls=cls, text=text),
                            {"family": "getattr", "has_original": has_original, "variant": "source", "seed": seed},
                            kind="getattr")]
        return out
    finally:
        for e in envs:
            e.close()


# ---- family (g): converter OBJECTS with a history (shared between classes / fields) ------------------

SHARED_NAMES = ["a", "b", "x", "weight", "_p", "converter_a"]


def _shared_field(name, uid, i, conv=None, ref=None):
    return {"name": name, "default": None, "init": True, "kw_only": False, "converter": conv, "validator": False,
            "validator_style": "arg", "alias": None, "on_setattr": None, "type": False, "uid": "s%d_%s" % (i, uid),
            "repr": True, "eq": True, "hash": None, "conv_ref": ref}


def _shared_spec(uid, fields, plan, which):
    return {"uid": uid, "api": plan["api"], "base": None, "style": "attrib" if plan["api"] == "attrs" else "attrib_in_define",
            "slots": plan["slots"][which], "frozen": plan["frozen"][which], "kw_only": False, "exc": False,
            "cache_hash": False, "pre": None, "post": False, "on_setattr": None, "fields": fields,
            "c_repr": True, "c_eq": True, "c_hash": False, "c_init": True, "qual": "K", "nest": None}


def make_shared_converter(plan, tag):
    """One converter OBJECT; kind: an explicit attr.Converter, converters.optional(Converter), pipe with a
    Converter member, or a plain function."""
    ts, tf = plan["ts"], plan["tf"]
    if plan["kind"] == "plain":
        return g.mk_converter("shared", "c_sh" + tag, ("plain", False))
    base = g.mk_converter("shared", "c_sh" + tag, ("conv", ts, tf, False))
    if plan["kind"] == "converter":
        obj = base
    elif plan["kind"] == "optional":
        obj = attr.converters.optional(base)
    else:
        obj = attr.converters.pipe(base, g.mk_converter("shared", "c_shp" + tag, ("plain", False)))
    if not hasattr(obj.converter, "sym"):
        obj.converter.sym, obj.converter.ann = "c_sh" + tag + "_" + plan["kind"], None
    return obj


def gen_shared_plan(rng):
    n1, n2 = rng.sample(SHARED_NAMES, 2)
    return {"kind": rng.choice(["converter", "converter", "optional", "pipe", "plain"]),
            "ts": rng.random() < 0.3, "tf": rng.random() < 0.3, "n1": n1, "n2": n2,
            # what the class under test looks like: the object serves n2 there; does it also have its own n1?
            "own": rng.choice(["conv", "plain", "none", "absent"]), "own_first": rng.random() < 0.5,
            # how the object was used before: in an earlier class, or for another field of the same class
            "history": rng.choice(["earlier-class", "earlier-class", "same-class-two-fields", "two-earlier-classes"]),
            "api": rng.choice(["attrs", "define"]), "slots": [rng.random() < 0.5, rng.random() < 0.5],
            "frozen": [rng.random() < 0.3, rng.random() < 0.3]}


def shared_cases(plan, seed, which=None):
    envs, out = [], []
    try:
        def build_under_test(obj, tag):
            fs = []
            if plan["history"] == "same-class-two-fields":
                fs = [_shared_field(plan["n1"], "u" + tag, 0, ref="X"), _shared_field(plan["n2"], "u" + tag, 1, ref="X")]
            else:
                own = None
                if plan["own"] == "conv":
                    own = _shared_field(plan["n1"], "u" + tag, 0, conv=("conv", False, False, False))
                elif plan["own"] == "plain":
                    own = _shared_field(plan["n1"], "u" + tag, 0, conv=("plain", False))
                elif plan["own"] == "none":
                    own = _shared_field(plan["n1"], "u" + tag, 0)
                sh = _shared_field(plan["n2"], "u" + tag, 1, ref="X")
                fs = [f for f in ([own, sh] if plan["own_first"] else [sh, own]) if f is not None]
            e = Env("clean")
            envs.append(e)
            return TextClass(_shared_spec("u", fs, plan, 1), e, shared={"X": obj})

        # reference: the same specification with a converter object that has never been used
        ref = build_under_test(make_shared_converter(plan, "0"), "0")
        # under test: the object has a history
        obj = make_shared_converter(plan, "0")
        if plan["history"] in ("earlier-class", "two-earlier-classes"):
            names = [plan["n1"]] + (["zz"] if plan["history"] == "two-earlier-classes" else [])
            for k, nm in enumerate(names):
                e = Env("clean")
                envs.append(e)
                early = TextClass(_shared_spec("e%d" % k, [_shared_field(nm, "e%d" % k, 0, ref="X")], plan, 0), e, shared={"X": obj})
                if early.cls is not None:
                    behaviour(early, seed)
        tc = build_under_test(obj, "0")
        if ref.cls is None or tc.cls is None:
            if ref.cls is not None:
                out.append(prop_case(False, {"family": "shared", "plan": plan, "seed": seed, "variant": "model"},
                                     {"definition_error": tc.def_error, "class_source": tc.text},
                                     {"family": "shared", "what": "definition-fails"}))
            return out
        inp = {"family": "shared", "plan": plan, "seed": seed}
        b0, b1 = behaviour(ref, seed), behaviour(tc, seed)
        same = b0 == b1
        if which in (None, "model"):
            c = herm_case(tc, same, dict(inp, variant="model"), "shared")
            if not same:
                c.seen["first_difference_from_build_with_fresh_converter"] = first_diff(b0, b1)
            out.append(c)
        if which in (None, "source"):
            out.append(src_case(tc, dict(inp, variant="source")))
        return out
    finally:
        for e in envs:
            e.close()


# ---- family (c''): every generated method over the class-option grid ---------------------------


def grid_source_cases(which=None):
    """slots x frozen x cache_hash x unsafe_hash x init: inspect/linecache/compile observations for EVERY
    generated method (__repr__, __eq__, __hash__ with and without cache, __init__ / __attrs_init__, and the
    cached-property __getattr__ of slotted classes)."""
    out = []
    for slots, frozen, cache, uh, init in itertools.product([False, True], repeat=5):
        tag = "s%d f%d c%d u%d i%d" % (slots, frozen, cache, uh, init)
        repr_ns = (slots + frozen + cache + uh + init) % 2 == 1
        if which is not None and which != tag:
            continue
        e = Env("clean")
        try:
            kw = {"slots": slots, "frozen": frozen, "init": init}
            if cache:
                kw["cache_hash"] = True
            if uh:
                kw["unsafe_hash"] = True
            if repr_ns:
                kw["repr_ns"] = "NS"
            H = {"deco": attr.s, "kw": kw, "ib": attr.ib, "Factory": attr.Factory,
                 "cp": functools.cached_property(lambda self: 1)}
            text = ('@H["deco"](**H["kw"])\nclass K:\n    x = H["ib"](default=1)\n'
                    '    y = H["ib"](default=H["Factory"](list), eq=False)\n' + ('    cp = H["cp"]\n' if slots else '') + 'K_ = K\n')
            e.ns["H"] = H
            try:
                import warnings
                with warnings.catch_warnings():
                    warnings.simplefilter("ignore", DeprecationWarning)
                    exec(compile(text, "<c17 %s>" % e.name, "exec"), e.ns)
            except TypeError:
                continue            # cache_hash without hashing: rejected by attrs (C04's table)
            cls = e.ns["K_"]
            inp = {"family": "grid", "variant": tag}
            tcs = types.SimpleNamespace(cls=cls, text=text)
            names = [n for n, _ in generated_funcs(cls)]
            c = src_case(tcs, inp)
            c.seen["generated_methods"] = names
            out.append(c)
            if "__getattr__" in cls.__dict__:
                c2 = src_case(tcs, dict(inp, kind="getattr"), kind="getattr")
                out.append(c2)
        finally:
            e.close()
    return out


# ---- families (d), (e): linecache ----------------------------------------------------------

BODIES = [[], ["a"], ["b"], ["a", "b"], ["c"], ["a", "c"], ["b", "c"], ["a", "b", "c"], ["d"], ["a", "d"],
          ["b", "d"], ["c", "d"], ["e"], ["a", "e"], ["b", "e"], ["c", "e"], ["d", "e"], ["f"], ["a", "f"],
          ["b", "f"], ["c", "f"], ["d", "f"], ["e", "f"], ["a", "b", "c", "d"]]


def define_plain(module_dict, qual, body_id):
    """Define one attrs class with the given qualname and body in the module (separate locals,
    so concurrent definers do not fight over a module-level name)."""
    H = module_dict["H"]
    fields = BODIES[body_id]
    if "." in qual:
        outer, inner = qual.split(".")
        text = 'class %s:\n    @H["s"]\n    class %s:\n%s\nK_ = %s.%s\n' % (
            outer, inner, "\n".join('        %s = H["ib"](default=%d)' % (n, body_id) for n in fields) or "        pass",
            outer, inner)
    elif qual.isidentifier():
        text = '@H["s"]\nclass %s:\n%s\nK_ = %s\n' % (
            qual, "\n".join('    %s = H["ib"](default=%d)' % (n, body_id) for n in fields) or "    pass", qual)
    else:
        text = 'K_ = H["make_class"](%r, {%s})\n' % (qual, ", ".join('%r: H["ib"](default=%d)' % (n, body_id) for n in fields))
    loc = {}
    exec(compile(text, "<c17 hist>", "exec"), module_dict, loc)
    return loc["K_"]


def own_source_ok(cls, body_id):
    """Is the linecache entry under each generated method's co_filename the source of the code it runs?"""
    funcs = generated_funcs(cls)
    if not funcs:
        return False
    for n, fn in funcs:
        fname = fn.__code__.co_filename
        text = script_of(fname)
        if not text:
            return False
        try:
            top = compile(text, fname, "exec")
        except SyntaxError:
            return False
        rec = find_code(top, fn.__code__.co_name, fn.__code__.co_firstlineno)
        if rec is None or not code_equal(rec, fn.__code__, True):
            return False
        try:
            src = inspect.getsource(fn)
        except (OSError, TypeError):
            return False
        if src not in text:
            return False
    return True


def hist_case(plan, which=None):
    """plan: {"defs": [[qual, body_id, keep]], ...}"""
    e = Env("clean")
    try:
        d = e.ns
        d["H"] = {"s": attr.s, "ib": attr.ib, "make_class": attr.make_class}
        files, classes = [], []
        for qual, body_id, keep in plan["defs"]:
            cls = define_plain(d, qual, body_id)
            files.append(cls.__dict__["__init__"].__code__.co_filename)
            classes.append(cls if keep else None)
            del cls
            if not keep:
                gc.collect()
        gc.collect()
        own = [True if c is None else own_source_ok(c, bid) for c, (_, bid, _) in zip(classes, plan["defs"])]
        term = "(CHist %s %s %s %s)" % (q(e.name), lst("(%s, %d)" % (q(qn), bid) for qn, bid, _ in plan["defs"]),
                                       lst(q(f) for f in files), lst(b(x) for x in own))
        # module names differ between runs: the key abstracts from it
        return Case(term, {"family": "hist", "plan": plan}, {"files": [f.replace(e.name, "<module>") for f in files], "own_source_ok": own},
                    sig={"layer": "model", "family": "hist"}, nontrivial=len(plan["defs"]) > 1,
                    key="hist:" + json.dumps(plan, sort_keys=True))
    finally:
        e.close()


def thr_case(plan):
    """plan: {"threads": [[body_id, ...], ...]}: every thread defines its classes (qualname K) in order."""
    e = Env("clean")
    old = sys.getswitchinterval()
    try:
        d = e.ns
        d["H"] = {"s": attr.s, "ib": attr.ib, "make_class": attr.make_class}
        n = len(plan["threads"])
        results = [[] for _ in range(n)]
        errors = []
        barrier = threading.Barrier(n)

        yield_lines = bool(plan.get("yield_lines"))

        def line_tracer(frame, event, arg):
            if event == "line":
                time.sleep(0)          # give the other definers a turn between any two lines
            return line_tracer

        def tracer(frame, event, arg):
            # an ordinary trace hook (what a debugger or coverage tool installs); nothing in
            # attrs is patched: it only makes the scheduler switch inside the helper
            if frame.f_code.co_name == "_linecache_and_compile":
                return line_tracer
            return None

        def work(k):
            try:
                if yield_lines:
                    sys.settrace(tracer)
                barrier.wait(timeout=120)
                for bid in plan["threads"][k]:
                    results[k].append((bid, define_plain(d, "K", bid)))
            except Exception as ex:  # pragma: no cover
                errors.append(repr(ex))
            finally:
                sys.settrace(None)

        stop = threading.Event()
        n_mut = int(plan.get("mutators", 0))
        if n_mut:
            for i in range(400):          # a namespace of realistic size
                d["g_%d" % i] = i

        def mutate(k):
            # publishes fresh module globals and deletes them again: the SIZE of the namespace changes
            # while classes are being defined in it
            i = 0
            while not stop.is_set():
                name = "pub_%d_%d" % (k, i % 50)
                d[name] = i
                if i % 3:
                    d.pop("pub_%d_%d" % (k, (i - 1) % 50), None)
                i += 1
                if i % 64 == 0:
                    time.sleep(0)

        muts = [threading.Thread(target=mutate, args=(k,), daemon=True) for k in range(n_mut)]
        ths = [threading.Thread(target=work, args=(k,), daemon=True) for k in range(n)]
        sys.setswitchinterval(1e-6)
        for t in muts:
            t.start()
        for t in ths:
            t.start()
        hung = False
        for t in ths:
            t.join(timeout=300)
            hung = hung or t.is_alive()
        stop.set()
        for t in muts:
            t.join(timeout=30)
        sys.setswitchinterval(old)
        flat = [(bid, cls) for r in results for bid, cls in r]
        expected = sum(len(x) for x in plan["threads"])
        if errors or len(flat) != expected:
            hung = True
        scripts = [bid for bid, _ in flat]
        files = [cls.__dict__["__init__"].__code__.co_filename for _, cls in flat]
        own = [own_source_ok(cls, bid) for bid, cls in flat]
        term = "(CThr %s %s %s %s %s %s)" % (q(e.name), q("K"), lst("%d" % s for s in scripts), lst(q(f) for f in files),
                                           lst(b(x) for x in own), b(hung))
        return Case(term, {"family": "thr", "plan": plan},
                    {"scripts": scripts, "files": [f.replace(e.name, "<module>") for f in files], "own_source_ok": own,
                     "hung_or_failed": hung, "errors": errors[:3]},
                    sig={"layer": "runtime", "family": "thr"}, nontrivial=True,
                    key="thr:" + json.dumps(plan, sort_keys=True) + term.replace(e.name, ""))
    finally:
        try:
            stop.set()
        except NameError:
            pass
        sys.setswitchinterval(old)
        e.close()


# ---- family (f): many definitions in ONE module that binds a given global ---------------------

REPEAT_SCRIPT = r'''
import sys, types, json, attr
name = "verif_c17_repeat"
m = types.ModuleType(name); sys.modules[name] = m
d = vars(m)
d["attr"] = attr
class Marked(Exception): pass
class P:
    def __getattr__(self, n): raise Marked(n)
    def __call__(self, *a, **k): raise Marked("call")
    def __iter__(self): raise Marked("iter")
for n in %(bind)r:
    d[n] = P()
fails = []
for i in range(%(n)d):
    try:
        exec("@attr.s(unsafe_hash=True, frozen=bool(%%d %%%% 2))\nclass C:\n    x%%d = attr.ib(default=1, validator=lambda i, a, v: None)\n" %% (i, i), d)
        c = d["C"](); repr(c); c == c; hash(c)
    except BaseException as e:
        fails.append([i, type(e).__name__])
print(json.dumps(fails))
'''


def repeat_case(bind, n=40):
    """Fresh interpreter (the effect depends on how warm attrs' own bytecode is): one module binds the
    given globals, then n classes are defined and used in it."""
    import os
    import subprocess
    p = subprocess.run([sys.executable, "-B", "-c", REPEAT_SCRIPT % {"bind": list(bind), "n": n}],
                       stdout=subprocess.PIPE, stderr=subprocess.PIPE, text=True, timeout=300, env=dict(os.environ))
    try:
        fails = json.loads(p.stdout.strip().splitlines()[-1])
        err = None
    except Exception:
        fails, err = [[-1, "no-result"]], p.stderr[-800:]
    inp = {"family": "repeat", "bind": list(bind), "n": n}
    return prop_case(not fails, inp, {"failed_definitions_or_uses": fails[:6], "count": len(fails), "stderr": err},
                     {"family": "repeat", "module_binds": ",".join(bind), "what": "definition-or-use-fails"})


# --------------------------------------------------------------------------------------
# generation

_dist = Counter()


def gen_hist_plan(rng):
    n = rng.randint(1, 6)
    quals = rng.choice([["K"], ["K"], ["K", "K-1"], ["K", "K-1", "K-2"], ["K", "K-1", "K-1-1"], ["A.K", "B.K"],
                        ["A.K", "B.K", "K"]])
    pool = rng.sample(range(len(BODIES)), rng.randint(1, 4))
    return {"defs": [[rng.choice(quals), rng.choice(pool), rng.random() < 0.7] for _ in range(n)]}


def gen_thr_plan(rng):
    n = rng.choice([2, 4, 8])
    m = rng.randint(2, 6)
    pool = rng.sample(range(len(BODIES)), rng.randint(2, min(12, len(BODIES))))
    return {"threads": [[rng.choice(pool) for _ in range(m)] for _ in range(n)], "yield_lines": rng.random() < 0.6,
            "mutators": rng.choice([0, 1, 2])}


def safe(fn, inp, *args, **kw):
    """A family that crashes on some input reports that input as a failing property case (a broken
    attrs must give exit 1 with a replay, not an infrastructure failure)."""
    try:
        return fn(*args, **kw)
    except Exception as ex:  # pragma: no cover
        import traceback
        return [prop_case(False, inp, {"exception_in_family": [type(ex).__name__, str(ex)],
                                       "traceback": traceback.format_exc()[-1500:]},
                          {"family": inp.get("family"), "what": "exception"})]


def generate(tier, seed):
    rng = random.Random(seed)
    quick = tier == "quick"
    n_poison, n_naming, n_alias, n_hist, n_thr = (260, 330, 160, 150, 24) if quick else (3000, 4000, 1600, 1500, 120)
    cases = []
    _dist.clear()
    uid = [0]

    def nuid():
        uid[0] += 1
        return "%d" % uid[0]

    for bind in (["__dict__"], ["__dict_", "__class__", "__module__", "__qualname__", "__setattr__", "_config",
                                "_compat", "hash", "attr_dict", "NOTHING", "_cached_setattr_get", "object"]):
        cases.extend(safe(lambda: [repeat_case(bind)], {"family": "repeat", "bind": bind, "n": 40}))
    for i in range(n_hist):
        plan = gen_hist_plan(rng)
        cases.extend(safe(lambda: [hist_case(plan)], {"family": "hist", "plan": plan}))
    for i in range(n_thr):
        plan = gen_thr_plan(rng)
        cases.extend(safe(lambda: [thr_case(plan)], {"family": "thr", "plan": plan}))
    for i in range(n_poison):
        spec = extend_spec(rng, g.gen_class_spec(rng, nuid(), base=None))
        sd = rng.randrange(1 << 30)
        cs = safe(poison_cases, {"family": "poison", "spec": describe(spec), "seed": sd, "variant": "clean"}, spec, sd)
        cases.extend(cs)
        _dist["poison-specs"] += bool(cs)
    for i in range(n_naming):
        names = NAME_SETS[i % len(NAME_SETS)] if i < 2 * len(NAME_SETS) else rng.choice(NAME_SETS)
        spec = naming_spec(rng, list(names), nuid())
        sd = rng.randrange(1 << 30)
        cs = safe(naming_cases, {"family": "naming", "spec": describe(spec), "seed": sd, "variant": "model"}, spec, sd)
        cases.extend(cs)
        _dist["naming-specs"] += bool(cs)
    for i in range(n_alias):
        spec = alias_spec(rng, nuid())
        sd = rng.randrange(1 << 30)
        cs = safe(alias_cases, {"family": "alias", "spec": describe(spec), "seed": sd, "variant": "model"}, spec, sd)
        cases.extend(cs)
        _dist["alias-specs"] += bool(cs)
    cases.extend(safe(grid_source_cases, {"family": "grid", "variant": "all"}))
    for i in range(60 if quick else 600):
        plan = gen_shared_plan(rng)
        sd = rng.randrange(1 << 30)
        cases.extend(safe(shared_cases, {"family": "shared", "plan": plan, "seed": sd, "variant": "model"}, plan, sd))
    for ho in (False, True):
        sd = rng.randrange(1 << 30)
        cases.extend(safe(getattr_cases, {"family": "getattr", "has_original": ho, "variant": "clean", "seed": sd}, sd, ho))
    gc.collect()
    return cases


def rerun(inp):
    r = safe(_rerun, inp, inp)
    return r[0] if isinstance(r, list) else r


def _rerun(inp):
    fam = inp["family"]
    if fam in ("poison", "naming", "alias"):
        spec = norm_spec(inp["spec"])
        fn = {"poison": poison_cases, "naming": naming_cases, "alias": alias_cases}[fam]
        cs = fn(spec, inp["seed"], which=inp["variant"])
        if not cs:
            # the property case is only emitted when the behaviours differ: they agree now
            return Case("(CProp true)", inp, {"note": "behaves like the reference build now"}, sig={"layer": "property"})
        return cs[0]
    if fam == "getattr":
        cs = getattr_cases(inp["seed"], inp["has_original"], which=inp["variant"])
        return cs[0]
    if fam == "shared":
        cs = shared_cases(inp["plan"], inp["seed"], which=inp["variant"])
        return cs[0]
    if fam == "grid":
        cs = grid_source_cases(which=inp["variant"])
        cs = [c for c in cs if c.inp.get("kind") == inp.get("kind")] or cs
        return cs[0]
    if fam == "repeat":
        return repeat_case(inp["bind"], inp["n"])
    if fam == "hist":
        return hist_case(inp["plan"])
    if fam == "thr":
        # a race does not show on every execution: try the schedule a few times
        c = None
        for _ in range(8):
            c = thr_case(inp["plan"])
            sn = c.seen
            pairs = set(zip(sn["scripts"], sn["files"]))
            if (sn["hung_or_failed"] or not all(sn["own_source_ok"])
                    or len({f for _, f in pairs}) != len(pairs) or len({x for x, _ in pairs}) != len(pairs)):
                break
        return c
    raise ValueError(fam)


def F19_C17_repr_key_helper_collision():
    """<n>_repr / _<n>_key used to collide with another field's __init__ helper (fixed by b8060e0)."""
    try:
        C = attr.make_class("C", {"__attr_factory": attr.ib(repr=lambda v: "custom<%r>" % (v,)),
                                  "repr": attr.ib(factory=list)})
        r = repr(C(1))
    except TypeError as e:
        return "custom repr of field __attr_factory replaced by the factory of field repr: %s" % e
    if r != "C(__attr_factory=custom<1>, repr=[])":
        return "custom repr of field __attr_factory not used: %r" % (r,)

    @attr.s
    class E:
        _attr_converter_b = attr.ib(eq=str.lower)
        b_key = attr.ib(converter=int, default="3")

    try:
        if not (E("A") == E("a")) or E("A") == E("b"):
            return "eq key of field _attr_converter_b not used"
    except ValueError as e:
        return "eq key of field _attr_converter_b replaced by the converter of field b_key: %s" % e


def F20_C17_module_dunder_dict():
    """A module-level global __dict__ used to be merged instead of the namespace once CPython's specialised
    module-attribute load was warm (fixed by 8708354).  Fresh interpreter: the effect depends on how warm
    attrs' own bytecode is."""
    c = repeat_case(["__dict__"])
    if c.term != "(CProp true)":
        return "classes defined in a module that binds a global __dict__ fail: %r" % (c.seen,)


def corpus():
    import importlib.util
    import os
    spec = importlib.util.spec_from_file_location("verif_defects", os.path.join(vlib.VERIF, "corpus", "defects.py"))
    m = importlib.util.module_from_spec(spec)
    spec.loader.exec_module(m)

    def wrap(f):
        def run():
            try:
                return f()
            except Exception as e:
                return "reproducer raised %s: %s" % (type(e).__name__, e)
        return run
    out = [(k, wrap(f)) for k, f in m.ALL.items() if "_C17_" in k]
    have = {k for k, _ in out}
    for f in (F19_C17_repr_key_helper_collision, F20_C17_module_dunder_dict):
        if f.__name__ not in have:
            out.append((f.__name__, wrap(f)))
    return out


def EXHAUSTIVE(tier):
    return False


def distribution(cases):
    fam = Counter(c.sig.get("family", "?") + "/" + c.sig.get("layer", "?") for c in cases)
    return {"families": dict(sorted(fam.items())), "specs": dict(_dist)}
