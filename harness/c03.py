"""C03 - generated equality.  Real-side driver + case generator.

Also holds what C09 (harness/c09.py) shares: class-chain builder, scripted comparison
objects, Gallina encoders for settings / layers / values.
"""
from __future__ import annotations

import ast
import inspect
import itertools
import random
import textwrap

import attr
import attrs

from . import vlib
from .driver import Case
from .vlib import b, lst

PROP = "C03"
HEADER = "From Attrs Require Import Base C03.Common C03.Model C03.Corr."
CASE_TYPE = "case"
CHECK = "check_case"
MODEL = "model_of"
RULE = ("(1) field level, exhaustive: attr.ib over cmp/eq/order in {None,True,False,key0,key1,falsy callable "
        "object 100,101}^3 and attrs.field over eq/order in the same 7 values: the resolved (eq, eq_key, order, order_key) or "
        "ValueError; (2) single classes with 1..3 fields, every combination of a palette of 9 field "
        "settings (quick: all for k<=2, a seeded sample for k=3), api/slots/frozen/class eq-order-cmp "
        "drawn at random: ALL ordered pairs of instances over {0,1,2}^k or {-1,0,1}^k, each through "
        "x==y, x!=y, type(x).__eq__(x,y), type(x).__ne__(x,y); (3) scripted comparison objects: for "
        "every participation pattern of 1..3 fields over {eq, eq=False, eq=key} every vector of per-field "
        "== outcomes in {True, False, truthy non-bool, falsy non-bool, raises, NaN-like} with the order and "
        "number of value-level == AND != calls and the identity of the returned object observed (scripted "
        "objects carry an independent __ne__ script that is not the negation of their __eq__; 35% are int "
        "subclasses overriding only __eq__); (4) inheritance chains of "
        "2..3 classes (fields added / overridden, classes with eq off that inherit a generated __eq__), "
        "same-class, subclass, superclass, foreign (plain and with its own reflected methods), identical "
        "object and float-NaN operands; (5) classes with 4..5 fields on sampled pairs; (6) hashable classes "
        "(unsafe_hash, mostly cache_hash, frozen or mutable, eq=False fields with hash=True): histories compare / "
        "hash both / compare / assign a field / compare; (7) eq key functions returning a set, a dict, an "
        "eq-only unhashable object, on classes with and without generated __hash__, all pairs over {0,1,2}^k; "
        "(8) None, '' and 0 among the field values (all ordered pairs over {None,'',0,1,2} resp. {None,0,1,''}^2) "
        "with key functions that accept them and map falsy values onto the image of another value or return "
        "None, and falsy callable OBJECTS (empty callable dict subclass, __bool__ False, __len__ 0) as "
        "eq=/cmp=/order= keys; (9) field names with coinciding init aliases (a / _a with one init=False, explicit "
        "alias=) x different eq keys per field x hash generation.  distinct = distinct "
        "case inputs; non-trivial = at least one eq-participating field and one probe")
EXTRA_TRUSTED = [
    "CPython's binary-operator dispatch (do_richcompare) as modelled by Common.dispatch; int == int, "
    "float NaN != anything, and the scripted objects' own __eq__ as modelled by Common.c_py_eq",
    "the field ORDER of each class is read from attr.fields(cls) (property C07), the arguments of each "
    "field from the harness's own bookkeeping",
]
ASSUMPTIONS = ["key functions are pure and total; truth-testing a comparison result does not raise",
               "instances are fully initialised (every field readable)"]

# --------------------------------------------------------------------------------------
# scripted world

# field names <-> the model's numeric names; "_a" / "_b" have the same default init alias as "a" / "b"
NAMES = ["a", "b", "c", "d", "e", "f", "_a", "_b"]


class E0(Exception):
    pass


class E1(Exception):
    pass


EXC = {0: E0, 1: E1}


def exc_id(e):
    if isinstance(e, E0):
        return 0
    if isinstance(e, E1):
        return 1
    if type(e) is TypeError:
        return 2
    if type(e) is ValueError:
        return 3
    return 9


class Ret:
    """A non-bool object returned by a scripted comparison."""
    __slots__ = ("truthy", "oid")

    def __init__(self, truthy, oid):
        self.truthy, self.oid = truthy, oid

    def __bool__(self):
        return self.truthy


class World:
    """Objects of one case: scripted objects, NaNs, returned objects, the call log."""

    def __init__(self, script):
        # script: {oid(str|int): [eq_outcome, cmp_outcome]}
        self.script = {int(k): v for k, v in script.items()}
        self.objs = {}
        self.nans = {}
        self.nan_ids = {}
        self.rets = {}
        self.log = []

    def scr(self, i, kind="s"):
        """kind 's': plain scripted object with independent __eq__ and __ne__ scripts;
        'b': int subclass overriding ONLY __eq__ (its != is int's: compares the int payloads)."""
        if i not in self.objs:
            if kind == "b":
                o = ScrInt(i % 3)
                o.oid, o.world = i, self
            else:
                o = Scr(i, self)
            self.objs[i] = o
        return self.objs[i]

    def play_ne(self, oid):
        """The INDEPENDENT script of a scripted object's __ne__: deliberately NOT the negation of
        its __eq__ script (same truth value as ==), so code that asks values `!=` is told apart
        from code that negates `==`."""
        o = self.script.get(oid, [["F"], ["F"]])[0]
        if o[0] == "T":
            return True
        if o[0] == "O":
            return self.ret(bool(o[1]), 600 + oid % 300)
        return False

    def nan(self, i):
        if i not in self.nans:
            f = float("nan")
            self.nans[i] = f
            self.nan_ids[id(f)] = i
        return self.nans[i]

    def ret(self, truthy, oid):
        k = (truthy, oid)
        if k not in self.rets:
            self.rets[k] = Ret(truthy, oid)
        return self.rets[k]

    def play(self, oid, col):
        o = self.script.get(oid, [["F"], ["F"]])[col]
        return self.play_outcome(o)

    def play_outcome(self, o):
        if o == "NI":
            return NotImplemented
        if o[0] == "T":
            return True
        if o[0] == "F":
            return False
        if o[0] == "O":
            return self.ret(bool(o[1]), o[2])
        raise EXC[o[1]]()

    def value(self, v):
        if v[0] == "i":
            return v[1]
        if v[0] in "sb":
            return self.scr(v[1], v[0])
        if v[0] == "o":
            return None
        if v[0] == "e":
            return ""
        return self.nan(v[1])

    def enc_back(self, o):
        """Python object seen in a log -> JSON value."""
        if isinstance(o, (Scr, ScrInt)):
            return ["s", o.oid]
        if o is None:
            return ["o"]
        if isinstance(o, str) and o == "":
            return ["e"]
        if isinstance(o, bool):
            return ["i", 424242]
        if isinstance(o, int):
            return ["i", o]
        if isinstance(o, float) and id(o) in self.nan_ids:
            return ["n", self.nan_ids[id(o)]]
        return ["i", 424243]


class Scr:
    __slots__ = ("oid", "world")

    def __init__(self, oid, world):
        self.oid, self.world = oid, world

    kind = "s"

    def __eq__(self, other):
        self.world.log.append(("eq", self, other))
        return self.world.play(self.oid, 0)

    def __ne__(self, other):
        self.world.log.append(("ne", self, other))
        return self.world.play_ne(self.oid)

    __hash__ = object.__hash__

    def _cmp(self, other):
        return self.world.play(self.oid, 1)

    __lt__ = __le__ = __gt__ = __ge__ = _cmp

    def __repr__(self):
        return "Scr(%d)" % self.oid


class ScrInt(int):
    """A builtin subclass that overrides only __eq__ (scripted, recorded): `a != b` on such values
    is int.__ne__ on the payloads, unrelated to what __eq__ says."""
    kind = "b"

    def __eq__(self, other):
        self.world.log.append(("eq", self, other))
        return self.world.play(self.oid, 0)

    __hash__ = int.__hash__

    def __repr__(self):
        return "ScrInt(%d)" % self.oid


class Foreign:
    """Not an attrs instance; its own (reflected) methods answer from a script."""

    def __init__(self, world, eqr, ner, cmpr="NI"):
        self.world, self.eqr, self.ner, self.cmpr = world, eqr, ner, cmpr

    def __eq__(self, other):
        return self.world.play_outcome(self.eqr)

    def __ne__(self, other):
        return self.world.play_outcome(self.ner)

    __hash__ = object.__hash__

    def _cmp(self, other):
        return self.world.play_outcome(self.cmpr)

    __lt__ = __le__ = __gt__ = __ge__ = _cmp


_WORLD = [None]

class EqOnly:
    """Key result defining only __eq__ (hence unhashable, and not iterable)."""

    def __init__(self, v):
        self.v = v

    def __eq__(self, other):
        return isinstance(other, EqOnly) and self.v % 2 == other.v % 2


def _set_key(v):
    # equal sets with different iteration order (0 and 8 collide in a small table): v <= 1 all map to
    # the set {0, 8}, built in either insertion order; v >= 2 to {v}.  == classes: max(v, 1)
    if v >= 2:
        return {v}
    s = set()
    for e in ((0, 8) if v % 2 == 0 else (8, 0)):
        s.add(e)
    return s


INTFN = {0: lambda v: -v, 1: abs, 2: lambda v: v % 2,
         4: _set_key, 5: lambda v: {0: v}, 6: EqOnly,
         7: lambda v: None if v == 0 else v,        # a key whose RESULT can be None
         8: lambda v: 1 if v == 0 else v}           # falsy values land on the image of 1


def _mk_key(k):
    def key(v):
        w = _WORLD[0]
        if isinstance(v, (Scr, ScrInt)):
            return w.scr(100 * (k + 1) + v.oid, v.kind)
        if isinstance(v, float):
            return w.nan(100 * (k + 1) + w.nan_ids.get(id(v), 99))
        if v is None or (isinstance(v, str) and v == ""):
            # every key accepts the falsy non-numbers None and '' and treats them like 0 (`v or 0`),
            # except key 7 which sends them to 1
            if k == 7:
                return 1
            v = 0
        return INTFN.get(k, lambda z: min(z, 1))(v)
    key.__name__ = "key%d" % k
    return key


class FalsyDictKey(dict):
    """callable dict subclass, empty: bool() is False"""

    def __call__(self, v):
        return self.fn(v)


class FalsyBoolKey:
    def __bool__(self):
        return False

    def __call__(self, v):
        return self.fn(v)


class FalsyLenKey:
    def __len__(self):
        return 0

    def __call__(self, v):
        return self.fn(v)


def _falsy_key(cls, k):
    o = cls()
    o.fn = _mk_key(k)      # same treatment of scripted / NaN / None values as every other key
    assert not o and callable(o)
    return o


INTFN.update({100: lambda v: v % 2, 102: abs})     # 101: the default min(v, 1)

KEYFN = {k: _mk_key(k) for k in range(9)}
KEYFN.update({100: _falsy_key(FalsyDictKey, 100), 101: _falsy_key(FalsyBoolKey, 101),
              102: _falsy_key(FalsyLenKey, 102)})                # falsy callable objects
KEYID = {id(f): k for k, f in KEYFN.items()}

# --------------------------------------------------------------------------------------
# settings, layers

# a field-level setting is "N" | "T" | "F" | "K0".."K3"; class-level None (omitted) | "N" | "T" | "F"


def py_setting(s):
    # "K<n>": key function n; "Q<n>": falsy callable object n
    return {"N": None, "T": True, "F": False}[s] if s[0] not in "KQ" else KEYFN[int(s[1:])]


def coq_setting(s):
    if s[0] == "Q":
        return "(SKf %s)" % s[1:]
    return {"N": "SN", "T": "ST", "F": "SF"}[s] if s[0] != "K" else "(SK %s)" % s[1:]


def coq_tri_opt(t):
    return "None" if t is None else "(Some %s)" % {"N": "TN", "T": "TT", "F": "TF"}[t]


def coq_layer(spec, fields):
    """spec: layer dict; fields: complete list of [name, cmp, eq, order] in attrs order."""
    auto = spec.get("auto")
    ca = "(CA %s %s %s %s %s %s %s)" % (
        "AttrS" if spec["api"] == "s" else "Define", coq_tri_opt(spec.get("cmp")),
        coq_tri_opt(spec.get("eq")), coq_tri_opt(spec.get("order")),
        "None" if auto is None else "(Some %s)" % b(auto),
        b(bool(spec.get("own_eq"))), b(bool(spec.get("own_order"))))
    fs = lst("(FS %d %s %s %s)" % (NAMES.index(n), coq_setting(c), coq_setting(e), coq_setting(o))
             for n, c, e, o in (f[:4] for f in fields))
    return "(LY %s %s)" % (ca, fs)


def coq_val(v):
    if v[0] == "o":
        return "Vo"
    if v[0] == "e":
        return "Ve"
    if v[0] == "i":
        return "(Vi %d)" % v[1] if v[1] >= 0 else "(Vi (%d))" % v[1]
    return "(V%s %d)" % ("s" if v[0] == "b" else v[0], v[1])


def zl(zs):
    """list Z literal"""
    return "[%s]%%Z" % ";".join(str(z) if z >= 0 else "(%d)" % z for z in zs) if zs else "[]"


def coq_outcome(o):
    if o[0] == "T":
        return "PTrue"
    if o[0] == "F":
        return "PFalse"
    if o[0] == "O":
        return "(PObj %s %d)" % (b(bool(o[1])), o[2])
    return "(PRaise %d)" % o[1]


def coq_pyres(r):
    return "RNotImpl" if r == "NI" else "(RV %s)" % coq_outcome(r)


def coq_script(script):
    return lst("(%d, (%s, %s))" % (int(k), coq_outcome(v[0]), coq_outcome(v[1]))
               for k, v in sorted(script.items(), key=lambda kv: int(kv[0])))


def make_field(api, cmp, eq, order, hash_=None, extras=None):
    """extras: {"init": False} and/or {"alias": name} (colliding init aliases)"""
    kw = dict(extras or {})
    if hash_ is not None:
        kw["hash"] = {"T": True, "F": False}[hash_]
    if cmp != "N" or api == "s_explicit":
        kw["cmp"] = py_setting(cmp)
    if eq != "N":
        kw["eq"] = py_setting(eq)
    if order != "N":
        kw["order"] = py_setting(order)
    if api == "d":
        if "cmp" in kw:
            # attrs.field has no cmp=; fall back to attr.ib (both give a _CountingAttr)
            return attr.ib(**kw)
        return attrs.field(**kw)
    return attr.ib(**kw)


def _own_eq(self, other):
    return NotImplemented


def _own_lt(self, other):
    return NotImplemented


_counter = itertools.count()


class EqMeta(type):
    """A metaclass under which all classes compare equal: only an identity test
    (`is`) tells them apart."""

    def __eq__(cls, other):
        return True

    def __ne__(cls, other):
        return False

    __hash__ = type.__hash__


def build_class(spec, base):
    body = {}
    for f in spec["own"]:
        n, c, e, o = f[:4]
        body[n] = make_field(spec["api"], c, e, o, f[4] if len(f) > 4 else None, f[5] if len(f) > 5 else None)
    if spec.get("own_eq"):
        body["__eq__"] = _own_eq
    if spec.get("own_order"):
        body["__lt__"] = _own_lt
    if spec.get("annot"):
        body["__annotations__"] = {f[0]: int for f in spec["own"]}
    mk = EqMeta if spec.get("meta") else type
    cls = mk("K%d" % next(_counter), (base,) if base is not None else (), body)
    kw = {}
    for k in ("cmp", "eq", "order"):
        if spec.get(k) is not None:
            kw[k] = {"N": None, "T": True, "F": False}[spec[k]]
    if spec.get("auto") is not None:
        kw["auto_detect"] = spec["auto"]
    if spec.get("slots") is not None:
        kw["slots"] = spec["slots"]
    if spec.get("frozen"):
        kw["frozen"] = True
    for k in ("unsafe_hash", "cache_hash"):
        if spec.get(k):
            kw[k] = True
    deco = attr.s if spec["api"] == "s" else attrs.define
    return deco(**kw)(cls) if (kw or spec.get("call", True)) else deco(cls)


def build_chain(specs):
    """specs base-first.  Returns (classes base-first, complete field lists) or raises."""
    classes, fieldlists = [], []
    base = None
    for i, spec in enumerate(specs):
        cls = build_class(spec, base)
        names = [a.name for a in attr.fields(cls)]
        fl = []
        for n in names:
            for j in range(i, -1, -1):
                hit = [f for f in specs[j]["own"] if f[0] == n]
                if hit:
                    fl.append(list(hit[0]))
                    break
            else:
                raise RuntimeError("field %r of unknown origin" % n)
        classes.append(cls)
        fieldlists.append(fl)
        base = cls
    return classes, fieldlists


def instantiate(cls, fields, vals, world):
    by_name = {f[0]: world.value(v) for f, v in zip(fields, vals)}
    kw, later = {}, []
    for a in attr.fields(cls):
        if a.name not in by_name:
            continue
        if a.init:
            kw[a.alias] = by_name[a.name]
        else:
            later.append(a.name)
    inst = cls(**kw)
    for n in later:                       # init=False fields: stored directly (works for frozen / slots too)
        object.__setattr__(inst, n, by_name[n])
    return inst


def observe(fn):
    """Run a comparison; JSON pyres: 'NI' | ['T'] | ['F'] | ['O', truthy, oid] | ['R', e]."""
    try:
        r = fn()
    except Exception as e:  # noqa: BLE001 - the class is what is observed
        return ["R", exc_id(e)]
    if r is NotImplemented:
        return "NI"
    if r is True:
        return ["T"]
    if r is False:
        return ["F"]
    if isinstance(r, Ret):
        return ["O", r.truthy, r.oid]
    return ["O", True, 9999]


def mk_operand(o, x, classes, fieldlists, world, nchain):
    """o: ['same'] | ['inst', c, vals] | ['f', eqr, ner] | ['p', kind]; c is the Coq position
    (most derived = 0)."""
    if o[0] == "same":
        return x
    if o[0] == "inst":
        i = nchain - 1 - o[1]
        return instantiate(classes[i], fieldlists[i], o[2], world)
    if o[0] == "f":
        return Foreign(world, o[1], o[2], o[3] if len(o) > 3 else "NI")
    return {"object": object(), "none": None, "int": 5, "str": "x", "tuple": (0, 0)}[o[1]]


def coq_operand(o):
    if o[0] == "same":
        return "OpSame"
    if o[0] == "inst":
        return "(OpInst %d %s)" % (o[1], lst(coq_val(v) for v in o[2]))
    if o[0] == "f":
        return "(OpForeign %s %s)" % (coq_pyres(o[1]), coq_pyres(o[2]))
    return "(OpForeign RNotImpl RNotImpl)"


# --------------------------------------------------------------------------------------
# script-level tie: fail-closed reader of the real generated __eq__ source


class Unrecognised(Exception):
    pass


def _side(n, who):
    """`who.f` -> (f, None) ; `H(who.f)` -> (f, H)"""
    helper = None
    if isinstance(n, ast.Call) and isinstance(n.func, ast.Name) and len(n.args) == 1 and not n.keywords:
        helper, n = n.func.id, n.args[0]
    if isinstance(n, ast.Attribute) and isinstance(n.value, ast.Name) and n.value.id == who \
            and isinstance(n.ctx, ast.Load):
        return n.attr, helper
    raise Unrecognised(ast.dump(n))


def parse_eq_source(src, globs):
    """Source text of a generated __eq__ -> [(field name, key id | None)] in chain order."""
    try:
        tree = ast.parse(textwrap.dedent(src))
    except SyntaxError as e:
        raise Unrecognised("syntax: %s" % e)
    if len(tree.body) != 1 or not isinstance(tree.body[0], ast.FunctionDef):
        raise Unrecognised("not a single def")
    fn = tree.body[0]
    a = fn.args
    if (fn.name != "__eq__" or [x.arg for x in a.args] != ["self", "other"] or a.vararg or a.kwarg
            or a.kwonlyargs or a.posonlyargs or a.defaults or fn.decorator_list):
        raise Unrecognised("signature")
    body = [st for st in fn.body if not (isinstance(st, ast.Expr) and isinstance(st.value, ast.Constant)
                                         and isinstance(st.value.value, str))]
    if len(body) != 2:
        raise Unrecognised("body has %d statements" % len(body))
    test, ret = body

    def cls_of(n, who):
        return (isinstance(n, ast.Attribute) and n.attr == "__class__" and isinstance(n.value, ast.Name)
                and n.value.id == who)
    ok = (isinstance(test, ast.If) and not test.orelse and isinstance(test.test, ast.Compare)
          and len(test.test.ops) == 1 and isinstance(test.test.ops[0], ast.IsNot)
          and cls_of(test.test.left, "other") and cls_of(test.test.comparators[0], "self")
          and len(test.body) == 1 and isinstance(test.body[0], ast.Return)
          and isinstance(test.body[0].value, ast.Name) and test.body[0].value.id == "NotImplemented")
    if not ok:
        raise Unrecognised("class test: " + ast.dump(test))
    if not isinstance(ret, ast.Return) or ret.value is None:
        raise Unrecognised("no return")
    v = ret.value
    if isinstance(v, ast.Constant) and v.value is True:
        return []
    if isinstance(v, ast.BoolOp) and isinstance(v.op, ast.And):
        parts = v.values
    else:
        parts = [v]
    chain = []
    for c in parts:
        if not (isinstance(c, ast.Compare) and len(c.ops) == 1 and isinstance(c.ops[0], ast.Eq)):
            raise Unrecognised(ast.dump(c))
        f1, h1 = _side(c.left, "self")
        f2, h2 = _side(c.comparators[0], "other")
        if f1 != f2 or h1 != h2:
            raise Unrecognised("sides differ: " + ast.dump(c))
        if f1 not in NAMES:
            raise Unrecognised("unknown field " + f1)
        if h1 is None:
            chain.append((f1, None))
        else:
            if h1 != "__attr_key_" + f1 or h1 not in globs or id(globs[h1]) not in KEYID:
                raise Unrecognised("key helper %s used for field %s (expected __attr_key_%s bound to a known key)" % (h1, f1, f1))
            chain.append((f1, KEYID[id(globs[h1])]))
    return chain


_script_terms = {}        # term -> source (distinct classes by field list + parsed chain)
_script_unrecognised = []
_script_classes = [0]


def record_scripts(classes, fieldlists):
    for cls, fl in zip(classes, fieldlists):
        fn = cls.__dict__.get("__eq__")
        if fn is None or not hasattr(fn, "__code__"):
            continue
        _script_classes[0] += 1
        try:
            src = inspect.getsource(fn)
            chain = parse_eq_source(src, fn.__globals__)
        except Unrecognised as e:
            if len(_script_unrecognised) < 50:
                _script_unrecognised.append(str(e)[:300])
            else:
                _script_unrecognised.append("")
            continue
        except (OSError, TypeError) as e:
            _script_unrecognised.append("no source: %r" % (e,))
            continue
        term = "(SC %s %s)" % (
            lst("(FS %d %s %s %s)" % (NAMES.index(n), coq_setting(c), coq_setting(e), coq_setting(o))
                for n, c, e, o in (f[:4] for f in fl)),
            lst("(%d, %s)" % (NAMES.index(f), vlib.opt(k, str)) for f, k in chain))
        _script_terms.setdefault(term, src)


def script_tie():
    """Translation validation of the eq generator (supplementary evidence, never an alarm)."""
    if not _script_classes[0]:
        return {"script_tie": "no classes"}
    terms = list(_script_terms)
    bad = vlib.run_cases(PROP, HEADER, "script_case", "script_case_ok", terms, tag="script") if terms else []
    res = {"script_tie": {"classes_parsed": _script_classes[0], "distinct_scripts": len(terms),
                          "equal": len(terms) - len(bad), "different": len(bad),
                          "unrecognised": len(_script_unrecognised)}}
    if bad:
        t = terms[bad[0]]
        res["script_tie"]["first_difference"] = {
            "real_source": _script_terms[t], "parsed": t,
            "model_script": vlib.eval_in_coq(PROP, HEADER, "script_model_of (%s)" % t)[:2000]}
        print("NOTE: script-level tie: %d of %d distinct real __eq__ sources differ from the model's script "
              "(not a verdict; see evidence)" % (len(bad), len(terms)))
    if _script_unrecognised:
        res["script_tie"]["first_unrecognised"] = next((u for u in _script_unrecognised if u), "")[:500]
        print("NOTE: script-level tie: %d real __eq__ source(s) have a shape the reader does not know "
              "(not a verdict)" % len(_script_unrecognised))
    return res


def extra(tier, seed):
    return [], dict(script_tie(), runtime_observations=0)


# --------------------------------------------------------------------------------------
# C03 observations


def eq_quad(x, y, world):
    out = []
    for fn in (lambda: x == y, lambda: x != y,
               lambda: type(x).__eq__(x, y), lambda: type(x).__ne__(x, y)):
        world.log = []
        r = observe(fn)
        out.append([r, [[k, world.enc_back(a), world.enc_back(c)] for k, a, c in world.log]])
    return out


def _digit(r):
    return 2 if r == "NI" else 0 if r == ["F"] else 1 if r == ["T"] else 3


def coq_obs1(o):
    return "(%s, %s)" % (coq_pyres(o[0]), lst("(%s %s %s)" % ("CEq" if k == "eq" else "CNe", coq_val(a), coq_val(c))
                                              for k, a, c in o[1]))


def run_chain(inp):
    """inp: {'chain': [layer specs base-first], 'script': {...}, 'items': [...]}."""
    specs = inp["chain"]
    n = len(specs)
    world = World(inp.get("script", {}))
    _WORLD[0] = world
    try:
        classes, fieldlists = build_chain(specs)
    except ValueError:
        return {"def": "ValueError"}, None
    except Exception as e:  # noqa: BLE001
        return {"def": "other:" + type(e).__name__}, None
    record_scripts(classes, fieldlists)
    gen = []
    for cls in reversed(classes):
        he, hn = "__eq__" in cls.__dict__, "__ne__" in cls.__dict__
        if spec_own_eq(specs, classes, cls):
            gen.append(7)  # user method present: not observed this way (never in C03 chains)
        else:
            gen.append(1 if (he and hn) else 0 if not (he or hn) else 5)
    outs = []
    for it in inp["items"]:
        if it[0] == "probe":
            _, c, vals, o = it
            i = n - 1 - c
            x = instantiate(classes[i], fieldlists[i], vals, world)
            y = mk_operand(o, x, classes, fieldlists, world, n)
            outs.append(["probe", eq_quad(x, y, world)])
        else:
            c, dom = it[1], it[2]
            i = n - 1 - c
            k = len(fieldlists[i])
            if it[0] == "allv":
                vecs = [list(v) for v in itertools.product(dom, repeat=k)]
                codes = []
                for xv in vecs:
                    x = instantiate(classes[i], fieldlists[i], xv, world)
                    for yv in vecs:
                        y = instantiate(classes[i], fieldlists[i], yv, world)
                        q = eq_quad(x, y, world)
                        codes.append(sum(_digit(r[0]) * 4 ** j for j, r in enumerate(q)))
                outs.append(["all", codes])
                continue
            vecs = [] if it[0] in ("pair", "hist") else [[["i", z] for z in v] for v in itertools.product(dom, repeat=k)]
            codes = []
            if it[0] == "hist":
                fl = fieldlists[i]
                x = instantiate(classes[i], fl, [["i", z] for z in it[2]], world)
                y = instantiate(classes[i], fl, [["i", z] for z in it[3]], world)

                def qcode():
                    q = eq_quad(x, y, world)
                    return sum(_digit(r[0]) * 4 ** j for j, r in enumerate(q))
                codes = [qcode()]
                try:
                    hash(x), hash(y)
                    codes.append(qcode())
                    if it[4] is not None:
                        setattr(x, fl[it[4][0]][0], it[4][1])
                        codes.append(qcode())
                except Exception as e:  # noqa: BLE001 - not expected: the classes are hashable and mutable
                    codes.append(900 + exc_id(e))
                outs.append(["all", codes])
                continue
            if it[0] == "pair":
                x = instantiate(classes[i], fieldlists[i], [["i", z] for z in it[2]], world)
                i2 = n - 1 - it[3]
                y = instantiate(classes[i2], fieldlists[i2], [["i", z] for z in it[4]], world)
                q = eq_quad(x, y, world)
                outs.append(["all", [sum(_digit(r[0]) * 4 ** j for j, r in enumerate(q))]])
                continue
            for xv in (vecs if it[0] == "all" else [[["i", z] for z in it[3]]]):
                x = instantiate(classes[i], fieldlists[i], xv, world)
                for yv in vecs:
                    y = instantiate(classes[i], fieldlists[i], yv, world)
                    q = eq_quad(x, y, world)
                    codes.append(sum(_digit(r[0]) * 4 ** j for j, r in enumerate(q)))
            outs.append(["all", codes])
    return {"def": "ok", "gen": gen, "outs": outs}, (classes, fieldlists)


def spec_own_eq(specs, classes, cls):
    return bool(specs[classes.index(cls)].get("own_eq"))


def chain_case(inp):
    seen, built = run_chain(inp)
    specs = inp["chain"]
    n = len(specs)
    if built is not None:
        fieldlists = built[1]
    else:
        # definition failed: the model only needs to find the error; give it the fields the
        # harness intended, base fields first (order is irrelevant for an error)
        fieldlists = []
        for i in range(n):
            fl, seen_names = [], set()
            for j in range(i, -1, -1):
                for f in specs[j]["own"]:
                    if f[0] not in seen_names:
                        seen_names.add(f[0])
                        fl.append(list(f))
            fieldlists.append(fl)
    layers = lst(coq_layer(specs[i], fieldlists[i]) for i in range(n - 1, -1, -1))
    items = []
    for it in inp["items"]:
        if it[0] == "probe":
            items.append("(IProbe %d %s %s)" % (it[1], lst(coq_val(v) for v in it[2]), coq_operand(it[3])))
        elif it[0] == "all":
            items.append("(IAll %d %s)" % (it[1], zl(it[2])))
        elif it[0] == "row":
            items.append("(IRow %d %s %s)" % (it[1], zl(it[2]), zl(it[3])))
        elif it[0] == "allv":
            items.append("(IAllV %d %s)" % (it[1], lst(coq_val(v) for v in it[2])))
        elif it[0] == "hist":
            mut = "None" if it[4] is None else "(Some (%d, (%d)%%Z))" % (it[4][0], it[4][1])
            items.append("(IHist %d %s %s %s)" % (it[1], zl(it[2]), zl(it[3]), mut))
        else:
            items.append("(IPair %d %s %d %s)" % (it[1], zl(it[2]), it[3], zl(it[4])))
    if seen["def"] == "ValueError":
        cs = "SeenErr"
    elif seen["def"] == "ok":
        outs = []
        for o in seen["outs"]:
            if o[0] == "probe":
                outs.append("(OProbe %s)" % lst(coq_obs1(q) for q in o[1]))
            else:
                outs.append("(OAll %s)" % lst(str(c) for c in o[1]))
        cs = "(SeenOk %s %s)" % (lst(str(g) for g in seen["gen"]), lst(outs))
    else:
        cs = "(SeenOk [9] [])"
    term = "(KChain %s %s %s %s)" % (layers, coq_script(inp.get("script", {})), lst(items), cs)
    nontrivial = bool(inp["items"]) and any(f[1] != "F" and f[2] != "F" for s in specs for f in s["own"])
    sig = {"kind": "chain", "apis": "".join(s["api"] for s in specs), "depth": n}
    return Case(term, inp, seen, sig=sig, nontrivial=nontrivial, key=repr(inp))


def field_case(inp):
    api, cmp, eq, order = inp["api"], inp["cmp"], inp["eq"], inp["order"]
    try:
        if api == "s":
            ca = attr.ib(cmp=py_setting(cmp), eq=py_setting(eq), order=py_setting(order))
        else:
            ca = attrs.field(eq=py_setting(eq), order=py_setting(order))
        cls = type("KF%d" % next(_counter), (), {"a": ca})
        cls = (attr.s if api == "s" else attrs.define)(cls)
        a = attr.fields(cls).a

        def kid(f):
            return None if f is None else KEYID.get(id(f), 99)
        seen = {"eq": a.eq, "eq_key": kid(a.eq_key), "order": a.order, "order_key": kid(a.order_key)}
        if not (isinstance(a.eq, bool) and isinstance(a.order, bool)):
            seen = {"bad": repr((a.eq, a.order))}
    except ValueError:
        seen = "ValueError"
    except Exception as e:  # noqa: BLE001
        seen = {"bad": type(e).__name__}
    if seen == "ValueError":
        s = "VErr"
    elif "bad" in seen:
        s = "(Ok (F 77 true None true None))"
    else:
        s = "(Ok (F 0 %s %s %s %s))" % (b(seen["eq"]), vlib.opt(seen["eq_key"], str),
                                       b(seen["order"]), vlib.opt(seen["order_key"], str))
    term = "(KField %s %s %s %s %s)" % ("AttrS" if api == "s" else "Define", coq_setting(cmp),
                                        coq_setting(eq), coq_setting(order), s)
    return Case(term, dict(inp, kind="field"), seen, sig={"kind": "field", "api": api},
                nontrivial=True, key=repr(inp))


# --------------------------------------------------------------------------------------
# generators

# palette of (cmp, eq, order) per field used by the exhaustive single-class sweep
PALETTE = [("N", "N", "N"), ("N", "T", "N"), ("N", "F", "N"), ("N", "K1", "N"), ("F", "N", "N"),
           ("K2", "N", "N"), ("N", "F", "F"), ("N", "K0", "F"), ("N", "T", "K3")]

CLASS_ARGS_OK = [  # (cmp, eq, order) at class level that generate __eq__ / or not
    (None, None, None), (None, "T", None), (None, "N", "N"), (None, None, "F"), (None, "T", "T"),
    ("T", None, None), ("N", None, None), (None, "T", "F"), (None, None, "T")]
CLASS_ARGS_NOEQ = [(None, "F", None), ("F", None, None), (None, "F", "F")]
CLASS_ARGS_ERR = [(None, "F", "T"), ("T", "T", None), ("F", None, "T")]


def rand_layer(rng, own, p_noeq=0.0, p_err=0.0):
    api = rng.choice("sd")
    r = rng.random()
    if r < p_err:
        cmp, eq, order = rng.choice(CLASS_ARGS_ERR)
    elif r < p_err + p_noeq:
        cmp, eq, order = rng.choice(CLASS_ARGS_NOEQ)
    else:
        cmp, eq, order = rng.choice(CLASS_ARGS_OK)
    if api == "d" and cmp is not None:
        # define() has no cmp=: express the same through eq/order
        cmp, eq, order = None, cmp, None
        if eq == "N":
            eq = None
    spec = {"api": api, "cmp": cmp, "eq": eq, "order": order, "own": [list(f) for f in own],
            "slots": rng.choice([None, True, False]), "frozen": rng.random() < 0.3,
            "auto": rng.choice([None, None, True, False])}
    if api == "d" and rng.random() < 0.5:
        spec["annot"] = True
    return spec


def sweep_cases(rng, tier):
    out = []
    for k in (1, 2, 3):
        combos = list(itertools.product(PALETTE, repeat=k))
        if k == 3:
            rng.shuffle(combos)
            combos = combos[:50 if tier == "quick" else len(combos)]
        for combo in combos:
            own = [[NAMES[i]] + list(t) for i, t in enumerate(combo)]
            dom = rng.choice([[0, 1, 2], [0, 1, 2], [-1, 0, 1]])
            layer = rand_layer(rng, own)
            if k < 3:
                out.append({"chain": [layer], "script": {}, "items": [["all", 0, dom]]})
            else:
                rows = [["row", 0, dom, list(xv)] for xv in itertools.product(dom, repeat=k)]
                for j in range(0, len(rows), 3):
                    out.append({"chain": [layer], "script": {}, "items": rows[j:j + 3]})
    return out


OUTCOMES = [["T"], ["F"], ["O", True, 0], ["O", False, 0], ["R", 0], "nanlike"]


def scripted_cases(rng, tier):
    """Every vector of == outcomes for every participation pattern over {T, F, key}."""
    out = []
    kinds = [("N", "T", "N"), ("N", "F", "N"), ("N", "K1", "N")]
    alt = [("N", "N", "N"), ("F", "N", "N"), ("K2", "N", "N")]
    for k in (1, 2, 3):
        for pat in itertools.product(range(3), repeat=k):
            own = []
            for i, p in enumerate(pat):
                t = kinds[p] if rng.random() < 0.6 else alt[p]
                own.append([NAMES[i]] + list(t))
            vectors = list(itertools.product(range(len(OUTCOMES)), repeat=k))
            if tier == "quick" and k == 3:
                rng.shuffle(vectors)
                vectors = vectors[:30]
            for chunk in range(0, len(vectors), 3):
                script, items = {}, []
                nid = 1
                for vec in vectors[chunk:chunk + 3]:
                    xv, yv = [], []
                    same = rng.random() < 0.25
                    for i, oc in enumerate(vec):
                        fid = nid
                        nid += 2
                        t = own[i][1:]
                        keyk = None
                        for s in (t[0], t[1]):
                            if s[0] == "K":
                                keyk = int(s[1:])
                        o = OUTCOMES[oc]
                        if o == "nanlike":
                            o = ["F"]
                        o = [o[0], o[1], 1000 + fid] if o[0] == "O" else o
                        # the object that is really compared gets the outcome; the un-keyed
                        # original (if a key applies) gets the opposite truth value
                        tgt = fid if keyk is None else 100 * (keyk + 1) + fid
                        script[tgt] = [o, ["F"]]
                        if keyk is not None:
                            opp = ["F"] if (o[0] == "T" or (o[0] == "O" and o[1])) else ["T"]
                            script[fid] = [opp, ["F"]]
                        vk = "b" if rng.random() < 0.35 else "s"   # int subclass overriding only __eq__
                        xv.append([vk, fid])
                        r = rng.random()
                        if OUTCOMES[oc] == "nanlike" or r < 0.3:
                            yv.append([vk, fid])            # the identical object on both sides
                        elif r < 0.65:
                            yv.append([rng.choice("sb"), fid + 1])
                            script.setdefault(fid + 1, [["T"], ["F"]])
                            if keyk is not None:
                                script.setdefault(100 * (keyk + 1) + fid + 1, [["T"], ["F"]])
                        else:
                            yv.append(["i", rng.randint(0, 2)])
                    if same and all(a == c for a, c in zip(xv, yv)):
                        items.append(["probe", 0, xv, ["same"]])
                    else:
                        items.append(["probe", 0, xv, ["inst", 0, yv]])
                out.append({"chain": [rand_layer(rng, own)], "script": script, "items": items})
    return out


FOREIGN_OPS = [["p", "object"], ["p", "none"], ["p", "int"], ["p", "tuple"],
               ["f", "NI", "NI"], ["f", ["T"], ["F"]], ["f", ["T"], ["T"]], ["f", ["F"], "NI"],
               ["f", "NI", ["T"]], ["f", ["O", True, 55], ["O", False, 56]], ["f", ["R", 1], ["R", 0]]]


def rand_own(rng, names, weights=None):
    own = []
    for n in names:
        r = rng.random()
        if r < 0.55:
            t = rng.choice(PALETTE)
        else:
            vals = ["N", "T", "F", "K0", "K1", "K2", "K3"]
            t = (rng.choice(["N"] * 5 + ["T", "F", "K1"]), rng.choice(vals), rng.choice(vals))
            if t[0] != "N":
                t = (t[0], "N", "N")
            if t[1] == "F" and (t[2] == "T" or t[2][0] == "K"):
                t = (t[0], t[1], "F")
        own.append([n] + list(t))
    return own


def rand_vals(rng, k, dom=(0, 1, 2)):
    return [["i", rng.choice(dom)] for _ in range(k)]


def compact(items):
    out = []
    for it in items:
        if (it[0] == "probe" and it[3][0] == "inst" and all(v[0] == "i" for v in it[2])
                and all(v[0] == "i" for v in it[3][2])):
            out.append(["pair", it[1], [v[1] for v in it[2]], it[3][1], [v[1] for v in it[3][2]]])
        else:
            out.append(it)
    return out


def chain_cases(rng, tier):
    out = []
    n_cases = 100 if tier == "quick" else 900
    for _ in range(n_cases):
        depth = rng.choice([2, 2, 3])
        specs, names_so_far = [], []
        for d in range(depth):
            fresh = [n for n in NAMES[:5] if n not in names_so_far]
            n_new = rng.choice([0, 1, 1, 2]) if d else rng.choice([1, 2, 2])
            new = fresh[:n_new]
            over = [n for n in names_so_far if rng.random() < 0.25] if d else []
            own = rand_own(rng, over + new)
            rng.shuffle(own)
            names_so_far += new
            specs.append(rand_layer(rng, own, p_noeq=0.3 if d else 0.15, p_err=0.03))
        if rng.random() < 0.3:
            specs[0]["meta"] = True      # inherited by the whole chain
        inp = {"chain": specs, "script": {}, "items": []}
        # sizes of the complete field lists are not known before building; probe with
        # generous vectors (extra values are ignored by zip / combine)
        try:
            _WORLD[0] = World({})
            _classes, fls = build_chain(specs)
            sizes = [len(f) for f in fls]
        except Exception:  # noqa: BLE001
            sizes = None
        items = []
        if sizes is not None:
            for c in range(depth):
                k = sizes[depth - 1 - c]
                if k <= 2:
                    items.append(["all", c, rng.choice([[0, 1, 2], [-1, 0, 1]])])
                for _ in range(4):
                    xv = rand_vals(rng, k)
                    yv = [v if rng.random() < 0.6 else ["i", rng.randint(0, 2)] for v in xv]
                    items.append(["probe", c, xv, ["inst", c, yv]])
                items.append(["probe", c, rand_vals(rng, k), ["same"]])
                for c2 in range(depth):
                    if c2 != c:
                        k2 = sizes[depth - 1 - c2]
                        xv = rand_vals(rng, k)
                        # same values wherever the names coincide is the interesting case
                        yv = (xv + rand_vals(rng, k2))[:k2] if rng.random() < 0.7 else rand_vals(rng, k2)
                        if rng.random() < 0.5:
                            xv = [["i", 1]] * k
                            yv = [["i", 1]] * k2
                        items.append(["probe", c, xv, ["inst", c2, yv]])
                for o in rng.sample(FOREIGN_OPS, 3):
                    items.append(["probe", c, rand_vals(rng, k), o])
                # float NaN: identical object on both sides of x == x and of two instances
                if k:
                    xv = rand_vals(rng, k)
                    j = rng.randrange(k)
                    xv[j] = ["n", 1]
                    items.append(["probe", c, xv, ["same"]])
                    items.append(["probe", c, xv, ["inst", c, list(xv)]])
        if not items:
            out.append(inp)
        items = compact(items)
        for j in range(0, len(items), 8):
            out.append({"chain": specs, "script": {}, "items": items[j:j + 8]})
    return out


def wide_cases(rng, tier):
    out = []
    for _ in range(40 if tier == "quick" else 300):
        k = rng.choice([4, 5])
        own = rand_own(rng, NAMES[:k])
        items = []
        for _ in range(30):
            xv = rand_vals(rng, k)
            yv = [v if rng.random() < 0.75 else ["i", rng.randint(0, 2)] for v in xv]
            items.append(["probe", 0, xv, ["inst", 0, yv]])
        layer = rand_layer(rng, own)
        items = compact(items)
        for j in range(0, len(items), 15):
            out.append({"chain": [layer], "script": {}, "items": items[j:j + 15]})
    return out


def hash_cases(rng, tier):
    """Classes with a generated (and cached) __hash__: hashing both operands, or re-assigning a field
    afterwards, never changes what == / != answer (eq=False fields may take part in the hash)."""
    out = []
    for _ in range(60 if tier == "quick" else 600):
        k = rng.choice([1, 2, 3])
        own = rand_own(rng, NAMES[:k])
        for f in own:
            if any(s_[0] == "K" for s_ in f[1:4]) and rng.random() < 0.5:
                f[1:4] = ["N", "K%d" % rng.randint(0, 3), "N"]
            if (f[1] == "F" or f[2] == "F") and rng.random() < 0.8:
                f.append("T")                      # eq=False but hash=True
        if rng.random() < 0.6 and not any(len(f) > 4 for f in own):
            own[rng.randrange(k)][1:] = ["N", "F", "N", "T"]
        if all(f[1] == "F" or f[2] == "F" for f in own):
            own[0][1:] = ["N", "N", "N"]          # at least one eq field
        layer = rand_layer(rng, own)
        layer.update(cmp=None, eq=rng.choice([None, "T"]), order=None)
        frozen = rng.random() < 0.4
        layer["frozen"] = frozen
        layer["unsafe_hash"] = True
        layer["cache_hash"] = rng.random() < 0.8
        items = []
        for _ in range(6):
            xv = [rng.randint(0, 2) for _ in range(k)]
            yv = list(xv)
            for j, f in enumerate(own):
                eq_off = f[1] == "F" or f[2] == "F"
                if rng.random() < (0.7 if eq_off else 0.25):
                    yv[j] = rng.randint(0, 2)
            mut = None
            if not frozen:
                j = rng.randrange(k)
                mut = [j, yv[j] if rng.random() < 0.7 else rng.randint(0, 2)]
            items.append(["hist", 0, xv, yv, mut])
        out.append({"chain": [layer], "script": {}, "items": items})
    return out


def keyres_cases(rng, tier):
    """Key functions whose results are a set, a dict, an object defining only __eq__, on classes with
    and without a generated __hash__ (never hashed): all ordered pairs, same answers either way."""
    out = []
    hashcfgs = [{}, {"frozen": True}, {"unsafe_hash": True}, {"unsafe_hash": True, "cache_hash": True},
                {"frozen": True, "cache_hash": True}]
    combos = [[kk] for kk in (4, 5, 6)] + [[a, c] for a in (4, 5, 6, None) for c in (4, 5, 6, 1)]
    for combo in combos:
        own = []
        for i, kk in enumerate(combo):
            t = ["N", "N", "N"] if kk is None else rng.choice([["N", "K%d" % kk, "F"], ["N", "K%d" % kk, "F"],
                                                                 ["N", "K%d" % kk, "K0"]])
            own.append([NAMES[i]] + t)
        for cfg in (hashcfgs if tier == "thorough" else [hashcfgs[0]] + rng.sample(hashcfgs[1:], 2)):
            layer = rand_layer(rng, own)
            layer.update(cmp=None, eq=None, order=None, frozen=False)
            layer.update(cfg)
            out.append({"chain": [layer], "script": {}, "items": [["all", 0, [0, 1, 2]]]})
    return out


def falsy_cases(rng, tier):
    """None, '' and 0 among the field values with key functions that accept them: keys mapping a falsy
    value onto the image of another value (0..3: like 0; 8: onto 1), a key whose result is None (7);
    and falsy CALLABLE OBJECTS given as eq= / cmp= / order= (ignored by the code: `eq_key or eq`)."""
    out = []
    pool = [("N", "N", "N"), ("N", "K0", "N"), ("N", "K1", "F"), ("N", "K2", "N"), ("N", "K3", "N"),
            ("N", "K7", "N"), ("N", "K8", "N"), ("K7", "N", "N"), ("K8", "N", "N"), ("N", "K7", "K8"),
            ("N", "Q100", "N"), ("N", "Q101", "N"), ("N", "Q102", "F"), ("Q100", "N", "N"),
            ("N", "N", "Q101"), ("N", "K8", "Q102"), ("N", "F", "N")]
    hashcfgs = [{}, {}, {"frozen": True}, {"unsafe_hash": True}]
    dom1 = [["o"], ["e"], ["i", 0], ["i", 1], ["i", 2]]
    dom2 = [["o"], ["i", 0], ["i", 1], ["e"]]
    for t in pool:
        layer = rand_layer(rng, [[NAMES[0]] + list(t)])
        layer.update(rng.choice(hashcfgs))
        out.append({"chain": [layer], "script": {}, "items": [["allv", 0, dom1]]})
    pairs = list(itertools.product(pool, repeat=2))
    rng.shuffle(pairs)
    for t1, t2 in pairs[:(25 if tier == "quick" else len(pairs))]:
        layer = rand_layer(rng, [[NAMES[0]] + list(t1), [NAMES[1]] + list(t2)])
        layer.update(rng.choice(hashcfgs))
        out.append({"chain": [layer], "script": {}, "items": [["allv", 0, dom2]]})
    return out


def alias_cases(rng, tier):
    """Field-name shapes whose init aliases coincide (x / _x with one of them init=False, or an explicit
    alias=) with DIFFERENT eq keys per field: every field is compared through its own key, whatever the
    names of the helpers in the generated code; with and without a generated __hash__."""
    out = []
    keysets = [("K0", "K1"), ("K1", "K0"), ("K2", "K3"), ("K1", "N"), ("N", "K1"), ("K3", "K1"), ("K8", "K2"),
               ("K1", "Q100")]
    shapes = [
        lambda k1, k2: [["a", "N", k1, "N"], ["_a", "N", k2, "N", None, {"init": False}]],
        lambda k1, k2: [["_a", "N", k1, "N"], ["a", "N", k2, "N", None, {"init": False}]],
        lambda k1, k2: [["a", "N", k1, "N", None, {"init": False}], ["_a", "N", k2, "N"]],
        lambda k1, k2: [["a", "N", k1, "N"], ["b", "N", k2, "N", None, {"init": False, "alias": "a"}]],
        lambda k1, k2: [["b", "N", k1, "N", None, {"alias": "a"}], ["a", "N", k2, "N", None, {"init": False}]],
        lambda k1, k2: [["_b", "N", k1, "N"], ["c", "N", "N", "N"], ["b", k2, "N", "N", None, {"init": False}]],
        lambda k1, k2: [["a", "N", k1, "N"], ["_a", "N", k2, "F", None, {"init": False}],
                        ["_b", "N", k2, "N"], ["b", "N", k1, "N", None, {"init": False}]],
    ]
    hashcfgs = [{}, {"frozen": True}, {"unsafe_hash": True}, {"unsafe_hash": True, "cache_hash": True}]
    combos = [(sh, ks) for sh in shapes for ks in keysets]
    if tier == "quick":
        rng.shuffle(combos)
        combos = combos[:24]
    for sh, (k1, k2) in combos:
        own = sh(k1, k2)
        for cfg in (hashcfgs if tier == "thorough" else [hashcfgs[0], rng.choice(hashcfgs[1:])]):
            layer = rand_layer(rng, own)
            layer.update(cmp=None, eq=None, order=None, frozen=False)
            layer.update(cfg)
            dom = [-1, 0, 1]
            if len(own) <= 2:
                out.append({"chain": [layer], "script": {}, "items": [["all", 0, dom]]})
            else:
                items = []
                for _ in range(40):
                    xv = [rng.choice(dom) for _ in own]
                    yv = [v if rng.random() < 0.5 else rng.choice([-v, v, rng.choice(dom)]) for v in xv]
                    items.append(["pair", 0, xv, 0, yv])
                out.append({"chain": [layer], "script": {}, "items": items})
    return out


FIELD_VALUES = ["N", "T", "F", "K0", "K1", "Q100", "Q101"]


def generate(tier, seed):
    rng = random.Random(seed)
    cases = []
    _script_terms.clear()
    _script_unrecognised.clear()
    _script_classes[0] = 0
    for c, e, o in itertools.product(FIELD_VALUES, repeat=3):
        cases.append(field_case({"api": "s", "cmp": c, "eq": e, "order": o}))
    for e, o in itertools.product(FIELD_VALUES, repeat=2):
        cases.append(field_case({"api": "d", "cmp": "N", "eq": e, "order": o}))
    for inp in (sweep_cases(rng, tier) + scripted_cases(rng, tier) + chain_cases(rng, tier) + wide_cases(rng, tier)
                + hash_cases(rng, tier) + keyres_cases(rng, tier) + falsy_cases(rng, tier)
                + alias_cases(rng, tier)):
        cases.append(chain_case(inp))
    return cases


def rerun(inp):
    if inp.get("kind") == "field":
        return field_case({k: v for k, v in inp.items() if k != "kind"})
    return chain_case(inp)


def _falsy_keys():
    class DK(dict):
        def __call__(self, v):
            return abs(v)

    class BK:
        def __bool__(self):
            return False

        def __call__(self, v):
            return abs(v)

    class LK:
        def __len__(self):
            return 0

        def __call__(self, v):
            return abs(v)
    return [DK(), BK(), LK()]


def F25_C03_falsy_eq_key():
    """repair cb57cf9: an eq / cmp key that is a callable object with a False truth value is applied."""
    for key in _falsy_keys():
        for deco in (attr.s, attrs.define, attrs.frozen):
            for how in ("eq", "cmp"):
                C = deco(type("C", (), {"a": attr.ib(**{how: key})}))
                if attr.fields(C).a.eq_key is not key:
                    return "%s=%s: Attribute.eq_key is %r" % (how, type(key).__name__, attr.fields(C).a.eq_key)
                if not (C(1) == C(-1)) or (C(1) != C(-1)) or C(1) == C(2) or not (C(1) != C(2)):
                    return "%s=%s under %s: key not applied by == / !=" % (how, type(key).__name__, deco.__name__)
    return None


def _shared_corpus(tag):
    import importlib.util
    import os
    path = os.path.join(vlib.VERIF, "corpus", "defects.py")
    if not os.path.exists(path):
        return []
    spec = importlib.util.spec_from_file_location("verif_defects", path)
    m = importlib.util.module_from_spec(spec)
    spec.loader.exec_module(m)
    return [(k, f) for k, f in m.ALL.items() if tag in k]


def _safe(fn):
    def run():
        try:
            return fn()
        except Exception as e:  # noqa: BLE001 - a crash of the reproducer is a deviation too
            return "reproducer raised %s: %s" % (type(e).__name__, e)
    return run


def corpus():
    return [("F25_C03_falsy_eq_key", _safe(F25_C03_falsy_eq_key))] + \
           [(k, _safe(f)) for k, f in _shared_corpus("_C03_") if k != "F25_C03_falsy_eq_key"]


def EXHAUSTIVE(tier):
    # parts (field table, palette sweep, outcome vectors) are enumerated completely, the
    # inheritance chains are drawn at random: not an exhaustive run as a whole
    return False


def distribution(cases):
    from collections import Counter
    kinds = Counter()
    depth = Counter()
    probes = 0
    pairs = 0
    for c in cases:
        if c.inp.get("kind") == "field":
            kinds["field"] += 1
            continue
        kinds["chain" if len(c.inp["chain"]) > 1 else ("scripted" if c.inp.get("script") else "single")] += 1
        depth[len(c.inp["chain"])] += 1
        if isinstance(c.seen, dict) and c.seen.get("def") == "ok":
            for o in c.seen["outs"]:
                if o[0] == "probe":
                    probes += 1
                else:
                    pairs += len(o[1])
    return {"case_kinds": dict(kinds), "chain_depth": dict(depth), "probes": probes,
            "exhaustive_instance_pairs": pairs}
