"""C11 - generated __repr__ / __str__: format, cycle marker, residue-freedom, thread isolation.

Real-side driver + case generator.  A case is pure data (`inp`): class specs, a heap of
nodes (attrs instances / lists / dicts / scalars), a call sequence, fault oracles and,
for threaded cases, a forced schedule.  `mk_case` builds the classes with `exec` of
generated source (so that qualified names are the genuine ones), builds the object
graph, runs the REAL repr()/str() and encodes heap + observations as a Gallina term.
"""
from __future__ import annotations

import ast
import inspect
import itertools
import json
import linecache
import queue
import random
import textwrap
import threading
import types

import attr
import attrs
from attr import _compat

from . import vlib
from .driver import Case
from .vlib import Infra, b, lst, q

PROP = "C11"
HEADER = "From Attrs Require Import Base C11.Model C11.Corr."
CASE_TYPE = "case"
CHECK = "check_case"
MODEL = "model_of"
RULE = ("five families. format: EVERY single-field class over repr in {True, False, leaf callable, "
        "re-entrant callable} x {init set, init unset, init=False unset, init=False set} x 7 class "
        "namings (top-level, nested, function-local, nested-in-local, local-in-nested-local, undecorated "
        "subclass of a local class: local / top-level) x slots/dict x attr.s/define; then, on 3 namings, "
        "[repr kinds now also: a FALSY callable object - __bool__ False / empty callable dict subclass / __len__ 0 - "
        "as leaf or re-entrant callable, drawn for own and inherited fields everywhere]; a block over all 30 "
        "(place of the decorated class in {top, nested, local, nested-in-local, local-in-nested-local}) x (place of "
        "the RUNTIME class = a subclass without own generated __repr__, undecorated or decorated repr=False with one "
        "more field, in {none, module level, class body, doubly nested class body, function, class inside a "
        "function}) x slots/dict x attr.s/define; "
        "{init=False unset, init=False set, init set} x default kind of the init=False fields {none, "
        "default=value, factory} x how an unset attribute came to be unset {constructed then deleted, "
        "instance from cls.__new__(cls), class-level init=False with a hand-written __init__ that sets "
        "nothing} x repr kind x slots/dict x attr.s/define; plus seeded random "
        "classes with 0-4 own fields, an attrs base class with 1-2 fields, str=True/False with and "
        "without an inherited __str__, frozen; repr() and str() compared as full strings. graph: seeded "
        "random heaps of 1-6 attrs instances/lists/dicts (plus scalars incl. NOTHING) with arbitrary "
        "references (cycles through instances, lists, dicts, self-references), 1-3 repr()/str() calls on "
        "random nodes, optionally with the thread-local attribute already present. equal: a nested instance that compares == to an ancestor being rendered but is another object (hand-written __eq__ returning True / attrs __eq__ with every field eq=False / __eq__ that raises and so must never be called), nested directly and through list / tuple / dict, depth 2 and 3, slots and dict, attr.s and define, each also closed into a real cycle; the random graphs draw the same equality modes per class and contain tuples. fault: for a graph "
        "with custom repr callables, one case per call position k of a callable: the k-th call raises a "
        "marked exception, then repr again (observation = [raise, complete string], residue after "
        "each). threads: 2 and 3 threads forced (events, no sleeps) to be simultaneously inside repr "
        "of the same instance (blocked in a field's repr callable), released one by one in a given "
        "order or all at once, optionally with a fault in one thread; observation = each thread's "
        "string and its own leftover set. distinct = distinct input; non-trivial = the case has a "
        "cycle marker, a non-default field (repr False/callable, init=False, unset), a non-top-level "
        "name, a fault, or threads")
EXTRA_TRUSTED = [
    "CPython list/dict repr and their per-thread Py_ReprEnter/Py_ReprLeave guard are modelled by hand "
    "(second per-thread set in the model) and tied only by the graph cases of this run",
    "repr() of scalars (int, str, None, bool, float, NOTHING) is taken from CPython as a fixed string",
    "threaded cases: the real schedule is forced at the granularity 'entered the blocking callable / "
    "released'; finer interleavings are covered by the theorem (every schedule), not by observation",
]
ASSUMPTIONS = [
    "custom repr callables do not mutate the object graph and do not touch attr._compat.repr_context",
    "one OS thread = one threading.local namespace = one CPython thread state (no greenlets)",
]

EXTRA_TARGETS = ["theories/C11/Script.vo"]
SCRIPT_HEADER = "From Attrs Require Import Base C11.Model C11.Script."

TIMEOUT = 20.0


class Marked(Exception):
    """The fault injected into a repr callable."""


class MarkedBase(BaseException):
    """Same, but not an Exception subclass (like KeyboardInterrupt / GeneratorExit)."""


# --------------------------------------------------------------------------------------
# scalars

def scalar_value(spec):
    k = spec[0]
    if k == "i":
        return int(spec[1])
    if k == "s":
        return str(spec[1])
    if k == "n":
        return None
    if k == "N":
        return attr.NOTHING
    if k == "b":
        return bool(spec[1])
    if k == "f":
        return float(spec[1])
    raise Infra("bad scalar spec %r" % (spec,))


SCALARS = [["i", 0], ["i", 1], ["i", -7], ["i", 42], ["s", "a"], ["s", "it's"], ["s", 'say "hi"'],
           ["s", "x y"], ["s", ""], ["n"], ["N"], ["b", True], ["f", 2.5], ["s", "f.<locals>.g"]]
KEYS = [["i", 3], ["i", 10], ["s", "k"], ["s", "key two"], ["n"], ["s", ">."], ["i", -1]]


# --------------------------------------------------------------------------------------
# classes from specs

NAMINGS = ["top", "nested", "local", "nested_in_local", "local_in_nested_local", "sub_of_local", "sub_top"]
BASE_PLACES = ["top", "nested", "local", "nested_in_local", "local_in_nested_local"]
SUB_PLACES = ["top", "nested", "deep", "local", "local_holder"]
# "<where the decorated class lives>+<where the subclass without own generated __repr__ lives>"
ALL_NAMINGS = BASE_PLACES + ["%s+%s" % (bp, sp) for bp in BASE_PLACES for sp in SUB_PLACES]


def split_naming(nm):
    if nm == "sub_of_local":
        return "local", "local"
    if nm == "sub_top":
        return "local", "top"
    if "+" in nm:
        bp, sp = nm.split("+")
        return bp, sp
    return nm, "none"


def has_sub(cs):
    return split_naming(cs["naming"])[1] != "none"
_uid = itertools.count()


def all_fields(cs):
    return list(cs.get("base") or []) + list(cs["fields"])


def _dflt(f):
    """default kind of a field spec [name, rmode, init, dflt?]: None | "value" | "factory"."""
    return f[3] if len(f) > 3 else None


def _field_src(deco, cidx, f, eq_off=False):
    name, rm, init = f[0], f[1], f[2]
    d = _dflt(f)
    args = [] if init else ["init=False"]
    if d == "value":
        args.append("default=7")
    elif d == "factory":
        args.append("factory=list")
    elif init:
        args.append("default=None")
    if rm is not True:
        args.append("repr=False" if rm is False else "repr=CALLS[%r]" % ("%d.%s" % (cidx, name)))
    if eq_off:
        args.append("eq=False")
    if deco == "define":
        return "%s: object = attrs.field(%s)" % (name, ", ".join(args))
    return "%s = attr.ib(%s)" % (name, ", ".join(args))


def _deco_src(cs, is_base=False):
    # eqmode: "identity" (eq=False, object identity), "true" / "raise" (eq=False + hand-written __eq__),
    # "fields_off" (attrs' own __eq__ with every field excluded: all instances of the class are equal)
    kw = ["slots=%r" % bool(cs["slots"]), "eq=%r" % (cs.get("eqmode") == "fields_off"),
          "frozen=%r" % bool(cs.get("frozen", False))]
    if (cs.get("str") and not is_base) or (is_base and cs.get("base_strflag")):
        kw.append("str=True")       # base_strflag: ONLY the attrs base passes str=True; the subclass inherits __str__
    if cs.get("own_init") and not is_base:
        kw.append("init=False")     # class-level init=False: the hand-written __init__ sets nothing
    return "@%s(%s)" % ("attrs.define" if cs["deco"] == "define" else "attr.s", ", ".join(kw))


def _class_lines(ind, deco, cname, bases, body):
    pad = " " * ind
    out = []
    if deco:
        out.append(pad + deco)
    out.append(pad + "class %s(%s):" % (cname, ", ".join(bases)) if bases else pad + "class %s:" % cname)
    for l in body or ["pass"]:
        out.append(pad + "    " + l)
    return out


HANDMADE = "<handmade repr>"


class EqCalled(Exception):
    """raised by the instrumented __eq__ (eqmode "raise"): repr must never compare instances."""


def _eq_body(cs):
    m = cs.get("eqmode")
    if m == "true":
        return ["def __eq__(self, other):", "    return True"]
    if m == "raise":
        return ["def __eq__(self, other):", "    raise EQC()"]
    return []


def _sub_body(cs, ind):
    """body of the undecorated subclass: empty, or a hand-written __repr__ (own_repr)."""
    pad = " " * ind
    if cs.get("own_repr"):
        return [pad + "def __repr__(self):", pad + "    return %r" % HANDMADE]
    return [pad + "pass"]


def has_generated_str(cs):
    """str() of an instance reaches an attrs-generated __str__ (str=True on the class or on its attrs base)."""
    return bool(cs.get("str") or (cs.get("base") and cs.get("base_strflag")))


def class_source(cs, cidx):
    """Returns (source, expected qualname tail)."""
    n = cs["name"]
    src = []
    bases = []
    if cs.get("base_str"):
        src += ["class StrBase%d:" % cidx, "    def __str__(self):", "        return 'bstr'"]
        bases = ["StrBase%d" % cidx]
    if cs.get("base"):
        body = [_field_src(cs["deco"], cidx, f, cs.get("eqmode") == "fields_off") for f in cs["base"]] + _eq_body(cs)
        src += _class_lines(0, _deco_src(cs, True), "B" + n, bases, body)
        bases = ["B" + n]
    body = [_field_src(cs["deco"], cidx, f, cs.get("eqmode") == "fields_off") for f in cs["fields"]] + _eq_body(cs)
    if cs.get("own_init"):
        body += ["def __init__(self):", "    pass"]
    deco = _deco_src(cs)
    bp, sp = split_naming(cs["naming"])
    # --- the decorated class, placed at module level / in a class body / in a function ...
    if bp == "top":
        src += _class_lines(0, deco, n, bases, body) + ["_C = %s" % n]
        tail = n
    elif bp == "nested":
        src += ["class Outer%s:" % n] + _class_lines(4, deco, n, bases, body) + ["_C = Outer%s.%s" % (n, n)]
        tail = "Outer%s.%s" % (n, n)
    elif bp == "local":
        src += ["def mk%s():" % n] + _class_lines(4, deco, n, bases, body) + ["    return %s" % n, "_C = mk%s()" % n]
        tail = n
    elif bp == "nested_in_local":
        src += ["def mk%s():" % n, "    class Outer%s:" % n] + _class_lines(8, deco, n, bases, body) + \
               ["    return Outer%s.%s" % (n, n), "_C = mk%s()" % n]
        tail = "Outer%s.%s" % (n, n)
    elif bp == "local_in_nested_local":
        src += ["def mk%s():" % n, "    class Outer%s:" % n, "        @staticmethod", "        def inner():"] + \
               _class_lines(12, deco, n, bases, body) + ["            return %s" % n,
                                                          "    return Outer%s.inner()" % n, "_C = mk%s()" % n]
        tail = n
    else:
        raise Infra("bad naming %r" % cs["naming"])
    # --- ... and the RUNTIME class: the decorated class itself, or a subclass WITHOUT a generated __repr__ of
    # its own (undecorated, or decorated with repr=False), placed somewhere else
    sdeco = None
    if cs.get("sub_norepr") and sp != "none":
        sdeco = "@%s(repr=False, eq=False, slots=%r, frozen=%r)" % (
            "attrs.define" if cs["deco"] == "define" else "attr.s", bool(cs["slots"]), bool(cs.get("frozen", False)))
    sn = "S" + n

    def sub(ind):
        pad = " " * ind
        lines = [pad + sdeco] if sdeco else []
        lines.append(pad + "class %s(_C):" % sn)
        if sdeco:
            lines.append(pad + "    " + ("extra_s: object = attrs.field(default=5)" if cs["deco"] == "define"
                                           else "extra_s = attr.ib(default=5)"))
            return lines
        return lines + _sub_body(cs, ind + 4)

    if sp == "none":
        src += ["CLS = _C"]
    elif sp == "top":
        src += sub(0) + ["CLS = %s" % sn]
        tail = sn
    elif sp == "nested":
        src += ["class Holder%s:" % n] + sub(4) + ["CLS = Holder%s.%s" % (n, sn)]
        tail = "Holder%s.%s" % (n, sn)
    elif sp == "deep":
        src += ["class Holder%s:" % n, "    class Inner:"] + sub(8) + ["CLS = Holder%s.Inner.%s" % (n, sn)]
        tail = "Holder%s.Inner.%s" % (n, sn)
    elif sp == "local":
        src += ["def mks%s():" % n] + sub(4) + ["    return %s" % sn, "CLS = mks%s()" % n]
        tail = sn
    elif sp == "local_holder":
        src += ["def mks%s():" % n, "    class Holder:"] + sub(8) + ["    return Holder.%s" % sn, "CLS = mks%s()" % n]
        tail = "Holder.%s" % sn
    else:
        raise Infra("bad naming %r" % cs["naming"])
    return "\n".join(src) + "\n", tail


class Ctx:
    """Per-case state of the instrumented repr callables."""

    def __init__(self, faults, fault_base=False):
        self.faults = faults
        self.exc = MarkedBase if fault_base else Marked
        self.count = {}
        self.tls = threading.local()
        self.block = None
        self.called = []
        self.defqn = []         # per class: __qualname__ of the DECORATED class (whose generated __repr__ runs)

    def tid(self):
        return getattr(self.tls, "t", 0)

    def on_call(self, key):
        t = self.tid()
        n = self.count.get(t, 0)
        self.count[t] = n + 1
        fl = self.faults[t] if t < len(self.faults) else []
        if n < len(fl) and fl[n]:
            raise self.exc()
        if t == 0 and not getattr(self.tls, "worker", False):
            self.called.append(key)
        if self.block is not None and getattr(self.tls, "worker", False):
            self.block(key, t)


CALLABLE_SHAPES = ["fn", "falsy_obj", "empty_dict", "len0"]


def rm_shape(rm):
    return rm[2] if isinstance(rm, list) and len(rm) > 2 else "fn"


def rm_truthy(rm):
    """bool() of the object passed as repr=."""
    return rm if isinstance(rm, bool) else rm_shape(rm) == "fn"


def _mk_callable(ctx, key, rm):
    """The object passed as repr=: a plain function, or a callable OBJECT that is falsy (a custom repr
    callable is any callable; the generated code must test `is not False`, not truthiness)."""
    kind, tok = rm[0], rm[1]

    if kind == "leaf":
        def fn(v):
            ctx.on_call(key)
            return tok
    else:
        def fn(v):
            ctx.on_call(key)
            return tok + "(" + repr(v) + ")"
    shape = rm_shape(rm)
    if shape == "fn":
        return fn
    if shape == "falsy_obj":
        class Formatter:
            def __call__(self, v):
                return fn(v)

            def __bool__(self):
                return False
        return Formatter()
    if shape == "empty_dict":
        class Registry(dict):           # a (still empty) registry of formatters that is itself callable
            def __call__(self, v):
                return fn(v)
        return Registry()
    if shape == "len0":
        class Sized:
            def __call__(self, v):
                return fn(v)

            def __len__(self):
                return 0
        return Sized()
    raise Infra("bad callable shape %r" % (shape,))


# --------------------------------------------------------------------------------------
# script-level tie: fail-closed reader of the source text of a REAL generated __repr__ into the
# statement language of coq/theories/C11/Script.v (supplementary evidence, never an alarm)

class Unrecognised(Exception):
    pass


_VAR = "already_repring"
_script_terms = {}          # key -> (Gallina script_case term, source text)
_script_unrecognised = []


def _nm(n, ident):
    return isinstance(n, ast.Name) and n.id == ident


def _id_self(n):
    return (isinstance(n, ast.Call) and _nm(n.func, "id") and len(n.args) == 1 and _nm(n.args[0], "self")
            and not n.keywords)


def _tls(n):
    return (isinstance(n, ast.Attribute) and n.attr == _VAR and isinstance(n.value, ast.Attribute)
            and n.value.attr == "repr_context" and _nm(n.value.value, "_compat"))


def _accessor(n):
    if isinstance(n, ast.Attribute) and _nm(n.value, "self"):
        return n.attr, True
    if (isinstance(n, ast.Call) and _nm(n.func, "getattr") and not n.keywords and len(n.args) == 3
            and _nm(n.args[0], "self") and isinstance(n.args[1], ast.Constant) and isinstance(n.args[1].value, str)
            and _nm(n.args[2], "NOTHING")):
        return n.args[1].value, False
    raise Unrecognised("accessor " + ast.dump(n))


def _is_qualtail(n):
    # self.__class__.__qualname__.rsplit(">.", 1)[-1]
    if not (isinstance(n, ast.Subscript) and isinstance(n.slice, ast.UnaryOp) and isinstance(n.slice.op, ast.USub)
            and isinstance(n.slice.operand, ast.Constant) and n.slice.operand.value == 1):
        return False
    c = n.value
    if not (isinstance(c, ast.Call) and isinstance(c.func, ast.Attribute) and c.func.attr == "rsplit"
            and not c.keywords and len(c.args) == 2 and all(isinstance(a, ast.Constant) for a in c.args)
            and c.args[0].value == ">." and c.args[1].value == 1 and type(c.args[1].value) is int):
        return False
    q_ = c.func.value
    return (isinstance(q_, ast.Attribute) and q_.attr == "__qualname__" and isinstance(q_.value, ast.Attribute)
            and q_.value.attr == "__class__" and _nm(q_.value.value, "self"))


def _piece(n):
    if isinstance(n, ast.Constant) and isinstance(n.value, str):
        return ("t", n.value)
    if isinstance(n, ast.FormattedValue) and n.format_spec is None:
        if n.conversion == ord("r"):
            name, init = _accessor(n.value)
            return ("f", name, init, None)
        if n.conversion == -1:
            if _is_qualtail(n.value):
                return ("q",)
            v = n.value
            if (isinstance(v, ast.Call) and isinstance(v.func, ast.Name) and v.func.id.startswith("__attr_repr_")
                    and len(v.args) == 1 and not v.keywords):
                name, init = _accessor(v.args[0])
                return ("f", name, init, v.func.id[len("__attr_repr_"):])
    raise Unrecognised("f-string piece " + ast.dump(n))


def _enc_pieces(ps):
    out, merged = [], []
    for p in ps:            # adjacent literal text is one constant (ast already does this; be safe)
        if p[0] == "t" and merged and merged[-1][0] == "t":
            merged[-1] = ("t", merged[-1][1] + p[1])
        else:
            merged.append(p)
    for p in merged:
        if p[0] == "t":
            if not all(32 <= ord(ch) < 127 for ch in p[1]):
                raise Unrecognised("non-ascii literal")
            out.append("QText %s" % q(p[1]))
        elif p[0] == "q":
            out.append("QQual")
        else:
            out.append("QField %s %s %s" % (q(p[1]), b(p[2]), "None" if p[3] is None else "(Some %s)" % q(p[3])))
    return lst(out)


def _s0(st):
    if isinstance(st, ast.Assign) and len(st.targets) == 1:
        t, v = st.targets[0], st.value
        if _nm(t, _VAR) and isinstance(v, ast.Set) and len(v.elts) == 1 and _id_self(v.elts[0]):
            return "ZFresh"
        if _tls(t) and _nm(v, _VAR):
            return "ZStore"
    if isinstance(st, ast.Return) and st.value is not None:
        v = st.value
        if isinstance(v, ast.Constant) and isinstance(v.value, str) and all(32 <= ord(c) < 127 for c in v.value):
            return "ZRetStr %s" % q(v.value)
        if isinstance(v, ast.JoinedStr):
            return "ZRetF %s" % _enc_pieces([_piece(x) for x in v.values])
    if isinstance(st, ast.Expr) and isinstance(st.value, ast.Call):
        c = st.value
        if (isinstance(c.func, ast.Attribute) and _nm(c.func.value, _VAR) and len(c.args) == 1 and _id_self(c.args[0])
                and not c.keywords and c.func.attr in ("add", "remove")):
            return "ZAdd" if c.func.attr == "add" else "ZRemove"
    raise Unrecognised("statement " + ast.dump(st))


def _s1(st):
    if isinstance(st, ast.If):
        t = st.test
        if (isinstance(t, ast.Compare) and _id_self(t.left) and len(t.ops) == 1 and isinstance(t.ops[0], ast.In)
                and len(t.comparators) == 1 and _nm(t.comparators[0], _VAR)):
            return "YIfMem %s %s" % (lst("(%s)" % _s0(x) for x in st.body), lst("(%s)" % _s0(x) for x in st.orelse))
        raise Unrecognised("if " + ast.dump(t))
    return "Y0 (%s)" % _s0(st)


def _s2(st):
    if isinstance(st, ast.Try):
        if st.handlers and not st.finalbody:
            if (len(st.body) == 1 and isinstance(st.body[0], ast.Assign) and len(st.body[0].targets) == 1
                    and _nm(st.body[0].targets[0], _VAR) and _tls(st.body[0].value) and len(st.handlers) == 1
                    and _nm(st.handlers[0].type, "AttributeError") and st.handlers[0].name is None):
                return "XTryTls %s %s" % (lst("(%s)" % _s1(x) for x in st.handlers[0].body),
                                          lst("(%s)" % _s1(x) for x in st.orelse))
        elif st.finalbody and not st.handlers and not st.orelse:
            return "XTryFin %s %s" % (lst("(%s)" % _s1(x) for x in st.body), lst("(%s)" % _s1(x) for x in st.finalbody))
        raise Unrecognised("try " + ast.dump(st)[:300])
    return "X1 (%s)" % _s1(st)


def parse_repr(src):
    """source text of a generated __repr__ -> Gallina term of type `list s2` (or Unrecognised)."""
    try:
        tree = ast.parse(textwrap.dedent(src))
    except SyntaxError as e:
        raise Unrecognised("syntax error: %s" % e)
    if len(tree.body) != 1 or not isinstance(tree.body[0], ast.FunctionDef):
        raise Unrecognised("not a single function")
    fn = tree.body[0]
    a = fn.args
    if (fn.name != "__repr__" or fn.decorator_list or a.vararg or a.kwarg or a.kwonlyargs or a.posonlyargs
            or a.defaults or len(a.args) != 1 or a.args[0].arg != "self"):
        raise Unrecognised("signature")
    return lst("(%s)" % _s2(x) for x in fn.body)


def _enc_fields(cs):
    return lst(enc_field(f) for f in all_fields(cs))


def _collect_script(cs, cls):
    try:
        src = inspect.getsource((cls.__mro__[1] if cs.get("own_repr") and has_sub(cs) else cls).__repr__)
    except Exception as e:  # noqa: BLE001
        _script_unrecognised.append("no source: %r" % (e,))
        return
    fields = _enc_fields(cs)
    key = (fields, src)
    if key in _script_terms:
        return
    try:
        _script_terms[key] = ("(SCase %s %s)" % (fields, parse_repr(src)), src)
    except Unrecognised as e:
        _script_terms[key] = None
        _script_unrecognised.append("%s\n--- source:\n%s" % (e, src))


def script_tie():
    terms = [v for v in _script_terms.values() if v is not None]
    if not terms and not _script_unrecognised:
        return {"script_tie": "no classes"}
    bad = vlib.run_cases(PROP, SCRIPT_HEADER, "script_case", "script_case_ok", [t for t, _ in terms],
                         tag="script") if terms else []
    res = {"classes_parsed": len(terms), "equal": len(terms) - len(bad), "different": len(bad),
           "unrecognised": len(_script_unrecognised),
           "note": "distinct (field list, source text) pairs of the generated __repr__ of this run; "
                   "supplementary evidence, never an alarm"}
    if bad:
        t, src = terms[bad[0]]
        res["first_difference"] = {"real_source": src,
                                   "model_script": vlib.eval_in_coq(PROP, SCRIPT_HEADER,
                                                                    "script_model_of (%s)" % t)[:3000]}
        print("NOTE: script-level tie: %d of %d real __repr__ sources differ from the model's script "
              "(not a verdict; see evidence)" % (len(bad), len(terms)))
    if _script_unrecognised:
        res["first_unrecognised"] = _script_unrecognised[0][:1500]
        print("NOTE: script-level tie: %d real __repr__ source(s) have a shape the reader does not know "
              "(not a verdict; see evidence)" % len(_script_unrecognised))
    return {"script_tie": res}


def extra(tier, seed):
    return [], dict(script_tie(), runtime_observations=0)


def build_classes(specs, ctx):
    calls = {}
    for ci, cs in enumerate(specs):
        for f in all_fields(cs):
            if isinstance(f[1], list):
                calls["%d.%s" % (ci, f[0])] = _mk_callable(ctx, "%d.%s" % (ci, f[0]), f[1])
    out = []
    for ci, cs in enumerate(specs):
        src, tail = class_source(cs, ci)
        m = types.ModuleType("verif_c11_m%d" % next(_uid))
        m.__dict__.update({"attr": attr, "attrs": attrs, "CALLS": calls, "EQC": EqCalled})
        exec(compile(src, "<c11 %s>" % m.__name__, "exec"), m.__dict__)
        cls = m.CLS
        qn = cls.__qualname__
        if qn.rsplit(">.", 1)[-1] != tail or (">." in tail):
            raise Infra("harness naming template broken: %r vs %r" % (qn, tail))
        _collect_script(cs, cls)
        ctx.defqn.append(m._C.__qualname__)
        out.append(cls)
    return out


def build_heap(inp, classes):
    nodes = inp["nodes"]
    objs = []
    for nd in nodes:
        k = nd["k"]
        if k == "i":
            cls = classes[nd["c"]]
            # how the instance comes to exist: the generated/own __init__, or bare __new__
            objs.append(cls.__new__(cls) if nd.get("mk") == "new" else cls())
        elif k == "l":
            objs.append([])
        elif k == "d":
            objs.append({})
        elif k == "t":
            objs.append(None)       # immutable: built below from already existing (non-tuple) nodes
        else:
            objs.append(scalar_value(nd["v"]))
    for i, nd in enumerate(nodes):
        if nd["k"] == "t":
            if any(nodes[j]["k"] == "t" for j in nd["e"]):
                raise Infra("tuple nodes may only refer to non-tuple nodes")
            objs[i] = tuple(objs[j] for j in nd["e"])
    for nd, ob in zip(nodes, objs):
        k = nd["k"]
        if k == "i":
            for f in all_fields(inp["classes"][nd["c"]]):
                if f[0] in nd["a"]:
                    object.__setattr__(ob, f[0], objs[nd["a"][f[0]]])
                else:
                    # unset: deleted after construction (or never set: __new__ / own __init__)
                    try:
                        object.__delattr__(ob, f[0])
                    except AttributeError:
                        pass
        elif k == "l":
            ob.extend(objs[i] for i in nd["e"])
        elif k == "d":
            for kk, vv in nd["e"]:
                if objs[kk] in ob:
                    raise Infra("duplicate dict key in generated heap")
                ob[objs[kk]] = objs[vv]
    return objs


# --------------------------------------------------------------------------------------
# running the real thing

def _reset():
    try:
        del _compat.repr_context.already_repring
    except AttributeError:
        pass


def _residue(idmap):
    s = getattr(_compat.repr_context, "already_repring", None)
    if s is None:
        return []
    try:
        return sorted(idmap.get(i, 999) for i in list(s))
    except Exception:
        return [998]


def _observe(fn):
    try:
        s = fn()
    except (Marked, MarkedBase):
        return ["raise", "EUser"]
    except AttributeError:
        return ["raise", "EAttr"]
    except KeyError:
        return ["raise", "EKey"]
    except BaseException as e:  # noqa: BLE001 - anything else is something the model never predicts
        return ["other", type(e).__name__]
    if not isinstance(s, str) or not all(32 <= ord(ch) < 127 for ch in s):
        return ["other", "non-ascii-or-non-str"]
    return ["ok", s]


@attr.s
class _Warm:
    w = attr.ib(default=0)


def _do(call, objs):
    kind, o = call
    return (lambda: repr(objs[o])) if kind == "repr" else (lambda: str(objs[o]))


def _run_stress(objs, calls, loops, idmap):
    n = len(calls)
    results = [None] * n
    start = threading.Barrier(n)

    def worker(t):
        try:
            start.wait(TIMEOUT)
        except threading.BrokenBarrierError:
            return
        first = _observe(_do(calls[t], objs))
        res = first
        for _ in range(loops - 1):
            r = _observe(_do(calls[t], objs))
            if r != first:
                res = r if r[0] != "ok" or first[0] != "ok" else ["other", "varied: %r / %r" % (first[1], r[1])]
                break
        results[t] = (res, _residue(idmap))

    ths = [threading.Thread(target=worker, args=(t,), daemon=True) for t in range(n)]
    for th in ths:
        th.start()
    for th in ths:
        th.join(6 * TIMEOUT)
    out = [results[t] if results[t] is not None and not ths[t].is_alive() else (["other", "hang"], [])
           for t in range(n)]
    return out, [["stress", loops]]


def _run_threads(ctx, objs, calls, plan, idmap):
    if "stress" in plan:
        return _run_stress(objs, calls, int(plan["stress"]), idmap)
    n = len(calls)
    evq = queue.Queue()
    go = [threading.Event() for _ in range(n)]
    results = [None] * n
    hang = [False] * n
    blocked = set()
    bkey = plan["block"]

    def block(key, t):
        if key != bkey or t in blocked:
            return
        blocked.add(t)
        evq.put(("inside", t))
        if not go[t].wait(TIMEOUT):
            hang[t] = True

    ctx.block = block

    def worker(t):
        ctx.tls.t = t
        ctx.tls.worker = True
        try:
            res = _observe(_do(calls[t], objs))
            results[t] = (res, _residue(idmap))
        finally:
            evq.put(("done", t))

    threads = [threading.Thread(target=worker, args=(t,), daemon=True) for t in range(n)]
    done = set()
    events = []

    def get():
        try:
            ev = evq.get(timeout=TIMEOUT)
        except queue.Empty:
            ev = ("timeout", -1)
        if ev[0] == "done":
            done.add(ev[1])
        events.append(list(ev))
        return ev

    for t in plan["enter"]:
        threads[t].start()
        get()
    if plan["release"] == "all":
        for e in go:
            e.set()
        while len(done) < n:
            if get()[0] == "timeout":
                break
    else:
        for t in plan["release"]:
            go[t].set()
            while t not in done:
                if get()[0] == "timeout":
                    break
    for e in go:
        e.set()
    for th in threads:
        th.join(TIMEOUT)
    out = []
    for t in range(n):
        if results[t] is None or hang[t] or threads[t].is_alive():
            out.append((["other", "hang"], []))
        else:
            out.append(results[t])
    ctx.block = None
    return out, events


def real_run(inp, want_called=False):
    faults = [list(x) for x in inp.get("faults") or []]
    ctx = Ctx(faults, bool(inp.get("fault_base")))
    classes = build_classes(inp["classes"], ctx)
    objs = build_heap(inp, classes)
    idmap = {}
    for i, (nd, ob) in enumerate(zip(inp["nodes"], objs)):
        if nd["k"] != "s":
            idmap[id(ob)] = i
    qualnames = [type(ob).__qualname__ if nd["k"] == "i" else None for nd, ob in zip(inp["nodes"], objs)]
    scalars = [repr(ob) if nd["k"] == "s" else None for nd, ob in zip(inp["nodes"], objs)]
    _reset()
    events = None
    try:
        warm_failed = False
        if inp.get("warm"):
            # the warm-up is itself a repr: if it fails or leaves residue, that is an observation
            if _observe(lambda: repr(_Warm())) != ["ok", "_Warm(w=0)"] or _residue(idmap):
                warm_failed = True
        if warm_failed:
            seen = [(["other", "warmup-failed"], []) for _ in inp["calls"]]
        elif inp.get("threaded"):
            seen, events = _run_threads(ctx, objs, [tuple(c) for c in inp["calls"]], inp["plan"], idmap)
        else:
            seen = []
            for c in inp["calls"]:
                res = _observe(_do(tuple(c), objs))
                seen.append((res, _residue(idmap)))
    finally:
        _reset()
        for k in [k for k in linecache.cache if k.startswith("<attrs generated")]:
            del linecache.cache[k]
    info = {"qualnames": qualnames, "scalars": scalars, "events": events,
            "defqn": [ctx.defqn[nd["c"]] if nd["k"] == "i" else "" for nd in inp["nodes"]]}
    if want_called:
        info["called"] = list(ctx.called)
    return seen, info


# --------------------------------------------------------------------------------------
# encoding

def enc_rmode(rm):
    if rm is True:
        return "RTrue"
    if rm is False:
        return "RFalse"
    return "(%s %s)" % ("RLeaf" if rm[0] == "leaf" else "RWrap", q(rm[1]))


def enc_field(f):
    if rm_truthy(f[1]):
        return "F %s %s %s" % (q(f[0]), enc_rmode(f[1]), b(f[2]))
    return "FT %s %s %s false" % (q(f[0]), enc_rmode(f[1]), b(f[2]))


def enc_heap(inp, info):
    out = []
    for i, nd in enumerate(inp["nodes"]):
        k = nd["k"]
        if k == "i":
            cs = inp["classes"][nd["c"]]
            if cs.get("own_repr"):
                # the runtime class has a hand-written __repr__ returning a constant: for repr() (and for
                # an inherited generated __str__, which calls self.__repr__()) it is a scalar
                out.append("OS %s" % q(HANDMADE))
                continue
            fs = lst(enc_field(f) for f in all_fields(cs))
            at = lst("(%s, %d)" % (q(f[0]), nd["a"][f[0]]) for f in all_fields(cs) if f[0] in nd["a"])
            out.append("OI %s %s %s %s %s" % (q(info["qualnames"][i]), b(has_generated_str(cs)),
                                              '(Some "bstr")' if cs.get("base_str") else "None", fs, at))
        elif k == "l":
            out.append("OL %s" % lst(str(x) for x in nd["e"]))
        elif k == "t":
            out.append("OT %s" % lst(str(x) for x in nd["e"]))
        elif k == "d":
            out.append("OD %s" % lst("(%d, %d)" % (a, c) for a, c in nd["e"]))
        else:
            out.append("OS %s" % q(info["scalars"][i]))
    return lst(out)


def enc_obs(entry):
    res, residue = entry
    if res[0] == "ok":
        o = "BOk %s" % q(res[1])
    elif res[0] == "raise":
        o = "BRaise %s" % res[1]
    else:
        o = "BOther"
    return "(%s, %s)" % (o, lst(str(x) for x in residue))


ROUNDS = 400


def eq_classes(inp):
    """Per node: its equality class under Python's == as far as the harness knows it (instances of an
    always-True __eq__ share one class, instances of a class whose attrs __eq__ compares no field share
    one per class; everything else is only equal to itself).  Recorded in the case, never read by the model."""
    n = len(inp["nodes"])
    out = []
    for i, nd in enumerate(inp["nodes"]):
        m = inp["classes"][nd["c"]].get("eqmode") if nd["k"] == "i" else None
        out.append(n if m == "true" else n + 1 + nd["c"] if m == "fields_off" else i)
    return out


def mk_case(inp, family=None):
    seen, info = real_run(inp)
    family = family or inp.get("family", "?")
    calls = lst("%s %d" % ("KRepr" if c[0] == "repr" else "KStr", c[1]) for c in inp["calls"])
    faults = lst(lst(b(x) for x in fl) for fl in (inp.get("faults") or []))
    threaded = bool(inp.get("threaded"))
    term = "(Case %s %s %s %s %s %s %s %d %s %s)" % (
        enc_heap(inp, info), lst(str(x) for x in eq_classes(inp)), lst(q(x) for x in info["defqn"]),
        b(bool(inp.get("warm"))), faults, b(threaded),
        lst(str(t) for t in (inp.get("sched") or [])), ROUNDS if threaded else 0, calls,
        lst(enc_obs(e) for e in seen))
    seen_json = [{"result": r, "residue": res} for r, res in seen]
    if info["events"] is not None:
        seen_json.append({"events": info["events"]})
    marker = any(r[0] == "ok" and "..." in r[1] for r, _ in seen)
    plain = all(cs["naming"] == "top" and not cs.get("base") and
                all(f[1] is True and f[2] for f in cs["fields"]) for cs in inp["classes"])
    unset = any(nd["k"] == "i" and len(nd["a"]) < len(all_fields(inp["classes"][nd["c"]])) for nd in inp["nodes"])
    nontrivial = marker or not plain or unset or threaded or any(any(fl) for fl in (inp.get("faults") or []))
    sig = {"family": family, "threaded": threaded, "marker": marker,
           "namings": sorted({cs["naming"] for cs in inp["classes"]}),
           "decos": sorted({cs["deco"] for cs in inp["classes"]}),
           "fault": any(any(fl) for fl in (inp.get("faults") or [])),
           "noinit_default_unset": any(
               nd["k"] == "i" and any((not f[2]) and _dflt(f) and f[0] not in nd["a"]
                                      for f in all_fields(inp["classes"][nd["c"]]))
               for nd in inp["nodes"]),
           "inherited_generated_str": any(
               (cs.get("base") and cs.get("base_strflag") and not cs.get("str")) or cs.get("own_repr")
               for cs in inp["classes"]) and any(c[0] == "str" for c in inp["calls"]),
           "eqmodes": sorted({cs.get("eqmode", "identity") for cs in inp["classes"]}),
           "falsy_callable": any(isinstance(f[1], list) and not rm_truthy(f[1])
                                 for cs in inp["classes"] for f in all_fields(cs)),
           "runtime_class_is_subclass": any(has_sub(cs) for cs in inp["classes"]),
           "has_tuple": any(nd["k"] == "t" for nd in inp["nodes"]),
           "made_by_new": any(nd.get("mk") == "new" for nd in inp["nodes"]),
           "own_init": any(cs.get("own_init") for cs in inp["classes"])}
    return Case(term, inp, seen_json, sig=sig, nontrivial=nontrivial,
                key=json.dumps(inp, sort_keys=True))


# --------------------------------------------------------------------------------------
# generators

LEAF = ["leaf", "L"]
WRAP = ["wrap", "W"]
RMODES = [True, False, LEAF, WRAP, ["leaf", "L", "falsy_obj"], ["wrap", "W", "empty_dict"]]


def _cls(name, fields, **kw):
    d = {"name": name, "deco": "attr.s", "slots": False, "frozen": False, "naming": "top", "str": False,
         "base_str": False, "base": None, "fields": fields, "own_init": False, "base_strflag": False,
         "own_repr": False, "eqmode": "identity", "sub_norepr": False}
    d.update(kw)
    return d


def _format_case(deco, slots, naming, rm, fstate, dflt, how):
    """One single-field configuration.  dflt: default kind of the init=False fields (None | "value" |
    "factory"); how: how an unset attribute came to be unset - "ctor" (constructed, then deleted),
    "new" (cls.__new__(cls): never set), "own_init" (class-level init=False, own __init__ sets nothing)."""
    init = fstate.startswith("init")
    rmj = rm if isinstance(rm, bool) else [rm[0], "L" if rm[0] == "leaf" else "W"] + rm[2:]
    cs = _cls("C", [["p", True, True], ["x", rmj, init, dflt], ["z", True, False, dflt]], deco=deco,
              slots=slots, naming=naming, str=True, base_str=(init != slots), own_init=(how == "own_init"))
    a = {"p": 1}
    if fstate.endswith("_set"):
        a["x"] = 2
    if slots and dflt is None:
        a["z"] = 3
    nodes = [{"k": "i", "c": 0, "a": a, "mk": "new" if how == "new" else "ctor"},
             {"k": "s", "v": ["i", 1]}, {"k": "s", "v": ["s", "it's"]}, {"k": "s", "v": ["N"]}]
    return {"family": "format", "classes": [cs], "nodes": nodes, "calls": [["repr", 0], ["str", 0]],
            "faults": [], "warm": False}


FSTATES = ["init_set", "init_unset", "noinit_unset", "noinit_set"]


def gen_equal_but_distinct():
    """A nested instance that COMPARES EQUAL to an ancestor being rendered but is another object must be
    rendered in full (the guard is by identity); a real cycle is still cut.  eqmode: hand-written __eq__
    returning True / attrs __eq__ with every field excluded (eq=False linking field) / __eq__ that raises
    (repr must never call it); nested directly and through list / tuple / dict; slots and dict classes."""
    out = []
    for eqmode, slots, deco, via, depth3 in itertools.product(
            ["true", "fields_off", "raise", "identity"], [False, True], ["attr.s", "define"],
            ["direct", "list", "tuple", "dict"], [False, True]):
        cs = _cls("E", [["t", True, True], ["x", True, True]], deco=deco, slots=slots, eqmode=eqmode,
                  naming="local" if slots else "top")
        # 0 outer, 1 inner, 2 innermost, 3 tag, 4 key, 5/6 containers, 7 leaf value
        def link(target, cont):
            return target if via == "direct" else cont
        nodes = [{"k": "i", "c": 0, "a": {"t": 3, "x": link(1, 5)}, "mk": "ctor"},
                 {"k": "i", "c": 0, "a": {"t": 3, "x": link(2, 6) if depth3 else 7}, "mk": "ctor"},
                 {"k": "i", "c": 0, "a": {"t": 3, "x": 7}, "mk": "ctor"},
                 {"k": "s", "v": ["s", "tag"]}, {"k": "s", "v": ["s", "k"]}]
        for target in (1, 2):
            if via == "dict":
                nodes.append({"k": "d", "e": [[4, target]]})
            else:
                nodes.append({"k": "l" if via != "tuple" else "t", "e": [target]})
        nodes.append({"k": "s", "v": ["i", 1]})
        out.append({"family": "equal", "classes": [cs], "nodes": nodes,
                    "calls": [["repr", 0], ["repr", 0], ["repr", 1]], "faults": [], "warm": False})
        if via != "tuple" or True:
            # the same shape closed into a real cycle: innermost (or inner) points back at the outer one
            cyc = json.loads(json.dumps(nodes))
            cyc[2 if depth3 else 1]["a"]["x"] = 0
            out.append({"family": "equal", "classes": [cs], "nodes": cyc,
                        "calls": [["repr", 0], ["repr", 1]], "faults": [], "warm": False})
    return out


def gen_runtime_names():
    """The runtime class differs from the decorated class in the SHAPE of its qualified name: a subclass
    without a generated __repr__ of its own (undecorated, or decorated with repr=False and one more field)
    at module level / in a class body / doubly nested / in a function / in a class inside a function, for
    decorated classes that are top-level, nested, local, nested-in-local, local-in-nested-local."""
    out = []
    for nm, deco, slots, norepr in itertools.product(ALL_NAMINGS, ["attr.s", "define"], [False, True], [False, True]):
        if norepr and "+" not in nm:
            continue
        cs = _cls("C", [["p", True, True], ["x", ["leaf", "L", "falsy_obj" if slots else "fn"], True]], deco=deco,
                  slots=slots, naming=nm, str=True, sub_norepr=norepr)
        nodes = [{"k": "i", "c": 0, "a": {"p": 1, "x": 1}, "mk": "ctor"}, {"k": "s", "v": ["i", 1]}]
        out.append({"family": "format", "classes": [cs], "nodes": nodes, "calls": [["repr", 0], ["str", 0]],
                    "faults": [], "warm": False})
    return out


def gen_format_inherited_str():
    """Only an ANCESTOR passes str=True; the runtime class inherits the generated __str__ but has another
    __repr__: an attrs subclass adding fields (any repr kind), or a plain subclass with a hand-written
    __repr__ (or none).  str() must equal repr() of the runtime class."""
    out = []
    for deco, slots, rm, init, kind, bstr in itertools.product(
            ["attr.s", "define"], [False, True], RMODES, [True, False],
            ["attrs_sub", "plain_own_repr", "plain_local_own_repr", "plain"], [False, True]):
        rmj = rm if isinstance(rm, bool) else [rm[0], "L" if rm[0] == "leaf" else "W"] + rm[2:] + rm[2:]
        own = [["x", rmj, init], ["z", True, False]]
        a = {"b": 1, "x": 2} if init else {"b": 1}
        if kind == "attrs_sub":
            cs = _cls("C", own, deco=deco, slots=slots, naming="top" if slots else "local", str=False,
                      base=[["b", True, True]], base_strflag=True, base_str=bstr)
        else:
            cs = _cls("C", [["b", True, True]] + own, deco=deco, slots=slots,
                      naming="sub_of_local" if kind == "plain_local_own_repr" else "sub_top",
                      str=True, base_str=bstr, own_repr=(kind != "plain"))
        nodes = [{"k": "i", "c": 0, "a": a, "mk": "ctor"}, {"k": "s", "v": ["i", 1]}, {"k": "s", "v": ["s", "it's"]}]
        out.append({"family": "format", "classes": [cs], "nodes": nodes,
                    "calls": [["repr", 0], ["str", 0], ["repr", 0]], "faults": [], "warm": False})
    return out


def gen_format_exhaustive():
    out = []
    for deco, slots, naming, rm, fstate in itertools.product(
            ["attr.s", "define"], [False, True], NAMINGS, RMODES, FSTATES):
        out.append(_format_case(deco, slots, naming, rm, fstate, None, "ctor"))
    # init=False field x {no default, default value, factory} x how it came to be unset x set/unset
    for deco, slots, naming, rm, fstate, dflt, how in itertools.product(
            ["attr.s", "define"], [False, True], ["top", "local_in_nested_local", "sub_of_local"], RMODES,
            ["noinit_unset", "noinit_set", "init_set"], [None, "value", "factory"], ["ctor", "new", "own_init"]):
        if dflt is None and how == "ctor":
            continue    # already in the first block
        out.append(_format_case(deco, slots, naming, rm, fstate, dflt, how))
    return out


def rand_rmode(rng, tag):
    r = rng.random()
    if r < 0.45:
        return True
    if r < 0.6:
        return False
    shape = rng.choice(CALLABLE_SHAPES) if rng.random() < 0.35 else "fn"
    if r < 0.8:
        return ["leaf", "L" + tag, shape]
    return ["wrap", "W" + tag, shape]


def rand_dflt(rng):
    return rng.choice([None, None, "value", "factory"])


def rand_mk(rng):
    return "new" if rng.random() < 0.25 else "ctor"


def rand_class(rng, idx, maxf=4, simple_names=False):
    nf = rng.randint(0, maxf)
    names = ["a", "b", "c", "d", "e", "f", "g"]
    rng.shuffle(names)
    base = None
    if rng.random() < 0.35:
        base = [[names.pop(), rand_rmode(rng, "b%d%d" % (idx, j)), rng.random() < 0.75, rand_dflt(rng)]
                for j in range(rng.randint(1, 2))]
    fields = [[names.pop(), rand_rmode(rng, "%d%d" % (idx, j)), rng.random() < 0.7, rand_dflt(rng)]
              for j in range(nf)]
    cs = _cls("K%d" % idx, fields, deco=rng.choice(["attr.s", "define"]), slots=rng.random() < 0.5,
                frozen=rng.random() < 0.2, naming="top" if simple_names and rng.random() < 0.5 else rng.choice(NAMINGS + ALL_NAMINGS),
                str=rng.random() < 0.4, base_str=rng.random() < 0.3, base=base,
                own_init=rng.random() < 0.2, base_strflag=rng.random() < 0.4, own_repr=rng.random() < 0.3,
                eqmode=rng.choice(["identity", "identity", "identity", "true", "fields_off", "fields_off", "raise"]))
    cs["sub_norepr"] = has_sub(cs) and rng.random() < 0.3   # subclass decorated with repr=False (adds a field)
    if not has_sub(cs) or cs["sub_norepr"]:
        cs["own_repr"] = False      # only the undecorated subclass can carry a hand-written __repr__
    return cs


def gen_format_random(rng):
    cs = rand_class(rng, 0)
    pool = rng.sample(SCALARS, 4)
    nodes = [{"k": "i", "c": 0, "a": {}, "mk": rand_mk(rng)}] + [{"k": "s", "v": s} for s in pool]
    for f in all_fields(cs):
        p = 0.93 if f[2] else 0.5
        if rng.random() < p:
            nodes[0]["a"][f[0]] = rng.randint(1, 4)
    return {"family": "format", "classes": [cs], "nodes": nodes,
            "calls": [["repr", 0], ["str", 0]] if has_generated_str(cs) else [["repr", 0], ["repr", 0]],
            "faults": [], "warm": rng.random() < 0.3}


def gen_graph(rng, max_nodes=6, max_items=3, p_unset=0.04):
    ncls = rng.randint(1, 3)
    classes = [rand_class(rng, i, maxf=3, simple_names=True) for i in range(ncls)]
    # make sure there is something to render
    if not any(all_fields(c) for c in classes):
        classes[0]["fields"] = [["a", True, True]]
    k = rng.randint(1, max_nodes)
    kinds = [rng.choice("iiiiilldt") for _ in range(k)]
    if "i" not in kinds:
        kinds[0] = "i"
    nsc = rng.randint(1, 3)
    scal = rng.sample(SCALARS, nsc)
    keys = rng.sample(KEYS, 2)
    nodes = [None] * k + [{"k": "s", "v": s} for s in scal] + [{"k": "s", "v": s} for s in keys]
    total = len(nodes)
    key_idx = [k + nsc, k + nsc + 1]

    def ref():
        if rng.random() < 0.7:
            return rng.randrange(k)
        return rng.randrange(k, k + nsc)

    for i, kd in enumerate(kinds):
        if kd == "i":
            c = rng.randrange(ncls)
            a = {}
            for f in all_fields(classes[c]):
                if f[2]:
                    if rng.random() >= p_unset:
                        a[f[0]] = ref()
                elif rng.random() < 0.6:
                    a[f[0]] = ref()
            nodes[i] = {"k": "i", "c": c, "a": a, "mk": rand_mk(rng)}
        elif kd == "l":
            nodes[i] = {"k": "l", "e": [ref() for _ in range(rng.randint(0, max_items))]}
        elif kd == "t":
            # tuples are immutable: they can only refer to non-tuple nodes (cycles go through those)
            e = [r for r in (ref() for _ in range(rng.randint(0, max_items))) if r >= k or kinds[r] != "t"]
            nodes[i] = {"k": "t", "e": e}
        else:
            ks = rng.sample(key_idx, rng.randint(0, 2))
            nodes[i] = {"k": "d", "e": [[kk, ref()] for kk in ks]}
    assert total == len(nodes)
    calls = []
    for _ in range(rng.randint(1, 3)):
        o = rng.randrange(k)
        # str() only where the property speaks (str=True) or where it is CPython's business (containers)
        can_str = nodes[o]["k"] != "i" or has_generated_str(classes[nodes[o]["c"]])
        calls.append(["str" if can_str and rng.random() < 0.3 else "repr", o])
    return {"family": "graph", "classes": classes, "nodes": nodes, "calls": calls, "faults": [],
            "warm": rng.random() < 0.3}


def count_calls(inp):
    """Number of repr-callable invocations during the first call of the case (real, fault-free)."""
    probe = dict(inp)
    probe["faults"] = []
    probe["threaded"] = False
    probe["calls"] = inp["calls"][:1]
    seen, info = real_run(probe, want_called=True)
    return info["called"], seen


def gen_faults(rng, base, cap=6):
    """One case per callable call position of the first call: fault there, then repr again (twice)."""
    called, _ = count_calls(base)
    out = []
    positions = list(range(len(called)))
    if len(positions) > cap:
        positions = sorted(rng.sample(positions, cap))
    first = base["calls"][0]
    for kpos in positions:
        c = dict(base)
        c["family"] = "fault"
        c["faults"] = [[False] * kpos + [True]]
        c["fault_base"] = rng.random() < 0.4
        c["calls"] = [first, ["repr", first[1]], first]
        out.append(c)
    if len(called) >= 2 and rng.random() < 0.5:
        c = dict(base)
        c["family"] = "fault"
        fl = [rng.random() < 0.3 for _ in range(3 * len(called))]
        c["faults"] = [fl]
        c["fault_base"] = rng.random() < 0.4
        c["calls"] = [first, first, first, first]
        out.append(c)
    return out


def gen_threads(rng, n):
    """n threads repr the SAME instance; every thread blocks inside one field's callable until all
    are inside; then released in a chosen order (or all at once)."""
    for _ in range(50):
        base = gen_graph(rng, max_nodes=4, max_items=2, p_unset=0.0)
        # force at least one callable on the class of some instance
        inst = [i for i, nd in enumerate(base["nodes"]) if nd["k"] == "i"]
        root = rng.choice(inst)
        cs = base["classes"][base["nodes"][root]["c"]]
        fs = all_fields(cs)
        if not fs:
            continue
        if not any(isinstance(f[1], list) for f in fs):
            f = rng.choice(fs)
            f[1] = [rng.choice(["leaf", "wrap"]), "T"]
            if f[2] and f[0] not in base["nodes"][root]["a"]:
                base["nodes"][root]["a"][f[0]] = root
        base["calls"] = [["repr", root]]
        base["warm"] = False
        called, seen = count_calls(base)
        if not called or seen[0][0][0] != "ok" or len(seen[0][0][1]) > 110:
            continue
        c = dict(base)
        c["family"] = "threads"
        c["threaded"] = True
        c["calls"] = [["repr", root]] * n
        if rng.random() < 0.15 and len(inst) > 1:
            # one thread renders another instance of the same graph (it may or may not reach the
            # blocking callable: if not, it simply finishes at once); keep it small for the model's
            # fixed number of round-robin rounds
            other = rng.choice(inst)
            probe = dict(base)
            probe["calls"] = [["repr", other]]
            _, seen_o = count_calls(probe)
            if seen_o[0][0][0] == "ok" and len(seen_o[0][0][1]) <= 110:
                c["calls"][rng.randrange(n)] = ["repr", other]
        enter = list(range(n))
        rng.shuffle(enter)
        rel = list(range(n))
        rng.shuffle(rel)
        c["plan"] = {"block": rng.choice(called), "enter": enter,
                     "release": "all" if rng.random() < 0.2 else rel}
        c["sched"] = [rng.randrange(n + 1) for _ in range(rng.randint(0, 25))]
        faults = [[] for _ in range(n)]
        if rng.random() < 0.25:
            faults[rng.randrange(n)] = [False] * rng.randrange(len(called)) + [True]
            c["fault_base"] = rng.random() < 0.4
        c["faults"] = faults
        return c
    return None


SIZES = {
    "quick": {"format_random": 150, "graph": 450, "fault_bases": 70, "threads": 120,
              "stress": [(2, 100), (3, 100), (4, 100)]},
    "thorough": {"format_random": 3000, "graph": 12000, "fault_bases": 1600, "threads": 2400,
                 "stress": [(2, 500), (3, 500), (4, 500), (8, 300)] * 3},
}


def generate(tier, seed):
    rng = random.Random(seed)
    sz = SIZES[tier]
    _script_terms.clear()
    _script_unrecognised.clear()
    inputs = list(gen_format_exhaustive()) + gen_format_inherited_str() + gen_equal_but_distinct() + gen_runtime_names()
    for _ in range(sz["format_random"]):
        inputs.append(gen_format_random(rng))
    for _ in range(sz["graph"]):
        inputs.append(gen_graph(rng))
    nb = 0
    guard = 0
    while nb < sz["fault_bases"] and guard < 20 * sz["fault_bases"]:
        guard += 1
        base = gen_graph(rng, max_nodes=5, p_unset=0.0)  # faults and tolerated AttributeError are not mixed
        fc = gen_faults(rng, base)
        if fc:
            nb += 1
            inputs.extend(fc)
    for i in range(sz["threads"]):
        c = gen_threads(rng, 2 if i % 2 == 0 else 3)
        if c is not None:
            inputs.append(c)
    for nthreads, loops in sz["stress"]:
        c = gen_stress(rng, nthreads, loops)
        if c is not None:
            inputs.append(c)
    return [mk_case(inp) for inp in inputs]


def rerun(inp):
    return mk_case(inp)


def gen_stress(rng, nthreads, loops):
    """Free-running (unforced) threads hammering repr() of one cyclic instance.  Runtime evidence:
    the interleaving is whatever the OS gives; every thread must only ever see the solo string."""
    for _ in range(200):
        g = gen_graph(rng, max_nodes=4, max_items=2, p_unset=0.0)
        inst = [i for i, nd in enumerate(g["nodes"]) if nd["k"] == "i"]
        root = rng.choice(inst)
        g["calls"] = [["repr", root]]
        g["warm"] = False
        seen, _ = real_run(g)
        r = seen[0][0]
        if r[0] == "ok" and "..." in r[1] and len(r[1]) <= 110:
            g["family"] = "stress"
            g["threaded"] = True
            g["calls"] = [["repr", root]] * nthreads
            g["plan"] = {"stress": loops}
            g["sched"] = []
            g["faults"] = []
            return g
    return None


def corpus():
    import importlib.util
    import os
    spec = importlib.util.spec_from_file_location("verif_defects", os.path.join(vlib.VERIF, "corpus", "defects.py"))
    m = importlib.util.module_from_spec(spec)
    spec.loader.exec_module(m)
    return [(k, f) for k, f in m.ALL.items() if "_C11_" in k]


def EXHAUSTIVE(tier):
    return False


def distribution(cases):
    from collections import Counter
    fam = Counter(c.sig["family"] for c in cases)
    nam = Counter(n for c in cases for n in c.sig["namings"])
    return {"families": dict(fam), "namings": dict(nam),
            "with_cycle_marker": sum(1 for c in cases if c.sig["marker"]),
            "with_fault": sum(1 for c in cases if c.sig["fault"]),
            "unset_init_false_field_with_default": sum(1 for c in cases if c.sig["noinit_default_unset"]),
            "str_through_inherited_generated___str__": sum(1 for c in cases if c.sig["inherited_generated_str"]),
            "eqmodes": dict(Counter(m for c in cases for m in c.sig["eqmodes"])),
            "falsy_repr_callable": sum(1 for c in cases if c.sig["falsy_callable"]),
            "runtime_class_is_subclass_without_own_generated_repr": sum(1 for c in cases if c.sig["runtime_class_is_subclass"]),
            "with_tuple": sum(1 for c in cases if c.sig["has_tuple"]),
            "instance_made_by___new__": sum(1 for c in cases if c.sig["made_by_new"]),
            "class_level_init_false_own_init": sum(1 for c in cases if c.sig["own_init"]),
            "threads_2": sum(1 for c in cases if c.sig["threaded"] and len(c.inp["calls"]) == 2),
            "threads_3": sum(1 for c in cases if c.sig["threaded"] and len(c.inp["calls"]) == 3),
            "raised": sum(1 for c in cases for e in c.seen if isinstance(e, dict) and "result" in e
                          and e["result"][0] == "raise")}
