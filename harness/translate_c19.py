"""Fail-closed translator for the anchor code of C19: regenerates coq/theories/Gen/C19_tie.v from
$ATTRS_REPO/src/attr/{_cmp,filters,converters,_make}.py on every run.  coq/theories/C19/Tie.v then proves
that the regenerated definitions coincide, on EVERY input, with the functions of C19/Model*.v that the
property theorems are stated about.

Five small domains share one statement walker (docstrings, `msg = ...`, if/elif/else with fall-through,
return, raise, domain-specific assignments) and differ in their expressions:

 cmp      _cmp._make_operator.method / _is_comparable_to / _check_same_type
          values self, other (wrapper objects), X.value; `func(self.value, other.value)` is a TRACED call;
          conditions: `self._is_comparable_to(other)`, `<local> is [not] NotImplemented`, not/and/or;
          `all(f(self, other) for f in self._requirements)`; `A.value.__class__ is B.value.__class__`,
          `isinstance(A.value, B.value.__class__)`
 cmpcls   the body of _cmp.cmp_using: dict literal `body`, integer / boolean locals, `if <param> is not None`,
          `body["k"] = _make_operator("name", param)` / `= __ne__`, `n += 1`, types.new_class(..) (opaque),
          `type_._requirements.append(_check_same_type)`, chained comparison of the counter with literals,
          `functools.total_ordering(type_)`, raise ValueError
 filters  _split_what (a tuple of three frozenset(<x> for <x> in what if <kind test>)), include_/exclude_
          (`X in S` / `not in` over value.__class__, attribute.name, attribute; not/and/or)
 tobool   converters.to_bool: isinstance(val, str), val = val.lower(), `val in (<literals>)`, return
          True/False, raise
 conv     the closures optional_converter (both), default_if_none_converter (both), pipe_converter (both):
          `X is [not] None`, calls of the wrapped converter, `default.factory()`, the `for c in converters:
          val = ...` loop with `c(val, inst, field) if isinstance(c, Converter) else c(val)`

Anything else raises Untranslatable -> status "untranslatable: ..." -> the driver records
`translated_tie: unavailable`; never an alarm by itself.  No source text is hashed or compared."""
import ast
import os

from . import vlib
from .translate import Untranslatable


def _q(s):
    if not all(32 <= ord(ch) < 127 for ch in s):
        raise Untranslatable("non-printable string literal")
    return '"' + s.replace('"', '""') + '"'


def _strip(body):
    """drop docstrings"""
    return [s for s in body if not (isinstance(s, ast.Expr) and isinstance(s.value, ast.Constant)
                                    and isinstance(s.value.value, str))]


BUILTINS_USED = {"isinstance", "type", "all", "any", "frozenset", "set", "tuple", "list", "str", "bool",
                 "NotImplemented", "TypeError", "ValueError", "object"}
PRIMS = BUILTINS_USED | {"Converter", "Attribute", "Factory", "NOTHING", "functools", "types", "_make_operator",
                         "_check_same_type", "_is_comparable_to", "__ne__", "_split_what"}
FORBIDDEN_NODES = (ast.Try, ast.With, ast.While, ast.Delete, ast.Global, ast.Nonlocal, ast.Assert, ast.NamedExpr,
                   ast.AsyncFunctionDef, ast.AsyncFor, ast.AsyncWith, ast.Await, ast.Yield, ast.YieldFrom,
                   ast.Import, ast.ImportFrom, ast.ClassDef, ast.Match, ast.Starred)


def _bound_names(node):
    """every name bound anywhere inside node (parameters, assignment / loop / comprehension / with / except
    targets, nested defs)"""
    out = []
    for n in ast.walk(node):
        if isinstance(n, ast.Name) and isinstance(n.ctx, (ast.Store, ast.Del)):
            out.append(n.id)
        elif isinstance(n, ast.arg):
            out.append(n.arg)
        elif isinstance(n, (ast.FunctionDef, ast.ClassDef)) and n is not node:
            out.append(n.name)
        elif isinstance(n, ast.ExceptHandler) and n.name:
            out.append(n.name)
    return out


def _module_bindings(tree):
    out = []
    for n in tree.body:
        if isinstance(n, (ast.FunctionDef, ast.ClassDef, ast.AsyncFunctionDef)):
            out.append(n.name)
        elif isinstance(n, (ast.Import, ast.ImportFrom)):
            out += [(a.asname or a.name).split(".")[0] for a in n.names]
        else:
            out += [x.id for x in ast.walk(n) if isinstance(x, ast.Name) and isinstance(x.ctx, ast.Store)]
    return out


def _fn(tree_or_fn, name):
    """the ONE definition of `name` directly in this module / function / class body: undecorated, not
    rebound afterwards; inside it no construct we give no meaning to and no shadowing of a primitive."""
    found = [n for n in tree_or_fn.body if isinstance(n, ast.FunctionDef) and n.name == name]
    if len(found) != 1:
        raise Untranslatable("expected exactly one definition of %s, found %d" % (name, len(found)))
    fn = found[0]
    if isinstance(tree_or_fn, ast.Module):
        binds = _module_bindings(tree_or_fn)
        if binds.count(name) != 1:
            raise Untranslatable("%s is bound %d times at module level" % (name, binds.count(name)))
        shadow = BUILTINS_USED & set(binds)
        if shadow:
            raise Untranslatable("module rebinds builtin(s) %s" % sorted(shadow))
    _check_fn(fn)
    return fn


def _check_fn(fn):
    for n in ast.walk(fn):
        if isinstance(n, ast.FunctionDef) and n.decorator_list:
            raise Untranslatable("%s is decorated" % n.name)
        if isinstance(n, FORBIDDEN_NODES):
            raise Untranslatable("%s contains %s" % (fn.name, type(n).__name__))
    shadow = PRIMS & set(_bound_names(fn))
    if shadow:
        raise Untranslatable("%s rebinds %s" % (fn.name, sorted(shadow)))


def _inner_defs(fn, name):
    """all FunctionDefs called `name` nested anywhere in fn (in source order)"""
    out = [n for n in ast.walk(fn) if isinstance(n, ast.FunctionDef) and n.name == name and n is not fn]
    return sorted(out, key=lambda n: n.lineno)


def _params(fn, n=None):
    a = fn.args
    if a.vararg or a.kwarg or a.kwonlyargs or a.defaults or a.posonlyargs:
        raise Untranslatable("signature of " + fn.name)
    ps = [x.arg for x in a.args]
    if n is not None and len(ps) != n:
        raise Untranslatable("%s takes %d parameters, expected %d" % (fn.name, len(ps), n))
    return ps


def _is_message(v):
    """a string literal, or an f-string whose holes are plain names (no calls, no attribute reads)"""
    if isinstance(v, ast.Constant) and isinstance(v.value, str):
        return True
    if isinstance(v, ast.JoinedStr):
        return all(isinstance(p, ast.Constant) or (isinstance(p, ast.FormattedValue) and isinstance(p.value, ast.Name)
                                                    and p.format_spec is None) for p in v.values)
    return False


class Walker:
    """Statement walker in continuation style: `tail` is the term for falling off the end."""

    def boolop(self, n, leaf):
        if isinstance(n, ast.UnaryOp) and isinstance(n.op, ast.Not):
            return "(negb %s)" % self.boolop(n.operand, leaf)
        if isinstance(n, ast.BoolOp):
            op = "andb" if isinstance(n.op, ast.And) else "orb"
            parts = [self.boolop(v, leaf) for v in n.values]
            t = parts[-1]
            for p in reversed(parts[:-1]):
                t = "(%s %s %s)" % (op, p, t)
            return t
        return leaf(n)

    def stmts(self, ss, tail):
        if not ss:
            return tail
        s, rest = ss[0], ss[1:]
        if isinstance(s, ast.Expr) and isinstance(s.value, ast.Constant) and isinstance(s.value.value, str):
            return self.stmts(rest, tail)
        if isinstance(s, ast.Pass):
            return self.stmts(rest, tail)
        if isinstance(s, ast.Assign) and len(s.targets) == 1 and isinstance(s.targets[0], ast.Name) \
                and s.targets[0].id == "msg" and _is_message(s.value):
            # a message text is only given no meaning when the very next statement raises with it
            # (formatting it calls repr() of a value: assumed not to raise - see docs, ASSUMPTIONS)
            if not (rest and isinstance(rest[0], ast.Raise)):
                raise Untranslatable("`msg = ...` not followed by raise")
            return self.stmts(rest, tail)
        if isinstance(s, ast.If):
            return self.if_(s, rest, tail)
        if isinstance(s, ast.Return):
            return self.ret(s.value)
        if isinstance(s, ast.Raise):
            e = s.exc
            if s.cause is not None or e is None:
                raise Untranslatable("raise ... from / bare raise")
            name = None
            if isinstance(e, ast.Name):
                name = e.id
            elif isinstance(e, ast.Call) and isinstance(e.func, ast.Name) and not e.keywords \
                    and all(isinstance(a, ast.Name) and a.id == "msg" or _is_message(a) for a in e.args):
                name = e.func.id
            if not name or name not in ("ValueError", "TypeError"):
                raise Untranslatable("raise " + ast.dump(s)[:100])
            return self.raise_(name)
        return self.other(s, rest, tail)

    def if_(self, s, rest, tail):
        c = self.cond(s.test)
        saved = self.save()
        a = self.stmts(list(s.body) + rest, tail)
        self.restore(saved)
        b_ = self.stmts(list(s.orelse) + rest, tail)
        self.restore(saved)
        return "(if %s then %s else %s)" % (c, a, b_)

    def save(self):
        return None

    def restore(self, st):
        pass

    def other(self, s, rest, tail):
        raise Untranslatable("statement " + ast.dump(s)[:160])

    def raise_(self, name):
        raise Untranslatable("raise " + name)


# --------------------------------------------------------------------------------------
# cmp: _make_operator.method, _is_comparable_to, _check_same_type


class CmpMethod(Walker):
    def __init__(self, self_, other, func, name):
        self.w = {self_: "self", other: "other"}
        self.func = func
        self.tris = set()
        self.self_ = self_

    def save(self):
        return set(self.tris)

    def restore(self, st):
        self.tris = set(st)

    def wval(self, n):
        """X.value"""
        if isinstance(n, ast.Attribute) and n.attr == "value" and isinstance(n.value, ast.Name) and n.value.id in self.w:
            return "(w_val V %s)" % self.w[n.value.id]
        raise Untranslatable("cmp value " + ast.dump(n)[:100])

    def tri(self, n):
        if isinstance(n, ast.Name) and n.id in self.tris:
            return n.id + "_"
        if isinstance(n, ast.Constant) and n.value is True:
            return "TT"
        if isinstance(n, ast.Constant) and n.value is False:
            return "FF"
        if isinstance(n, ast.Name) and n.id == "NotImplemented":
            return "NI"
        raise Untranslatable("cmp result " + ast.dump(n)[:100])

    def leaf(self, n):
        # self._is_comparable_to(other)
        if isinstance(n, ast.Call) and isinstance(n.func, ast.Attribute) and n.func.attr == "_is_comparable_to" \
                and isinstance(n.func.value, ast.Name) and n.func.value.id in self.w and len(n.args) == 1 \
                and isinstance(n.args[0], ast.Name) and n.args[0].id in self.w and not n.keywords:
            return "(cmpf %s %s)" % (self.w[n.func.value.id], self.w[n.args[0].id])
        if isinstance(n, ast.Compare) and len(n.ops) == 1 and isinstance(n.ops[0], (ast.Is, ast.IsNot)):
            l, r = n.left, n.comparators[0]
            if isinstance(r, ast.Name) and r.id == "NotImplemented" and isinstance(l, ast.Name) and l.id in self.tris:
                t = "(tri_is_ni %s_)" % l.id
                return t if isinstance(n.ops[0], ast.Is) else "(negb %s)" % t
        raise Untranslatable("cmp condition " + ast.dump(n)[:120])

    def cond(self, n):
        return self.boolop(n, self.leaf)

    def ret(self, v):
        if v is None:
            raise Untranslatable("bare return in operator method")
        return "(%s, [])" % self.tri(v)

    def other(self, s, rest, tail):
        # <local> = func(A.value, B.value)
        if isinstance(s, ast.Assign) and len(s.targets) == 1 and isinstance(s.targets[0], ast.Name) \
                and isinstance(s.value, ast.Call) and isinstance(s.value.func, ast.Name) and s.value.func.id == self.func \
                and len(s.value.args) == 2 and not s.value.keywords:
            x, y = self.wval(s.value.args[0]), self.wval(s.value.args[1])
            t = s.targets[0].id
            self.tris.add(t)
            return "(call_fn o func %s %s (fun %s_ => %s))" % (x, y, t, self.stmts(rest, tail))
        raise Untranslatable("cmp statement " + ast.dump(s)[:160])


def tr_make_operator(tree):
    mo = _fn(tree, "_make_operator")
    ps = _params(mo, 2)
    inner = [n for n in mo.body if isinstance(n, ast.FunctionDef)]
    if len(inner) != 1:
        raise Untranslatable("_make_operator does not define exactly one inner function")
    m = inner[0]
    mps = _params(m, 2)
    # the rest of _make_operator may only decorate the function object and return it
    for s in _strip(mo.body):
        if s is m:
            continue
        if isinstance(s, ast.Return) and isinstance(s.value, ast.Name) and s.value.id == m.name:
            continue
        if isinstance(s, ast.Assign) and len(s.targets) == 1 and isinstance(s.targets[0], ast.Attribute) \
                and isinstance(s.targets[0].value, ast.Name) and s.targets[0].value.id == m.name \
                and s.targets[0].attr in ("__name__", "__doc__", "__qualname__") and _label_ok(s.value, ps[0], tree):
            continue
        raise Untranslatable("_make_operator: statement outside the subset: " + ast.dump(s)[:100])
    w = CmpMethod(mps[0], mps[1], ps[1], ps[0])
    body = w.stmts(_strip(m.body), "(TT, [])")        # falling off the end returns None: never reached in subset
    if body.endswith("(TT, [])") and not any(isinstance(x, ast.Return) for x in ast.walk(m)):
        raise Untranslatable("operator method without return")
    _must_end_in_return(m)
    return ("Definition t_method (V : Type) (o : cop) (func : V -> V -> tri) (cmpf : nat * V -> nat * V -> bool)\n"
            "  (self other : nat * V) : tri * list (cop * V * V) :=\n  %s.\n" % body)


OPS_INSTALLED = ("eq", "lt", "le", "gt", "ge")


def _label_ok(v, name_param, tree):
    """f"...{name}...{_operation_names[name]}..." where _operation_names is a module-level dict literal that
    has every operator name cmp_using passes (so building the label cannot raise KeyError)"""
    if isinstance(v, ast.Constant) and isinstance(v.value, str):
        return True
    if not isinstance(v, ast.JoinedStr):
        return False
    for p_ in v.values:
        if isinstance(p_, ast.Constant):
            continue
        if not (isinstance(p_, ast.FormattedValue) and p_.format_spec is None):
            return False
        x = p_.value
        if isinstance(x, ast.Name) and x.id == name_param:
            continue
        if isinstance(x, ast.Subscript) and isinstance(x.value, ast.Name) and isinstance(x.slice, ast.Name) \
                and x.slice.id == name_param:
            tbl = [n for n in tree.body if isinstance(n, ast.Assign) and len(n.targets) == 1
                   and isinstance(n.targets[0], ast.Name) and n.targets[0].id == x.value.id]
            if len(tbl) == 1 and isinstance(tbl[0].value, ast.Dict) and _module_bindings(tree).count(x.value.id) == 1 \
                    and all(isinstance(k, ast.Constant) for k in tbl[0].value.keys) \
                    and set(OPS_INSTALLED) <= {k.value for k in tbl[0].value.keys}:
                continue
        return False
    return True


def _must_end_in_return(fn):
    """every path must end in return/raise (we give no meaning to an implicit `return None` here)"""
    def ends(ss):
        ss = _strip(ss)
        if not ss:
            return False
        last = ss[-1]
        if isinstance(last, (ast.Return, ast.Raise)):
            return True
        if isinstance(last, ast.If):
            return bool(last.orelse) and ends(last.body) and ends(last.orelse)
        return False
    if not ends(fn.body):
        raise Untranslatable("%s can fall off its end" % fn.name)


def tr_is_comparable_to(tree):
    f = _fn(tree, "_is_comparable_to")
    ps = _params(f, 2)
    body = _strip(f.body)
    if len(body) != 1 or not isinstance(body[0], ast.Return):
        raise Untranslatable("_is_comparable_to is not a single return")
    e = body[0].value
    # all(func(self, other) for func in self._requirements)
    if not (isinstance(e, ast.Call) and isinstance(e.func, ast.Name) and e.func.id in ("all", "any") and len(e.args) == 1
            and isinstance(e.args[0], (ast.GeneratorExp, ast.ListComp)) and len(e.args[0].generators) == 1):
        raise Untranslatable("_is_comparable_to: " + ast.dump(e)[:120])
    g = e.args[0].generators[0]
    if g.ifs or g.is_async or not isinstance(g.target, ast.Name):
        raise Untranslatable("_is_comparable_to generator")
    it = g.iter
    if not (isinstance(it, ast.Attribute) and it.attr == "_requirements" and isinstance(it.value, ast.Name) and it.value.id == ps[0]):
        raise Untranslatable("_is_comparable_to iterates over " + ast.dump(it)[:80])
    el = e.args[0].elt
    if not (isinstance(el, ast.Call) and isinstance(el.func, ast.Name) and el.func.id == g.target.id and len(el.args) == 2
            and all(isinstance(a, ast.Name) and a.id in ps for a in el.args) and not el.keywords):
        raise Untranslatable("_is_comparable_to element " + ast.dump(el)[:100])
    names = {ps[0]: "self", ps[1]: "other"}
    comb = "forallb" if e.func.id == "all" else "existsb"
    return ("Definition t_is_comparable_to (V : Type) (reqs : list (nat * V -> nat * V -> bool)) (self other : nat * V) : bool :=\n"
            "  %s (fun f => f %s %s) reqs.\n" % (comb, names[el.args[0].id], names[el.args[1].id]))


def tr_check_same_type(tree):
    f = _fn(tree, "_check_same_type")
    ps = _params(f, 2)
    names = {ps[0]: "self", ps[1]: "other"}
    body = _strip(f.body)
    if len(body) != 1 or not isinstance(body[0], ast.Return):
        raise Untranslatable("_check_same_type is not a single return")

    def val(n):
        if isinstance(n, ast.Attribute) and n.attr == "value" and isinstance(n.value, ast.Name) and n.value.id in names:
            return "(w_val V %s)" % names[n.value.id]
        raise Untranslatable("_check_same_type value " + ast.dump(n)[:80])

    def cls(n):
        if isinstance(n, ast.Attribute) and n.attr == "__class__":
            return "(cls %s)" % val(n.value)
        raise Untranslatable("_check_same_type class " + ast.dump(n)[:80])

    def leaf(n):
        if isinstance(n, ast.Compare) and len(n.ops) == 1 and isinstance(n.ops[0], (ast.Is, ast.IsNot)):
            t = "(cls_is %s %s)" % (cls(n.left), cls(n.comparators[0]))
            return t if isinstance(n.ops[0], ast.Is) else "(negb %s)" % t
        if isinstance(n, ast.Call) and isinstance(n.func, ast.Name) and n.func.id == "isinstance" and len(n.args) == 2:
            return "(cls_sub (cls %s) %s)" % (val(n.args[0]), cls(n.args[1]))
        raise Untranslatable("_check_same_type condition " + ast.dump(n)[:100])
    t = Walker().boolop(body[0].value, leaf)
    return ("Definition t_check_same_type (V K : Type) (cls : V -> K) (cls_is cls_sub : K -> K -> bool)\n"
            "  (self other : nat * V) : bool :=\n  %s.\n" % t)


# --------------------------------------------------------------------------------------
# filters


class FilterCond(Walker):
    KINDS = {"type": "KType", "str": "KName", "Attribute": "KAttr"}

    def __init__(self, var):
        self.var = var

    def leaf(self, n):
        if isinstance(n, ast.Call) and isinstance(n.func, ast.Name) and n.func.id == "isinstance" and len(n.args) == 2 \
                and isinstance(n.args[0], ast.Name) and n.args[0].id == self.var and isinstance(n.args[1], ast.Name) \
                and n.args[1].id in self.KINDS:
            return "(ti_isinstance %s %s)" % (self.var + "_", self.KINDS[n.args[1].id])
        if isinstance(n, ast.Compare) and len(n.ops) == 1 and isinstance(n.ops[0], (ast.Is, ast.IsNot)) \
                and isinstance(n.comparators[0], ast.Name) and n.comparators[0].id in self.KINDS:
            l = n.left
            exact = isinstance(l, ast.Attribute) and l.attr == "__class__" and isinstance(l.value, ast.Name) \
                and l.value.id == self.var
            if exact:
                t = "(ti_exact_class %s %s)" % (self.var + "_", self.KINDS[n.comparators[0].id])
                return t if isinstance(n.ops[0], ast.Is) else "(negb %s)" % t
        raise Untranslatable("_split_what test " + ast.dump(n)[:120])


def tr_split_what(tree):
    f = _fn(tree, "_split_what")
    ps = _params(f, 1)
    body = _strip(f.body)
    if len(body) != 1 or not isinstance(body[0], ast.Return) or not isinstance(body[0].value, ast.Tuple) \
            or len(body[0].value.elts) != 3:
        raise Untranslatable("_split_what is not `return (a, b, c)`")
    parts = []
    for e in body[0].value.elts:
        if not (isinstance(e, ast.Call) and isinstance(e.func, ast.Name) and e.func.id in ("frozenset", "set", "tuple", "list")
                and len(e.args) == 1 and not e.keywords):
            raise Untranslatable("_split_what component " + ast.dump(e)[:100])
        g = e.args[0]
        if not (isinstance(g, (ast.GeneratorExp, ast.ListComp, ast.SetComp)) and len(g.generators) == 1):
            raise Untranslatable("_split_what comprehension")
        gen = g.generators[0]
        if not (isinstance(gen.target, ast.Name) and isinstance(gen.iter, ast.Name) and gen.iter.id == ps[0]
                and isinstance(g.elt, ast.Name) and g.elt.id == gen.target.id and not gen.is_async):
            raise Untranslatable("_split_what comprehension shape")
        fc = FilterCond(gen.target.id)
        c = "true"
        for i in gen.ifs:
            c = "(andb %s %s)" % (c, fc.boolop(i, fc.leaf))
        parts.append("filter (fun %s_ => %s) what" % (gen.target.id, c))
    return ("Definition t_split_what (what : list titem) : list titem * list titem * list titem :=\n"
            "  (%s,\n   %s,\n   %s).\n" % tuple(parts))


def tr_filter(tree, outer, coq):
    f = _fn(tree, outer)
    if not (f.args.vararg and not f.args.args and not f.args.kwarg and not f.args.kwonlyargs):
        raise Untranslatable("signature of " + outer)
    what = f.args.vararg.arg
    body = _strip(f.body)
    if len(body) != 3:
        raise Untranslatable("%s: expected unpack / def / return" % outer)
    un, inner, ret = body
    if not (isinstance(un, ast.Assign) and len(un.targets) == 1 and isinstance(un.targets[0], ast.Tuple)
            and len(un.targets[0].elts) == 3 and all(isinstance(x, ast.Name) for x in un.targets[0].elts)
            and isinstance(un.value, ast.Call) and isinstance(un.value.func, ast.Name) and un.value.func.id == "_split_what"
            and len(un.value.args) == 1 and isinstance(un.value.args[0], ast.Name) and un.value.args[0].id == what):
        raise Untranslatable("%s: first statement is not `a, b, c = _split_what(what)`" % outer)
    sets = [x.id for x in un.targets[0].elts]
    if not (isinstance(inner, ast.FunctionDef) and isinstance(ret, ast.Return) and isinstance(ret.value, ast.Name)
            and ret.value.id == inner.name):
        raise Untranslatable("%s: does not return its inner function" % outer)
    ps = _params(inner, 2)
    attribute, value = ps
    ib = _strip(inner.body)
    if len(ib) != 1 or not isinstance(ib[0], ast.Return):
        raise Untranslatable("%s: inner function is not a single return" % outer)

    def item(n):
        if isinstance(n, ast.Attribute) and n.attr == "__class__" and isinstance(n.value, ast.Name) and n.value.id == value:
            return "(WType value)"
        if isinstance(n, ast.Attribute) and n.attr == "name" and isinstance(n.value, ast.Name) and n.value.id == attribute:
            return "(WName (a_name (ta attribute)))"
        if isinstance(n, ast.Attribute) and n.attr == "alias" and isinstance(n.value, ast.Name) and n.value.id == attribute:
            return "(WName (ta_alias attribute))"          # a DIFFERENT read: the __init__ parameter name
        if isinstance(n, ast.Name) and n.id == attribute:
            return "(WAttr (ta attribute))"
        raise Untranslatable("%s: membership subject %s" % (outer, ast.dump(n)[:80]))

    def leaf(n):
        if isinstance(n, ast.Compare) and len(n.ops) == 1 and isinstance(n.ops[0], (ast.In, ast.NotIn)) \
                and isinstance(n.comparators[0], ast.Name) and n.comparators[0].id in sets:
            t = "(t_mem %s %s_)" % (item(n.left), n.comparators[0].id)
            return t if isinstance(n.ops[0], ast.In) else "(negb %s)" % t
        raise Untranslatable("%s: condition %s" % (outer, ast.dump(n)[:100]))
    t = Walker().boolop(ib[0].value, leaf)
    return ("Definition %s (what : list titem) (attribute : tattr) (value : nat) : bool :=\n"
            "  let '(%s_, %s_, %s_) := t_split_what what in\n  %s.\n" % (coq, sets[0], sets[1], sets[2], t))


# --------------------------------------------------------------------------------------
# to_bool


class ToBool(Walker):
    def __init__(self, p):
        self.p = p

    def elt(self, e):
        if isinstance(e, ast.Constant) and isinstance(e.value, bool):
            return "EBool %s" % ("true" if e.value else "false")
        if isinstance(e, ast.Constant) and isinstance(e.value, str):
            return "EStr %s" % _q(e.value)
        if isinstance(e, ast.Constant) and isinstance(e.value, int):
            return "EInt (%d)%%Z" % e.value
        raise Untranslatable("to_bool tuple element " + ast.dump(e)[:80])

    def leaf(self, n):
        if isinstance(n, ast.Call) and isinstance(n.func, ast.Name) and n.func.id == "isinstance" and len(n.args) == 2 \
                and isinstance(n.args[0], ast.Name) and n.args[0].id == self.p and isinstance(n.args[1], ast.Name) \
                and n.args[1].id == "str":
            return "(tb_is_str val)"
        if isinstance(n, ast.Compare) and len(n.ops) == 1 and isinstance(n.ops[0], (ast.In, ast.NotIn)) \
                and isinstance(n.left, ast.Name) and n.left.id == self.p \
                and isinstance(n.comparators[0], (ast.Tuple, ast.List)):
            t = "(py_in val [%s])" % "; ".join(self.elt(e) for e in n.comparators[0].elts)
            return t if isinstance(n.ops[0], ast.In) else "(negb %s)" % t
        raise Untranslatable("to_bool condition " + ast.dump(n)[:120])

    def cond(self, n):
        return self.boolop(n, self.leaf)

    def ret(self, v):
        if isinstance(v, ast.Constant) and isinstance(v.value, bool):
            return "(BOk %s)" % ("true" if v.value else "false")
        raise Untranslatable("to_bool returns " + (ast.dump(v)[:80] if v is not None else "None"))

    def raise_(self, name):
        return "BValueError" if name == "ValueError" else "BOtherOutcome"

    def other(self, s, rest, tail):
        # val = val.lower()
        if isinstance(s, ast.Assign) and len(s.targets) == 1 and isinstance(s.targets[0], ast.Name) and s.targets[0].id == self.p \
                and isinstance(s.value, ast.Call) and isinstance(s.value.func, ast.Attribute) and s.value.func.attr == "lower" \
                and isinstance(s.value.func.value, ast.Name) and s.value.func.value.id == self.p and not s.value.args \
                and not s.value.keywords:
            return "(match tb_lower val with Some val => %s | None => BOtherOutcome end)" % self.stmts(rest, tail)
        raise Untranslatable("to_bool statement " + ast.dump(s)[:140])


def tr_to_bool(tree):
    f = _fn(tree, "to_bool")
    ps = _params(f, 1)
    _must_end_in_return(f)
    w = ToBool(ps[0])
    return "Definition t_to_bool (val : tb_in) : tb_res :=\n  %s.\n" % w.stmts(_strip(f.body), "BOtherOutcome")


# --------------------------------------------------------------------------------------
# converter closures


class ConvClosure(Walker):
    """body of a closure with positional parameters ps (first = the value); `conv` names the wrapped
    converter (closure variable), `default` the closure variable of default_if_none."""

    def __init__(self, ps, conv=None, default=None, value_default=False):
        self.ps = ps
        self.conv = conv
        self.default = default
        self.value_default = value_default

    def val(self, n):
        if isinstance(n, ast.Name) and n.id in self.ps:
            return n.id + "_"
        if isinstance(n, ast.Constant) and n.value is None:
            return "VNone"
        raise Untranslatable("closure value " + ast.dump(n)[:80])

    def leaf(self, n):
        if isinstance(n, ast.Compare) and len(n.ops) == 1 and isinstance(n.ops[0], (ast.Is, ast.IsNot)) \
                and isinstance(n.comparators[0], ast.Constant) and n.comparators[0].value is None \
                and isinstance(n.left, ast.Name) and n.left.id in self.ps:
            t = "(is_none %s_)" % n.left.id
            return t if isinstance(n.ops[0], ast.Is) else "(negb %s)" % t
        raise Untranslatable("closure condition " + ast.dump(n)[:120])

    def cond(self, n):
        return self.boolop(n, self.leaf)

    def ret(self, v):
        if v is None:
            return "(Ok VNone, n)"
        # converter(val[, inst, field])
        if isinstance(v, ast.Call) and isinstance(v.func, ast.Name) and self.conv and v.func.id == self.conv and not v.keywords:
            return "(call c [%s] n)" % "; ".join(self.val(a) for a in v.args)
        # default.factory()
        if isinstance(v, ast.Call) and isinstance(v.func, ast.Attribute) and v.func.attr == "factory" \
                and isinstance(v.func.value, ast.Name) and self.default and v.func.value.id == self.default \
                and not v.args and not v.keywords and not self.value_default:
            return "(Ok (VFresh g n), S n)"
        if isinstance(v, ast.Name) and self.default and v.id == self.default and self.value_default:
            return "(Ok d, n)"
        return "(Ok %s, n)" % self.val(v)


def _closure(fn, sig, walker):
    ps = _params(fn)
    body = walker.stmts(_strip(fn.body), "(Ok VNone, n)")      # falling off the end returns None
    pat = "[%s]" % "; ".join(p + "_" for p in ps)
    return "%s :=\n  match a with\n  | %s => %s\n  | _ => type_error n\n  end.\n" % (sig, pat, body)



# --------------------------------------------------------------------------------------
# the OUTER functions (optional, default_if_none, pipe): everything around the closures must be
# accounted for: either modelled (closure selection, what is returned), or annotation plumbing that
# provably cannot touch the closure variables, or argument validation (documented as not tied)


def _pure_expr(n, protected):
    """an expression that only READS (names, attributes, subscripts, comparisons, boolean operators) or
    calls the annotation helpers; never a call that receives a protected object other than to inspect it"""
    if isinstance(n, (ast.Name, ast.Constant)):
        return True
    if isinstance(n, ast.Attribute):
        return _pure_expr(n.value, protected)
    if isinstance(n, ast.Subscript):
        return _pure_expr(n.value, protected) and _pure_expr(n.slice, protected)
    if isinstance(n, ast.UnaryOp) and isinstance(n.op, (ast.Not, ast.USub)):
        return _pure_expr(n.operand, protected)
    if isinstance(n, ast.BoolOp):
        return all(_pure_expr(v, protected) for v in n.values)
    if isinstance(n, ast.Compare):
        return all(isinstance(o, (ast.Is, ast.IsNot, ast.Eq, ast.NotEq)) for o in n.ops) \
            and all(_pure_expr(v, protected) for v in [n.left] + n.comparators)
    if isinstance(n, ast.Dict):
        return all(k is not None and _pure_expr(k, protected) for k in n.keys) and all(_pure_expr(v, protected) for v in n.values)
    if isinstance(n, ast.Call) and not n.keywords:
        f = n.func
        if isinstance(f, ast.Name) and f.id in ("_AnnotationExtractor", "TypeVar", "isinstance"):
            return all(_pure_expr(a, protected) for a in n.args)
        if isinstance(f, ast.Attribute) and f.attr in ("get_first_param_type", "get_return_type") and not n.args:
            if isinstance(f.value, ast.Name) and f.value.id not in protected:
                return True
            if isinstance(f.value, ast.Call) and isinstance(f.value.func, ast.Name) and f.value.func.id == "_AnnotationExtractor":
                return _pure_expr(f.value, protected)
    return False


def _plumbing_ok(s, closure, protected):
    if isinstance(s, ast.Assign) and len(s.targets) == 1:
        t = s.targets[0]
        if isinstance(t, ast.Name) and t.id not in protected and t.id != closure:
            return _pure_expr(s.value, protected)
        if isinstance(t, ast.Subscript) and isinstance(t.value, ast.Attribute) and t.value.attr == "__annotations__" \
                and isinstance(t.value.value, ast.Name) and t.value.value.id == closure:
            return _pure_expr(t.slice, protected) and _pure_expr(s.value, protected)
        return False
    if isinstance(s, ast.Expr) and isinstance(s.value, ast.Call):
        f = s.value.func
        return isinstance(f, ast.Attribute) and f.attr == "update" and isinstance(f.value, ast.Attribute) \
            and f.value.attr == "__annotations__" and isinstance(f.value.value, ast.Name) and f.value.value.id == closure \
            and len(s.value.args) == 1 and not s.value.keywords and _pure_expr(s.value.args[0], protected)
    if isinstance(s, ast.If):
        return _pure_expr(s.test, protected) and all(_plumbing_ok(x, closure, protected) for x in list(s.body) + list(s.orelse))
    return False


def _is_validation(s, protected):
    """`if <reads>: msg = "..."; raise TypeError/ValueError(msg)` - argument validation (NOT tied, see docs)"""
    if not (isinstance(s, ast.If) and not s.orelse and _pure_expr(s.test, protected)):
        return False
    b = list(s.body)
    if b and isinstance(b[0], ast.Assign) and len(b[0].targets) == 1 and isinstance(b[0].targets[0], ast.Name) \
            and b[0].targets[0].id == "msg" and _is_message(b[0].value):
        b = b[1:]
    return len(b) == 1 and isinstance(b[0], ast.Raise) and b[0].cause is None and isinstance(b[0].exc, ast.Call) \
        and isinstance(b[0].exc.func, ast.Name) and b[0].exc.func.id in ("TypeError", "ValueError")


def _converter_return(v, closure):
    """Converter(<closure>, takes_self=<bool>, takes_field=<bool>) -> (ts, tf)"""
    if isinstance(v, ast.Call) and isinstance(v.func, ast.Name) and v.func.id == "Converter" and len(v.args) == 1 \
            and isinstance(v.args[0], ast.Name) and v.args[0].id == closure:
        kw = {k.arg: k.value for k in v.keywords}
        if set(kw) <= {"takes_self", "takes_field"} and all(isinstance(x, ast.Constant) and isinstance(x.value, bool) for x in kw.values()):
            return tuple(kw[k].value if k in kw else None for k in ("takes_self", "takes_field"))
    return None


def _outer(f, closure, protected, modelled, wrap_test=None, allow=()):
    """Check every top-level statement of the outer function f.  `modelled`: statements translated
    elsewhere; `wrap_test(test)`: recognises the condition under which a Converter is returned; `allow`:
    extra predicate for statements with a known meaning.  Returns the flags of the Converter(...) return
    (or None when the function only ever returns the bare closure)."""
    flags, bare = [], 0
    for s in _strip(f.body):
        if any(s is m for m in modelled):
            continue
        if isinstance(s, ast.Return):
            if isinstance(s.value, ast.Name) and s.value.id == closure:
                bare += 1
                continue
            raise Untranslatable("%s returns %s" % (f.name, ast.dump(s.value)[:80] if s.value else "None"))
        if isinstance(s, ast.If) and wrap_test and wrap_test(s.test) and not s.orelse and len(s.body) == 1 \
                and isinstance(s.body[0], ast.Return):
            fl = _converter_return(s.body[0].value, closure)
            if fl is None:
                raise Untranslatable("%s: conditional return is not Converter(%s, ...)" % (f.name, closure))
            flags.append(fl)
            continue
        if _is_validation(s, protected) or any(a(s) for a in allow) or _plumbing_ok(s, closure, protected):
            continue
        raise Untranslatable("%s: statement outside the subset: %s" % (f.name, ast.dump(s)[:120]))
    if bare != 1 or len(flags) > 1 or not isinstance(_strip(f.body)[-1], ast.Return):
        raise Untranslatable("%s: return structure" % f.name)
    # the closure name may only be bound by its def(s); protected names never (beyond `allow`ed statements)
    names = _bound_names(f)
    ndefs = len([n for n in ast.walk(f) if isinstance(n, ast.FunctionDef) and n.name == closure])
    if names.count(closure) != ndefs:
        raise Untranslatable("%s rebinds %s" % (f.name, closure))
    other_defs = [n.name for n in ast.walk(f) if isinstance(n, (ast.FunctionDef, ast.Lambda)) and n is not f
                  and not (isinstance(n, ast.FunctionDef) and n.name == closure)]
    if other_defs:
        raise Untranslatable("%s defines further functions" % f.name)
    return flags[0] if flags else None


def _flags_def(name, fl):
    if fl is None:
        return "Definition %s : option (bool * bool) := None.\n" % name
    if None in fl:
        raise Untranslatable("%s: Converter(...) without explicit takes_self/takes_field" % name)
    return "Definition %s : option (bool * bool) := Some (%s, %s).\n" % (name, "true" if fl[0] else "false", "true" if fl[1] else "false")


def tr_optional(tree):
    f = _fn(tree, "optional")
    conv = _params(f, 1)[0]
    defs = _inner_defs(f, "optional_converter")
    by_arity = {}
    for d in defs:
        by_arity.setdefault(len(_params(d)), []).append(d)
    if sorted(by_arity) != [1, 3] or any(len(v) != 1 for v in by_arity.values()):
        raise Untranslatable("optional: expected one 1-parameter and one 3-parameter optional_converter")
    out = []
    for k, name in ((3, "t_optional_converter3"), (1, "t_optional_converter1")):
        d = by_arity[k][0]
        w = ConvClosure(_params(d), conv=conv)
        out.append(_closure(d, "Definition %s (call : conv -> list val -> nat -> out) (c : conv) (a : list val) (n : nat) : out" % name, w))
    # which closure is defined: `if isinstance(converter, Converter): <3> else: <1>`
    sel = None
    for s in _strip(f.body):
        if isinstance(s, ast.If) and any(x in s.body for x in defs):
            t = s.test
            pos = isinstance(t, ast.Call) and isinstance(t.func, ast.Name) and t.func.id == "isinstance" and len(t.args) == 2 \
                and isinstance(t.args[0], ast.Name) and t.args[0].id == conv and isinstance(t.args[1], ast.Name) \
                and t.args[1].id == "Converter"
            if not pos or len([x for x in s.body if isinstance(x, ast.FunctionDef)]) != 1 \
                    or len([x for x in s.orelse if isinstance(x, ast.FunctionDef)]) != 1:
                raise Untranslatable("optional: closure selection")
            sel = (len(_params([x for x in s.body if isinstance(x, ast.FunctionDef)][0])),
                   len(_params([x for x in s.orelse if isinstance(x, ast.FunctionDef)][0])))
    if sel is None:
        raise Untranslatable("optional: closures are not selected by isinstance(converter, Converter)")
    sel_if = [x for x in _strip(f.body) if isinstance(x, ast.If) and any(d in x.body for d in defs)]

    def is_conv_test(t):
        return isinstance(t, ast.Call) and isinstance(t.func, ast.Name) and t.func.id == "isinstance" and len(t.args) == 2 \
            and isinstance(t.args[0], ast.Name) and t.args[0].id == conv and isinstance(t.args[1], ast.Name) \
            and t.args[1].id == "Converter" and not t.keywords
    if len(sel_if) != 1 or len(sel_if[0].body) != 1 or len(sel_if[0].orelse) != 1:
        raise Untranslatable("optional: the selecting if contains more than the two closures")
    names = _bound_names(f)
    if names.count(conv) != 1:
        raise Untranslatable("optional rebinds its parameter")
    fl = _outer(f, "optional_converter", {conv}, sel_if, wrap_test=is_conv_test)
    out.append(_flags_def("t_optional_wrap_flags", fl))
    out.append("Definition t_optional_arity_if_converter : nat := %d.\nDefinition t_optional_arity_if_plain : nat := %d.\n" % sel)
    return "\n".join(out)


def tr_default_if_none(tree):
    f = _fn(tree, "default_if_none")
    defs = _inner_defs(f, "default_if_none_converter")
    if len(defs) != 2:
        raise Untranslatable("default_if_none: expected two closures")
    ps = [a.arg for a in f.args.args]
    if len(ps) != 2:
        raise Untranslatable("default_if_none signature")
    default = ps[0]
    # the closure under `if isinstance(default, Factory):` is the factory one
    fac = val = None
    for s in ast.walk(f):
        if isinstance(s, ast.If) and isinstance(s.test, ast.Call) and isinstance(s.test.func, ast.Name) \
                and s.test.func.id == "isinstance" and len(s.test.args) == 2 and isinstance(s.test.args[1], ast.Name) \
                and s.test.args[1].id == "Factory" and isinstance(s.test.args[0], ast.Name) and s.test.args[0].id == default:
            fb = [x for x in s.body if x in defs]
            vb = [x for x in s.orelse if x in defs]
            if len(fb) == 1 and len(vb) == 1:
                fac, val = fb[0], vb[0]
    if fac is None:
        raise Untranslatable("default_if_none: closures are not selected by isinstance(default, Factory)")
    factory = ps[1]
    sel_if = [x for x in _strip(f.body) if isinstance(x, ast.If) and any(d in ast.walk(x) for d in defs)]
    if len(sel_if) != 1:
        raise Untranslatable("default_if_none: selecting if")
    # inside the factory branch: optional validation, then the def; the other branch: the def only
    fb = [x for x in sel_if[0].body if x is not fac]
    if not all(_is_validation(x, {default, factory}) for x in fb) or list(sel_if[0].orelse) != [val]:
        raise Untranslatable("default_if_none: statements beside the closures")

    def rebinds_default(x):
        # if factory is not None: default = Factory(factory)   (both spellings mean CFac)
        return isinstance(x, ast.If) and not x.orelse and len(x.body) == 1 and isinstance(x.test, ast.Compare) \
            and len(x.test.ops) == 1 and isinstance(x.test.ops[0], ast.IsNot) and isinstance(x.test.left, ast.Name) \
            and x.test.left.id == factory and isinstance(x.test.comparators[0], ast.Constant) \
            and x.test.comparators[0].value is None and isinstance(x.body[0], ast.Assign) \
            and len(x.body[0].targets) == 1 and isinstance(x.body[0].targets[0], ast.Name) \
            and x.body[0].targets[0].id == default and isinstance(x.body[0].value, ast.Call) \
            and isinstance(x.body[0].value.func, ast.Name) and x.body[0].value.func.id == "Factory" \
            and len(x.body[0].value.args) == 1 and isinstance(x.body[0].value.args[0], ast.Name) \
            and x.body[0].value.args[0].id == factory and not x.body[0].value.keywords
    nreb = len([x for x in _strip(f.body) if rebinds_default(x)])
    names = _bound_names(f)
    if names.count(default) != 1 + nreb or names.count(factory) != 1:
        raise Untranslatable("default_if_none rebinds its parameters")
    if _outer(f, "default_if_none_converter", {default, factory}, sel_if, allow=(rebinds_default,)) is not None:
        raise Untranslatable("default_if_none returns a Converter")
    out = []
    wf = ConvClosure(_params(fac), default=default, value_default=False)
    out.append(_closure(fac, "Definition t_default_if_none_factory (g : nat) (a : list val) (n : nat) : out", wf))
    wv = ConvClosure(_params(val), default=default, value_default=True)
    out.append(_closure(val, "Definition t_default_if_none_value (d : val) (a : list val) (n : nat) : out", wv))
    return "\n".join(out)


def tr_pipe(tree):
    f = _fn(tree, "pipe")
    if not (f.args.vararg and not f.args.args):
        raise Untranslatable("pipe signature")
    convs = f.args.vararg.arg
    defs = _inner_defs(f, "pipe_converter")
    by_arity = {}
    for d in defs:
        by_arity.setdefault(len(_params(d)), []).append(d)
    if sorted(by_arity) != [1, 3] or any(len(v) != 1 for v in by_arity.values()):
        raise Untranslatable("pipe: expected one 1-parameter and one 3-parameter pipe_converter")
    out = []
    for k, name in ((3, "t_pipe_converter3"), (1, "t_pipe_converter1")):
        d = by_arity[k][0]
        ps = _params(d)
        body = _strip(d.body)
        if len(body) != 2 or not isinstance(body[0], ast.For) or not isinstance(body[1], ast.Return):
            raise Untranslatable("pipe_converter: expected `for ...: val = ...` then `return val`")
        loop, ret = body
        if not (isinstance(loop.target, ast.Name) and isinstance(loop.iter, ast.Name) and loop.iter.id == convs
                and not loop.orelse and len(loop.body) == 1 and isinstance(loop.body[0], ast.Assign)
                and len(loop.body[0].targets) == 1 and isinstance(loop.body[0].targets[0], ast.Name)
                and loop.body[0].targets[0].id == ps[0] and isinstance(ret.value, ast.Name) and ret.value.id == ps[0]):
            raise Untranslatable("pipe_converter loop shape")
        cvar = loop.target.id

        def call(n, ps=ps, cvar=cvar):
            if isinstance(n, ast.Call) and isinstance(n.func, ast.Name) and n.func.id == cvar and not n.keywords \
                    and all(isinstance(a, ast.Name) and a.id in ps for a in n.args):
                return "(call c_ [%s] n_)" % "; ".join(a.id + "_" for a in n.args)
            raise Untranslatable("pipe_converter member call " + ast.dump(n)[:100])

        def expr(n, ps=ps, cvar=cvar):
            if isinstance(n, ast.IfExp):
                t = n.test
                if isinstance(t, ast.Call) and isinstance(t.func, ast.Name) and t.func.id == "isinstance" and len(t.args) == 2 \
                        and isinstance(t.args[0], ast.Name) and t.args[0].id == cvar and isinstance(t.args[1], ast.Name) \
                        and t.args[1].id == "Converter":
                    return "(if is_converter c_ then %s else %s)" % (expr(n.body), expr(n.orelse))
                raise Untranslatable("pipe_converter conditional " + ast.dump(t)[:100])
            return call(n)
        step = expr(loop.body[0].value)
        pat = "[%s]" % "; ".join(p + "_" for p in ps)
        # the loop variable shadows the value parameter inside the step function
        out.append("Definition %s (call : conv -> list val -> nat -> out) (cs : list conv) (a : list val) (n : nat) : out :=\n"
                   "  match a with\n  | %s => pipe_loop (fun c_ %s_ n_ => %s) cs %s_ n\n  | _ => type_error n\n  end.\n"
                   % (name, pat, ps[0], step, ps[0]))
    # return_instance = any(isinstance(c, Converter) for c in converters); if return_instance: <3> else: <1>
    ri = None
    for s in _strip(f.body):
        if isinstance(s, ast.Assign) and len(s.targets) == 1 and isinstance(s.targets[0], ast.Name):
            v = s.value
            if isinstance(v, ast.Call) and isinstance(v.func, ast.Name) and v.func.id in ("any", "all") and len(v.args) == 1 \
                    and isinstance(v.args[0], (ast.GeneratorExp, ast.ListComp)) and len(v.args[0].generators) == 1:
                g = v.args[0]
                gen = g.generators[0]
                e = g.elt
                if isinstance(gen.iter, ast.Name) and gen.iter.id == convs and not gen.ifs and isinstance(gen.target, ast.Name) \
                        and isinstance(e, ast.Call) and isinstance(e.func, ast.Name) and e.func.id == "isinstance" \
                        and len(e.args) == 2 and isinstance(e.args[0], ast.Name) and e.args[0].id == gen.target.id \
                        and isinstance(e.args[1], ast.Name) and e.args[1].id == "Converter":
                    ri = (s.targets[0].id, "existsb" if v.func.id == "any" else "forallb")
    if ri is None:
        raise Untranslatable("pipe: return_instance is not any/all(isinstance(c, Converter) for c in converters)")
    sel = None
    for s in _strip(f.body):
        if isinstance(s, ast.If) and isinstance(s.test, ast.Name) and s.test.id == ri[0] and any(x in s.body for x in defs):
            a_ = [x for x in s.body if isinstance(x, ast.FunctionDef)]
            b_ = [x for x in s.orelse if isinstance(x, ast.FunctionDef)]
            if len(a_) == 1 and len(b_) == 1:
                sel = (len(_params(a_[0])), len(_params(b_[0])))
    if sel is None:
        raise Untranslatable("pipe: closures are not selected by `if return_instance:`")
    sel_if = [x for x in _strip(f.body) if isinstance(x, ast.If) and any(d in x.body for d in defs)]
    ri_assign = [x for x in _strip(f.body) if isinstance(x, ast.Assign) and len(x.targets) == 1
                 and isinstance(x.targets[0], ast.Name) and x.targets[0].id == ri[0]]
    if len(sel_if) != 1 or len(sel_if[0].body) != 1 or len(sel_if[0].orelse) != 1 or len(ri_assign) != 1:
        raise Untranslatable("pipe: selecting if / return_instance assignment")
    names = _bound_names(f)
    if names.count(convs) != 1 or names.count(ri[0]) != 1:
        raise Untranslatable("pipe rebinds converters / return_instance")
    fl = _outer(f, "pipe_converter", {convs, ri[0]}, sel_if + ri_assign,
                wrap_test=lambda t: isinstance(t, ast.Name) and t.id == ri[0])
    out.append(_flags_def("t_pipe_wrap_flags", fl))
    out.append("Definition t_pipe_return_instance (cs : list conv) : bool := %s is_converter cs.\n"
               "Definition t_pipe_arity_if_instance : nat := %d.\nDefinition t_pipe_arity_if_plain : nat := %d.\n"
               % (ri[1], sel[0], sel[1]))
    return "\n".join(out)


# --------------------------------------------------------------------------------------
# cmp_using body


class CmpCls(Walker):
    FUNCS = ["eq", "lt", "le", "gt", "ge"]

    def __init__(self, params):
        self.params = params
        self.ints, self.bools = set(), set()
        self.body = None
        self.type_ = None

    def save(self):
        return (set(self.ints), set(self.bools), self.body, self.type_)

    def restore(self, st):
        self.ints, self.bools, self.body, self.type_ = set(st[0]), set(st[1]), st[2], st[3]

    def state_vars(self):
        vs = sorted(x + "_" for x in self.ints | self.bools)
        if self.body is not None:
            vs.append("body_")
        if self.type_ is not None:
            vs += ["reqs_", "total_"]
        return vs

    def if_(self, s, rest, tail):
        """an `if` without return/raise in its branches only updates the state: join afterwards
        (no duplication of the continuation)"""
        def exits(ss):
            return any(isinstance(x, (ast.Return, ast.Raise)) for st in ss for x in ast.walk(st))
        if exits(s.body) or exits(s.orelse):
            return Walker.if_(self, s, rest, tail)
        vs = self.state_vars()
        if not vs:
            raise Untranslatable("cmp_using: if before any state")
        tup = vs[0] if len(vs) == 1 else "(%s)" % ", ".join(vs)
        pat = vs[0] if len(vs) == 1 else "'(%s)" % ", ".join(vs)
        c = self.cond(s.test)
        saved = self.save()
        a = self.stmts(list(s.body), tup)
        if self.save() != saved:
            raise Untranslatable("cmp_using: a branch introduces a new variable")
        self.restore(saved)
        b_ = self.stmts(list(s.orelse), tup)
        if self.save() != saved:
            raise Untranslatable("cmp_using: a branch introduces a new variable")
        self.restore(saved)
        return "(let %s := (if %s then %s else %s) in\n   %s)" % (pat, c, a, b_, self.stmts(rest, tail))

    def num(self, n):
        if isinstance(n, ast.Constant) and isinstance(n.value, int) and not isinstance(n.value, bool) and 0 <= n.value < 100:
            return str(n.value)
        if isinstance(n, ast.Name) and n.id in self.ints:
            return n.id + "_"
        raise Untranslatable("cmp_using number " + ast.dump(n)[:80])

    def leaf(self, n):
        if isinstance(n, ast.Compare) and len(n.ops) == 1 and isinstance(n.ops[0], (ast.Is, ast.IsNot)) \
                and isinstance(n.comparators[0], ast.Constant) and n.comparators[0].value is None \
                and isinstance(n.left, ast.Name) and n.left.id in self.FUNCS:
            t = "(negb given_%s)" % n.left.id
            return t if isinstance(n.ops[0], ast.Is) else "given_%s" % n.left.id
        if isinstance(n, ast.Name) and n.id in self.bools:
            return n.id + "_"
        if isinstance(n, ast.Name) and n.id in self.ints:          # truthiness of the counter
            return "(negb (Nat.eqb %s_ 0))" % n.id
        if isinstance(n, ast.Name) and n.id == "require_same_type":
            return "require_same_type"
        if isinstance(n, ast.Constant) and isinstance(n.value, bool):
            return "true" if n.value else "false"
        if isinstance(n, ast.Compare) and all(isinstance(o, (ast.Lt, ast.LtE, ast.Gt, ast.GtE, ast.Eq, ast.NotEq)) for o in n.ops):
            terms = [n.left] + list(n.comparators)
            parts = []
            for l, o, r in zip(terms, n.ops, terms[1:]):
                a, c = self.num(l), self.num(r)
                parts.append({ast.Lt: "(Nat.ltb %s %s)" % (a, c), ast.LtE: "(Nat.leb %s %s)" % (a, c),
                              ast.Gt: "(Nat.ltb %s %s)" % (c, a), ast.GtE: "(Nat.leb %s %s)" % (c, a),
                              ast.Eq: "(Nat.eqb %s %s)" % (a, c), ast.NotEq: "(negb (Nat.eqb %s %s))" % (a, c)}[type(o)])
            t = parts[-1]
            for p in reversed(parts[:-1]):
                t = "(andb %s %s)" % (p, t)
            return t
        raise Untranslatable("cmp_using condition " + ast.dump(n)[:120])

    def cond(self, n):
        return self.boolop(n, self.leaf)

    def entry(self, v):
        """value stored in the class body"""
        if isinstance(v, ast.Call) and isinstance(v.func, ast.Name) and v.func.id == "_make_operator" and len(v.args) == 2 \
                and isinstance(v.args[0], ast.Constant) and isinstance(v.args[0].value, str) \
                and isinstance(v.args[1], ast.Name) and v.args[1].id in self.FUNCS and not v.keywords:
            return "(BOp %s F_%s)" % (_q(v.args[0].value), v.args[1].id)
        if isinstance(v, ast.Name) and v.id in ("__ne__", "_is_comparable_to"):
            return "(BName %s)" % _q(v.id)
        if isinstance(v, ast.List) and not v.elts:
            return "BEmptyList"
        # values we give no meaning to: literals, and calls of a module-level helper without arguments
        if isinstance(v, ast.List) and all(isinstance(e, ast.Constant) for e in v.elts):
            return "BOpaque"
        if isinstance(v, ast.Constant):
            return "BOpaque"
        if isinstance(v, ast.Call) and isinstance(v.func, ast.Name) and not v.args and not v.keywords:
            return "BOpaque"
        raise Untranslatable("cmp_using: class body value " + ast.dump(v)[:100])

    def ret(self, v):
        if isinstance(v, ast.Name) and v.id == self.type_:
            return "(CClass body_ reqs_ total_)"
        raise Untranslatable("cmp_using returns " + (ast.dump(v)[:80] if v is not None else "None"))

    def raise_(self, name):
        return "(CRaise %s)" % _q(name)

    def other(self, s, rest, tail):
        k = lambda: self.stmts(rest, tail)      # noqa: E731
        if isinstance(s, ast.Assign) and len(s.targets) == 1:
            t, v = s.targets[0], s.value
            if isinstance(t, ast.Name):
                # body = {...}
                if isinstance(v, ast.Dict) and self.body is None and all(isinstance(x, ast.Constant) and isinstance(x.value, str) for x in v.keys):
                    self.body = t.id
                    items = "; ".join("(%s, %s)" % (_q(kk.value), self.entry(vv)) for kk, vv in zip(v.keys, v.values))
                    return "(let body_ := [%s] in %s)" % (items, k())
                if isinstance(v, ast.Constant) and isinstance(v.value, bool):
                    self.bools.add(t.id)
                    return "(let %s_ := %s in %s)" % (t.id, "true" if v.value else "false", k())
                if isinstance(v, ast.Constant) and isinstance(v.value, int) and 0 <= v.value < 100:
                    self.ints.add(t.id)
                    return "(let %s_ := %d in %s)" % (t.id, v.value, k())
                # type_ = types.new_class(class_name, (object,), {}, lambda ns: ns.update(body))
                if isinstance(v, ast.Call) and isinstance(v.func, ast.Attribute) and v.func.attr == "new_class" and self.body \
                        and len(v.args) == 4 and isinstance(v.args[3], ast.Lambda):
                    lam = v.args[3]
                    b = lam.body
                    okl = isinstance(b, ast.Call) and isinstance(b.func, ast.Attribute) and b.func.attr == "update" \
                        and isinstance(b.func.value, ast.Name) and b.func.value.id == lam.args.args[0].arg \
                        and len(b.args) == 1 and isinstance(b.args[0], ast.Name) and b.args[0].id == self.body
                    bases = v.args[1]
                    okb = isinstance(bases, ast.Tuple) and len(bases.elts) == 1 and isinstance(bases.elts[0], ast.Name) \
                        and bases.elts[0].id == "object"
                    okk = isinstance(v.args[2], ast.Dict) and not v.args[2].keys
                    if not (okl and okb and okk) or self.type_ is not None:
                        raise Untranslatable("cmp_using: new_class call shape")
                    self.type_ = t.id
                    # from here on the body dict is frozen into the class; requirements start as the body says
                    return "(let reqs_ := body_requirements body_ in let total_ := false in %s)" % k()
                # type_ = functools.total_ordering(type_)
                if isinstance(v, ast.Call) and isinstance(v.func, ast.Attribute) and v.func.attr == "total_ordering" \
                        and len(v.args) == 1 and isinstance(v.args[0], ast.Name) and v.args[0].id == self.type_ and t.id == self.type_:
                    return "(let total_ := true in %s)" % k()
            # body["__x__"] = ...
            if isinstance(t, ast.Subscript) and isinstance(t.value, ast.Name) and t.value.id == self.body and self.type_ is None \
                    and isinstance(t.slice, ast.Constant) and isinstance(t.slice.value, str):
                return "(let body_ := body_set %s %s body_ in %s)" % (_q(t.slice.value), self.entry(v), k())
        if isinstance(s, ast.AugAssign) and isinstance(s.op, ast.Add) and isinstance(s.target, ast.Name) and s.target.id in self.ints:
            return "(let %s_ := Nat.add %s_ %s in %s)" % (s.target.id, s.target.id, self.num(s.value), k())
        # type_._requirements.append(_check_same_type)
        if isinstance(s, ast.Expr) and isinstance(s.value, ast.Call) and isinstance(s.value.func, ast.Attribute) \
                and s.value.func.attr == "append" and isinstance(s.value.func.value, ast.Attribute) \
                and s.value.func.value.attr == "_requirements" and isinstance(s.value.func.value.value, ast.Name) \
                and s.value.func.value.value.id == self.type_ and len(s.value.args) == 1 and isinstance(s.value.args[0], ast.Name):
            return "(let reqs_ := (reqs_ ++ [%s])%%list in %s)" % (_q(s.value.args[0].id), k())
        raise Untranslatable("cmp_using statement " + ast.dump(s)[:160])


def tr_cmp_using(tree):
    f = _fn(tree, "cmp_using")
    a = f.args
    names = [x.arg for x in a.args]
    if names[:6] != ["eq", "lt", "le", "gt", "ge", "require_same_type"] or a.vararg or a.kwarg or a.kwonlyargs:
        raise Untranslatable("cmp_using signature")
    dflt = dict(zip(names[len(names) - len(a.defaults):], a.defaults))
    for p in CmpCls.FUNCS:
        if not (p in dflt and isinstance(dflt[p], ast.Constant) and dflt[p].value is None):
            raise Untranslatable("cmp_using: default of %s is not None" % p)
    rd = dflt.get("require_same_type")
    if not (isinstance(rd, ast.Constant) and isinstance(rd.value, bool)):
        raise Untranslatable("cmp_using: default of require_same_type")
    _must_end_in_return(f)
    w = CmpCls(names)
    body = w.stmts(_strip(f.body), '(CRaise "fell off")')
    return ("Definition t_cmp_using (given_eq given_lt given_le given_gt given_ge require_same_type : bool) : cres :=\n  %s.\n\n"
            "Definition t_require_same_type_default : bool := %s.\n" % (body, "true" if rd.value else "false"))


# --------------------------------------------------------------------------------------
# _attrs_to_init_script: which object the generated __init__ calls for a field's converter


def tr_init_wrap(tree):
    f = _fn(tree, "_attrs_to_init_script")
    cands = []
    for n in ast.walk(f):
        if isinstance(n, ast.If) and len(n.body) == 1 and len(n.orelse) == 1 \
                and all(isinstance(x, ast.Assign) and len(x.targets) == 1 and isinstance(x.targets[0], ast.Name)
                        for x in (n.body[0], n.orelse[0])) \
                and n.body[0].targets[0].id == n.orelse[0].targets[0].id == "converter":
            cands.append(n)
    if len(cands) != 1:
        raise Untranslatable("_attrs_to_init_script: expected exactly one `if ...: converter = ... else: converter = ...`")
    node = cands[0]
    if _bound_names(f).count("converter") != 2:
        raise Untranslatable("_attrs_to_init_script: `converter` is assigned elsewhere too")
    base = [None]

    def fld(n):
        """<a>.converter"""
        if isinstance(n, ast.Attribute) and n.attr == "converter" and isinstance(n.value, ast.Name):
            if base[0] not in (None, n.value.id):
                raise Untranslatable("init wrap: two different attributes")
            base[0] = n.value.id
            return True
        return False

    def leaf(n):
        if isinstance(n, ast.Compare) and len(n.ops) == 1 and isinstance(n.ops[0], (ast.Is, ast.IsNot)) \
                and isinstance(n.comparators[0], ast.Constant) and n.comparators[0].value is None and fld(n.left):
            return "(negb has)" if isinstance(n.ops[0], ast.Is) else "has"
        if isinstance(n, ast.Call) and isinstance(n.func, ast.Name) and n.func.id == "isinstance" and len(n.args) == 2 \
                and fld(n.args[0]) and isinstance(n.args[1], ast.Name) and n.args[1].id == "Converter":
            return "isconv"
        raise Untranslatable("init wrap condition " + ast.dump(n)[:100])

    def value(n):
        if fld(n):
            return "WSame"
        if isinstance(n, ast.Call) and isinstance(n.func, ast.Name) and n.func.id == "Converter" and len(n.args) == 1 \
                and not n.keywords and fld(n.args[0]):
            return "WNew"
        raise Untranslatable("init wrap value " + ast.dump(n)[:100])
    c = Walker().boolop(node.test, leaf)
    out = ("Definition t_init_wrap (has isconv : bool) : wrapres :=\n  if %s then %s else %s.\n"
           % (c, value(node.body[0].value), value(node.orelse[0].value)))
    # Converter(x) without keywords: the defaults of takes_self / takes_field
    cls = [n for n in tree.body if isinstance(n, ast.ClassDef) and n.name == "Converter"]
    if len(cls) != 1:
        raise Untranslatable("class Converter not found")
    init = _fn(cls[0], "__init__")
    kws = {a.arg: d for a, d in zip(init.args.kwonlyargs, init.args.kw_defaults)}
    flags = []
    for k in ("takes_self", "takes_field"):
        d = kws.get(k)
        if not (isinstance(d, ast.Constant) and isinstance(d.value, bool)):
            raise Untranslatable("Converter.__init__: default of " + k)
        flags.append("true" if d.value else "false")
    out += "Definition t_converter_default_flags : bool * bool := (%s, %s).\n" % tuple(flags)
    return out


# --------------------------------------------------------------------------------------

PRELUDE = '''(** GENERATED by harness/translate_c19.py from src/attr/{_cmp,filters,converters,_make}.py - do not edit. *)
From Coq Require Import List Bool Arith String ZArith.
Import ListNotations.
From Attrs Require Import C19.Model.
Open Scope string_scope.

(** cmp: a traced call of a supplied function; an exception ends the method *)
Definition tri_is_ni (t : tri) : bool := match t with NI => true | _ => false end.
Definition call_fn {V : Type} (o : cop) (f : V -> V -> tri) (x y : V)
  (k : tri -> tri * list (cop * V * V)) : tri * list (cop * V * V) :=
  match f x y with
  | EX => (EX, [(o, x, y)])
  | r => let '(v, t) := k r in (v, (o, x, y) :: t)
  end.

(** cmp_using body: what ends up in the class *)
Inductive fparam := F_eq | F_lt | F_le | F_gt | F_ge.
Inductive bentry := BOp (name : string) (f : fparam) | BName (n : string) | BEmptyList | BOpaque.
Inductive cres := CClass (body : list (string * bentry)) (reqs : list string) (total : bool) | CRaise (exc : string).
Fixpoint body_set (k : string) (v : bentry) (b : list (string * bentry)) : list (string * bentry) :=
  match b with
  | [] => [(k, v)]
  | (k', v') :: r => if String.eqb k k' then (k, v) :: r else (k', v') :: body_set k v r
  end.
Fixpoint body_get (k : string) (b : list (string * bentry)) : option bentry :=
  match b with
  | [] => None
  | (k', v') :: r => if String.eqb k k' then Some v' else body_get k r
  end.
(** the class attribute [_requirements] starts as the (shared) list object stored in the body *)
Definition body_requirements (b : list (string * bentry)) : list string :=
  match body_get "_requirements" b with Some BEmptyList => [] | _ => ["?"] end.

(** filters: an item of [what] with the fact whether its class is EXACTLY type / str / Attribute
    (false: an instance of a subclass, e.g. an Enum class, a str-subclass name) *)
Record titem := { ti : witem; ti_exact : bool }.
Inductive kind := KType | KName | KAttr.
Definition ti_isinstance (x : titem) (k : kind) : bool :=
  match ti x, k with
  | WType _, KType | WName _, KName | WAttr _, KAttr => true
  | _, _ => false
  end.
Definition ti_exact_class (x : titem) (k : kind) : bool := ti_isinstance x k && ti_exact x.
Definition witem_eqb (a b : witem) : bool :=
  match a, b with
  | WType x, WType y => Nat.eqb x y
  | WName x, WName y => String.eqb x y
  | WAttr x, WAttr y => attr_eqb x y
  | _, _ => false
  end.
Definition t_mem (x : witem) (s : list titem) : bool := existsb (fun y => witem_eqb x (ti y)) s.
(** the probed Attribute with the one further field the filters could read: its alias (arbitrary) *)
Record tattr := { ta : attribute; ta_alias : string }.

(** the object the generated __init__ works with: the field's converter itself, or a NEW
    [Converter(a.converter)] around exactly that object *)
Inductive wrapres := WNew | WSame.

(** to_bool *)
Definition tb_is_str (x : tb_in) : bool := match x with TStr _ => true | _ => false end.
Definition tb_lower (x : tb_in) : option tb_in := match x with TStr s => Some (TStr (lower s)) | _ => None end.
'''

FUNCTIONS = [
    ("_cmp._make_operator.method", "_cmp", tr_make_operator),
    ("_cmp._is_comparable_to", "_cmp", tr_is_comparable_to),
    ("_cmp._check_same_type", "_cmp", tr_check_same_type),
    ("_cmp.cmp_using", "_cmp", tr_cmp_using),
    ("filters._split_what", "filters", tr_split_what),
    ("filters.include.include_", "filters", lambda t: tr_filter(t, "include", "t_include")),
    ("filters.exclude.exclude_", "filters", lambda t: tr_filter(t, "exclude", "t_exclude")),
    ("converters.to_bool", "converters", tr_to_bool),
    ("converters.optional.optional_converter", "converters", tr_optional),
    ("converters.default_if_none.default_if_none_converter", "converters", tr_default_if_none),
    ("_make.pipe.pipe_converter", "_make", tr_pipe),
    ("_make._attrs_to_init_script converter wrapping", "_make", tr_init_wrap),
]


def regenerate(verbose=False):
    src = os.path.join(vlib.REPO, "src", "attr")
    status, out, trees = {}, [], {}
    for label, mod, fn in FUNCTIONS:
        try:
            if mod not in trees:
                trees[mod] = ast.parse(open(os.path.join(src, mod + ".py")).read())
            out.append(fn(trees[mod]))
            status[label] = "translated"
        except (Untranslatable, SyntaxError, OSError, IndexError, AttributeError) as e:
            status[label] = "untranslatable: %s" % e
    ok = all(v == "translated" for v in status.values())
    text = PRELUDE + "\n" + "\n".join(out) + "\nDefinition c19_fully_translated : bool := %s.\n" % ("true" if ok else "false")
    path = os.path.join(vlib.THEORIES, "Gen", "C19_tie.v")
    os.makedirs(os.path.dirname(path), exist_ok=True)
    old = open(path).read() if os.path.exists(path) else None
    if old != text:
        with open(path, "w") as fh:
            fh.write(text)
    if verbose:
        for k, v in status.items():
            print("translate %s: %s" % (k, v))
    return status


if __name__ == "__main__":
    regenerate(verbose=True)
