"""C15 - contradictory specifications are rejected at class-definition time with the documented
exception class, a failed decoration leaves the class untouched, everything else defines.

Real-side driver: every case is ONE class statement (decorator expression, base list, body with
attr.ib()/field() calls, @x.default decorators, annotations, own dunders) rendered to source,
exec'd in a fresh module, observed (phase + exact exception class, or success; identity snapshot
of vars(cls)/__bases__ before vs after the decorator call), and encoded together with the
specification as a Gallina literal for `check_case` (coq/theories/C15/Corr.v).

Two case layers (pattern of harness/c10.py):
  * layer=model     observation == faithful model `build` (and the class was written to exactly
                    when the model says so); also demands the property's postcondition unless the
                    model itself says the specification lies in the area of a row outside the
                    property's list (`flagged`).  Never matched by a known finding.
  * layer=property  emitted for specifications in the area of such a row (python replica of the four
                    facts); the check is the property's postcondition on the observation alone; its
                    signature is what known_findings.json matches.
"""
from __future__ import annotations

import itertools
import json
import random
import types

import attr
import attrs
from attr import setters
from attr._make import _frozen_setattrs
from attr.exceptions import DefaultAlreadySetError, UnannotatedAttributeError

from . import vlib
from .driver import Case
from .vlib import b, lst, q

PROP = "C15"
HEADER = "From Attrs Require Import Base Core.Attr Core.Init C07.Model C15.Model C15.Table C15.Corr."
CASE_TYPE = "case"
CHECK = "check_case"
MODEL = "model_of"
RULE = ("one class statement per case, rendered to source and exec'd in a fresh module: exhaustive "
        "lattices around every rule of the table (field-call rules: cmp/eq/order x hash, default x "
        "factory x @x.default, pairs of offending calls; class rules: cmp/eq/order, annotation x "
        "type= x auto_attribs x these, mandatory-after-default over own field sequences x base "
        "classes (mandatory/defaulted/kw_only/init=False fields, two bases in both orders, a chain) "
        "x field transformers (reverse, rotate, append mandatory/defaulted, kw_only, drop) x class "
        "kw_only, every kind of rejection below every kind of base (generated hook-running / frozen "
        "__setattr__, slots, fields), hash x unsafe_hash x cache_hash x eq x frozen x init x own __eq__/__hash__/__init__ "
        "x auto_detect x exception/frozen base, class on_setattr x field on_setattr x validator x "
        "frozen x frozen/hooked bases x own __setattr__ (on_setattr ranges over None, NO_OP, single hooks, "
        "non-empty lists and the EMPTY collections [], (), setters.pipe() at both levels) x auto_detect x init=False fields, str x repr "
        "x own __repr__, equal __init__ aliases own/inherited/transformer) each crossed with the front "
        "end (attr.s, define, frozen, make_class) and slots; plus seeded random specifications over "
        "the whole option space and the class specifications of the shared generator used by the "
        "initializer checks (harness/initgen.py).  Observed: phase (decorator expression / body / "
        "decorator application) and exact exception class, or success; vars(cls) names+identities, "
        "__bases__, __annotations__ before vs after the decorator call.  distinct = distinct "
        "specifications; non-trivial = some table row applies or a base class / own dunder / hook / "
        "transformer is involved")
EXTRA_TRUSTED = ["CPython's evaluation order of a decorated class statement (decorator expressions, "
                 "then the body, then the decorators innermost first) and type()'s insertion of "
                 "__hash__ = None for a body that defines __eq__",
                 "the base classes of a case are built by the real library; their __mro__ and "
                 "__attrs_attrs__ are inputs of the model (C07 proves how they are collected)"]
EXTRA_TRUSTED += ["harness/translate_c15.py and harness/translate.py: the fail-closed translators from the Python "
                  "subset of the definition-time checks to Gallina (Gen/C15_checks.v, Gen/Decide.v) and the "
                  "injections of model inputs into Python values in C15/Tie.v (key functions / a callable "
                  "factory are the only callable objects; an empty set is a falsy value)"]
ASSUMPTIONS = ["user callables (validators, converters, hooks, factories, transformers) do not raise "
               "at definition time and __attrs_init_subclass__ is absent",
               "aliases and names are valid, distinct-from-self identifiers; base classes are valid "
               "attrs classes or plain classes; flag arguments other than hash/unsafe_hash are "
               "None/True/False"]

XVALUES = [1, 0, "yes", 2.5]


def _regenerate():
    """Both generated files Tie.v imports; statuses merged so that a shape outside either translator's
    subset makes the tie 'unavailable' instead of a build failure."""
    from . import translate, translate_c15
    st = {("Decide: " + k): v for k, v in translate.regenerate_all().items()}
    st.update(translate_c15.regenerate())
    return st


def pre_build():
    _regenerate()


def translated_tie():
    return _regenerate(), "theories/C15/Tie.vo"


# ------------------------------------------------------------------------------------------------
# helpers the rendered sources use


def _v(inst, a, value):
    return None


def _c(value):
    return value


def _h(inst, a, value):
    return value


def _g():
    return 0


OS_OBJ = {
    "NO_OP": lambda: setters.NO_OP, "validate": lambda: setters.validate,
    "convert": lambda: setters.convert, "frozen": lambda: setters.frozen, "user": lambda: _h,
    "list": lambda: [setters.convert, _h], "list_cv": lambda: [setters.convert, setters.validate],
    # EMPTY hook collections: still "hooks were requested" (pipe() of nothing is a function, not NO_OP)
    "empty_list": lambda: [], "empty_tuple": lambda: (), "empty_pipe": lambda: setters.pipe(),
}
OS_HOOKS = {
    "validate": ["HValidate"], "convert": ["HConvert"], "frozen": ["HFrozen"],
    "user": ['(HUser "h")'], "list": ["HConvert", '(HUser "h")'], "list_cv": ["HConvert", "HValidate"],
    "empty_list": [], "empty_tuple": [], "empty_pipe": [],
}
EMPTY_OS = ["empty_list", "empty_tuple", "empty_pipe"]


def enc_field_os(tag):
    if tag is None:
        return "OsNone"
    if tag == "NO_OP":
        return "OsNoOp"
    return "(OsPipe %s)" % lst(OS_HOOKS[tag])


def enc_cls_os(tag):
    if tag is None:
        return "COsNone"
    if tag == "NO_OP":
        return "COsNoOp"
    hs = OS_HOOKS[tag]
    if tag in ("validate", "convert", "frozen", "user"):
        return "(COsSingle %s)" % hs[0]
    return "(COsPipe %s)" % lst(hs)


def _added_attribute(kind):
    """The hand-made Attribute a transformer appends."""
    return attr.Attribute(name="t_", default=(attr.NOTHING if kind == "M" else 5), validator=None, repr=True,
                          cmp=None, hash=None, init=True, inherited=False)


def make_ft(tag):
    if tag is None:
        return None
    if tag == "id":
        return lambda cls, fs: list(fs)
    if tag == "rev":
        return lambda cls, fs: list(reversed(fs))
    if tag == "rot":
        return lambda cls, fs: list(fs[1:]) + list(fs[:1])
    if tag == "dropfirst":
        return lambda cls, fs: list(fs[1:])
    if tag == "droplast":
        return lambda cls, fs: list(fs[:-1])
    if tag == "kwonly":
        return lambda cls, fs: [f.evolve(kw_only=True) for f in fs]
    if tag in ("addM", "addD"):
        return lambda cls, fs: list(fs) + [_added_attribute(tag[-1])]
    raise ValueError(tag)


def enc_ft(tag):
    if tag is None:
        return "None"
    simple = {"id": "TId", "rev": "TRev", "rot": "TRot", "dropfirst": "TDropFirst",
              "droplast": "TDropLast", "kwonly": "TKwOnly"}
    if tag in simple:
        return "(Some %s)" % simple[tag]
    dk = "DNothing" if tag == "addM" else "DValue"
    return '(Some (TAdd "t_" (A "t_" %s true false false OsNone None false false)))' % dk


# ------------------------------------------------------------------------------------------------
# base classes (always valid); each is defined afresh inside the module of the case

BASES = {
    "M": "@attr.s\nclass B_M:\n    bm = attr.ib()\n",
    "D": "@attr.s\nclass B_D:\n    bd = attr.ib(default=1)\n",
    "Dk": "@attr.s\nclass B_Dk:\n    bk = attr.ib(default=1, kw_only=True)\n",
    "Di": "@attr.s\nclass B_Di:\n    bi = attr.ib(default=1, init=False)\n",
    "MD": "@attr.s\nclass B_M0:\n    bm = attr.ib()\n@attr.s\nclass B_MD(B_M0):\n    bd = attr.ib(default=1)\n",
    "Mx": "@attr.s\nclass B_Mx:\n    x = attr.ib()\n",
    "Dx": "@attr.s\nclass B_Dx:\n    x = attr.ib(default=1)\n",
    "Fz": "@attr.s(frozen=True)\nclass B_Fz:\n    bf = attr.ib(default=1)\n",
    "Fz0": "@attr.s(frozen=True)\nclass B_Fz0:\n    pass\n",
    "FzD": "@attrs.frozen\nclass B_FzD:\n    bf: int = 1\n",
    "FzSub": "@attr.s(frozen=True)\nclass B_Fz1:\n    bf = attr.ib(default=1)\nclass B_FzSub(B_Fz1):\n    pass\n",
    "H": "@attr.s\nclass B_H:\n    bh = attr.ib(default=1, on_setattr=setters.validate)\n",
    "Hn": "@attr.s\nclass B_Hn:\n    bn = attr.ib(default=1, on_setattr=setters.NO_OP)\n",
    "Hc": "@attr.s(on_setattr=_h)\nclass B_Hc:\n    bc = attr.ib(default=1)\n",
    "He": "@attr.s\nclass B_He:\n    be = attr.ib(default=1, on_setattr=[])\n",
    "Hce": "@attr.s(on_setattr=[])\nclass B_Hce:\n    bc = attr.ib(default=1)\n",
    "Al": "@attr.s\nclass B_Al:\n    _x = attr.ib(default=1)\n",
    "V": "@attr.s\nclass B_V:\n    bv = attr.ib(default=1, validator=_v)\n",
    "Dv": "@attrs.define(slots=False)\nclass B_Dv:\n    bv: int = attrs.field(default=1, validator=_v)\n",
    "DvS": "@attrs.define\nclass B_DvS:\n    bv: int = attrs.field(default=1, validator=_v)\n",
    "Sl": "@attr.s(slots=True)\nclass B_Sl:\n    bs = attr.ib()\n",
    "SlD": "@attrs.define\nclass B_SlD:\n    bs: int = 1\n",
    "P": "class B_P:\n    pass\n",
    "Ps": "class B_Ps:\n    def __setattr__(self, n, v):\n        object.__setattr__(self, n, v)\n",
    "Exc": None,
    "ExcA": "@attr.s(auto_exc=True)\nclass B_ExcA(Exception):\n    be = attr.ib(default=1)\n",
}


def base_name(key):
    return "Exception" if key == "Exc" else "B_" + key


# ------------------------------------------------------------------------------------------------
# specifications

FIELD_DEFAULTS = {"plain": False, "default": None, "factory": None, "second": False, "init": True,
                  "kw_only": False, "annot": False, "type": False, "hash": "N", "cmp": "N", "eq": "N",
                  "order": "N", "os": None, "alias": None, "val": False, "conv": False}


def mkfield(name, **kw):
    f = dict(FIELD_DEFAULTS)
    f["name"] = name
    f.update(kw)
    return f


def mkspec(api="attr.s", kw=None, fields=(), bases=(), own=(), these=False):
    return {"api": api, "kw": dict(kw or {}), "fields": [dict(f) for f in fields],
            "bases": list(bases), "own": sorted(own), "these": bool(these)}


def spec_key(spec):
    return json.dumps(spec, sort_keys=True)


def _flagval(v, xi=0):
    return XVALUES[xi % len(XVALUES)] if v == "X" else v


def field_kwargs(f, xi=0):
    kw = {}
    if f["default"] == "value":
        kw["default"] = 5
    elif f["default"] == "factoryobj":
        kw["default"] = attr.Factory(_g)
    if f["factory"] == "callable":
        kw["factory"] = _g
    elif f["factory"] == "bad":
        kw["factory"] = 7
    if not f["init"]:
        kw["init"] = False
    if f["kw_only"]:
        kw["kw_only"] = True
    if f["type"]:
        kw["type"] = int
    if f["hash"] != "N":
        kw["hash"] = {"T": True, "F": False, "X": XVALUES[xi % len(XVALUES)]}[f["hash"]]
    for k in ("cmp", "eq", "order"):
        if f[k] != "N":
            kw[k] = {"T": True, "F": False, "K": str}[f[k]]
    if f["os"] is not None:
        kw["on_setattr"] = OS_OBJ[f["os"]]()
    if f["alias"] is not None:
        kw["alias"] = f["alias"]
    if f["val"]:
        kw["validator"] = _v
    if f["conv"]:
        kw["converter"] = _c
    return kw


def deco_kwargs(spec):
    kw = {}
    xi = len(spec["fields"])
    for k, v in spec["kw"].items():
        if k == "on_setattr":
            kw[k] = None if v is None else OS_OBJ[v]()
        elif k == "field_transformer":
            kw[k] = make_ft(v)
        elif k in ("hash", "unsafe_hash"):
            kw[k] = _flagval(v, xi)
            xi += 1
        else:
            kw[k] = v
    return kw


OWN_SRC = {
    "setattr": "    def __setattr__(self, n, v):\n        object.__setattr__(self, n, v)\n",
    "init": "    def __init__(self, *a, **k):\n        pass\n",
    "repr": "    def __repr__(self):\n        return 'own'\n",
    "eq": "    def __eq__(self, other):\n        return self is other\n",
    "ne": "    def __ne__(self, other):\n        return self is not other\n",
    "hash": "    def __hash__(self):\n        return 1\n",
}


def _own_body_dict(own):
    ns = {}
    exec("class _T:\n" + "".join(OWN_SRC[o] for o in own) + "    pass\n", ns)
    return {("__%s__" % o): ns["_T"].__dict__["__%s__" % o] for o in own}


def render(spec):
    """Source of the class statement (the base classes' sources come first)."""
    api = spec["api"]
    use_these = spec["these"] or api == "make_class"
    ctor = "_ib"
    out = []
    for key in spec["bases"]:
        if BASES[key]:
            out.append(BASES[key])
    out.append("_flag('bases')\n")
    bases = ", ".join(base_name(k) for k in spec["bases"])
    body = ["    _flag('body')\n"]
    pre = []
    if use_these:
        pre.append("_these = {}\n")
    for i, f in enumerate(spec["fields"]):
        n = f["name"]
        if f["plain"]:
            val = {None: "", "value": " = 5", "factoryobj": " = attr.Factory(_g)"}[f["default"]]
            body.append("    %s: int%s\n" % (n, val))
            continue
        if use_these:
            pre.append("_these[%r] = %s(**_FA[%d])\n" % (n, ctor, i))
            if f["second"]:
                pre.append("@_these[%r].default\ndef _%s_dflt(self):\n    return 0\n" % (n, n.strip("_") or "u"))
            if f["annot"]:
                body.append("    %s: int\n" % n)
        else:
            body.append("    %s%s = %s(**_FA[%d])\n" % (n, ": int" if f["annot"] else "", ctor, i))
            if f["second"]:
                body.append("    @%s.default\n    def _%s_dflt(self):\n        return 0\n" % (n, n.strip("_") or "u"))
    for o in spec["own"]:
        body.append(OWN_SRC[o])
    if use_these:
        pre.append("_flag('these')\n")
    out.extend(pre)
    if api == "make_class":
        out.append("C = attr.make_class('C', _these, %s**_KW)\n"
                   % (("bases=(%s,), " % bases) if bases else ""))
    else:
        out.append("@_deco(%s**_KW)\n@_snap\nclass C%s:\n%s"
                   % ("these=_these, " if use_these else "", "(%s)" % bases if bases else "", "".join(body)))
    return "".join(out)


_counter = [0]


class Snap:
    __slots__ = ("cls", "before", "bases", "anns", "name", "defs")

    def take(self, cls):
        self.cls = cls
        self.before = dict(vars(cls))
        self.bases = cls.__bases__
        self.anns = dict(cls.__dict__.get("__annotations__", {}))
        self.name = (cls.__name__, cls.__qualname__, cls.__module__)
        # the field definitions in the body are part of "the class as it was": their own state (every slot,
        # by identity) must survive a rejected decoration, or a corrected retry sees a different class
        self.defs = {k: self._ca_state(v) for k, v in self.before.items() if type(v).__name__ == "_CountingAttr"}

    @staticmethod
    def _ca_state(ca):
        miss = Snap
        return tuple((sl, getattr(ca, sl, miss)) for sl in type(ca).__slots__)

    def untouched(self):
        cls = self.cls
        after = dict(vars(cls))
        for k, st in self.defs.items():
            now = self._ca_state(self.before[k])
            if len(now) != len(st) or any(a[1] is not b_[1] and a[1] != b_[1] for a, b_ in zip(now, st)):
                return False
        if list(after) != list(self.before):
            return False
        if any(after[k] is not self.before[k] for k in after):
            return False
        if cls.__bases__ is not self.bases and cls.__bases__ != self.bases:
            return False
        if dict(cls.__dict__.get("__annotations__", {})) != self.anns:
            return False
        return (cls.__name__, cls.__qualname__, cls.__module__) == self.name

    def diff(self):
        after = dict(vars(self.cls))
        return {"added": sorted(set(after) - set(self.before)),
                "removed": sorted(set(self.before) - set(after)),
                "replaced": sorted(k for k in after if k in self.before and after[k] is not self.before[k])}


EXC_MAP = [(ValueError, "XValue"), (TypeError, "XType"), (UnannotatedAttributeError, "XUnannotated"),
           (DefaultAlreadySetError, "XDefaultSet"), (SyntaxError, "XSyntax")]


def classify(e):
    for k, tag in EXC_MAP:
        if type(e) is k:
            return tag
    return None


def run_spec(spec):
    """Execute the class statement for real.  Returns (observation dict, base info)."""
    _counter[0] += 1
    mod = types.ModuleType("c15_case_%d" % _counter[0])
    flags = set()
    snap = Snap()
    snapped = []

    def _snap(cls):
        snap.take(cls)
        snapped.append(1)
        return cls

    api = spec["api"]
    ns = mod.__dict__
    ns.update({"attr": attr, "attrs": attrs, "setters": setters, "_v": _v, "_c": _c, "_h": _h, "_g": _g,
               "_flag": flags.add, "_snap": _snap,
               "_deco": {"attr.s": attr.s, "define": attrs.define, "frozen": attrs.frozen}.get(api),
               "_ib": attrs.field if spec.get("ctor") == "field" else attr.ib,
               "_FA": [None if f["plain"] else field_kwargs(f, i) for i, f in enumerate(spec["fields"])],
               "_KW": deco_kwargs(spec)})
    if api == "make_class" and spec["own"]:
        ns["_KW"]["class_body"] = _own_body_dict(spec["own"])
    src = render(spec)
    use_these = spec["these"] or api == "make_class"
    err = None
    try:
        exec(compile(src, "<c15 case %d>" % _counter[0], "exec"), ns)
    except BaseException as e:  # noqa: BLE001 - the exception class is the observation
        err = e
    if err is not None and "bases" not in flags:
        raise vlib.Infra("C15 harness: a base class of the catalogue failed to build: %r\n%s" % (err, src))
    if err is None:
        phase = None
    elif snapped:
        phase = "PDeco"
    elif api == "make_class":
        phase = "PDeco" if "these" in flags else "PBody"
    elif use_these:
        phase = "PBody" if "these" not in flags else ("PExpr" if "body" not in flags else "PBody")
    else:
        phase = "PBody" if "body" in flags else "PExpr"
    ob = {"phase": phase, "exc": None if err is None else type(err).__name__,
          "tag": None if err is None else classify(err),
          "untouched": snap.untouched() if snapped else None, "source": src}
    if snapped and ob["untouched"] is False and err is not None:
        ob["class_diff"] = snap.diff()
    if err is not None:
        ob["message"] = str(err)[:160]
    # base info: the classes the bases left behind
    base_objs = tuple(ns[base_name(k)] if k != "Exc" else Exception for k in spec["bases"])
    info = base_info(base_objs)
    return ob, info


class OutsideModel(Exception):
    pass


def base_info(base_objs):
    if not base_objs:
        return {"mro": [], "table": [], "frozen": False, "exc": False, "attrs": []}
    probe = type("_Probe", base_objs, {})
    mro = list(probe.__mro__[1:-1])
    ids = {k: i + 1 for i, k in enumerate(mro)}
    table = []
    flat = []
    for k in mro:
        aa = k.__dict__.get("__attrs_attrs__")
        rows = None
        if aa is not None:
            rows = []
            for a in aa:
                d = a.default
                dk = "DNothing" if d is attr.NOTHING else ("(DFactory \"g\" %s)" % b(d.takes_self)
                                                           if isinstance(d, attr.Factory) else "DValue")
                os_ = a.on_setattr
                ok = "OsNone" if os_ is None else ("OsNoOp" if os_ is setters.NO_OP else "(OsPipe [HValidate])")
                rows.append({"name": a.name, "dk": dk, "init": bool(a.init), "kw": bool(a.kw_only),
                             "inh": bool(a.inherited), "os": ok, "alias": a.alias,
                             "val": a.validator is not None, "conv": a.converter is not None})
                if not a.inherited:
                    flat.append(rows[-1])
        table.append({"id": ids[k], "mro": [ids[c] for c in k.__mro__[1:-1]], "attrs": rows})
    fz_attrs = probe.__setattr__ is _frozen_setattrs
    fz_define = any(bc.__setattr__ is _frozen_setattrs for bc in base_objs)
    if fz_attrs != fz_define:
        # e.g. (hook-running attrs base, frozen base): define's scan of __bases__ and attrs()'s MRO lookup of
        # __setattr__ answer differently; the model has ONE "frozen by inheritance" bit (C05/C06 model both)
        raise OutsideModel("frozen-base tests differ")
    return {"mro": [ids[k] for k in mro], "table": table, "frozen": fz_attrs,
            "exc": issubclass(probe, BaseException), "attrs": flat}


# ------------------------------------------------------------------------------------------------
# encoding


def enc_tri(v):
    return {None: "tN", True: "tT", False: "tF"}[v]


def enc_harg(v):
    return {None: "HN", True: "HT", False: "HF", "X": "HX"}[v]


def enc_optb(kw, k):
    return "(Some %s)" % b(kw[k]) if k in kw else "None"


def enc_attr_row(r):
    return "(A %s %s %s %s %s %s %s %s %s)" % (
        q(r["name"]), r["dk"], b(r["init"]), b(r["kw"]), b(r["inh"]), r["os"],
        "None" if r["alias"] is None else "(Some %s)" % q(r["alias"]), b(r["val"]), b(r["conv"]))


def enc_fspec(f):
    dk = {None: "DNothing", "value": "DValue", "factoryobj": '(DFactory "g" false)'}[f["default"]]
    fa = {None: "FaNone", "callable": "FaCallable", "bad": "FaBad"}[f["factory"]]
    return "(F %s %s %s %s %s %s %s %s %s H%s s%s s%s s%s %s %s %s %s)" % (
        q(f["name"]), b(f["plain"]), dk, fa, b(f["second"]), b(f["init"]), b(f["kw_only"]),
        b(f["annot"]), b(f["type"]), f["hash"], f["cmp"], f["eq"], f["order"], enc_field_os(f["os"]),
        "None" if f["alias"] is None else "(Some %s)" % q(f["alias"]), b(f["val"]), b(f["conv"]))


API_ENC = {"attr.s": "AttrS", "define": "Define", "frozen": "Frozen", "make_class": "MakeClass"}


def enc_spec(spec, info):
    kw = spec["kw"]
    own = set(spec["own"])
    o = "(CO %s %s %s %s %s %s %s %s %s %s %s %s %s %s %s %s %s %s %s %s %s %s %s %s %s %s %s)" % (
        API_ENC[spec["api"]], enc_optb(kw, "slots"), enc_optb(kw, "frozen"), enc_optb(kw, "auto_detect"),
        enc_optb(kw, "auto_exc"), enc_tri(kw.get("auto_attribs")), b(spec["these"]),
        b(kw.get("kw_only", False)), enc_tri(kw.get("cmp")), enc_tri(kw.get("eq")),
        ("(Some %s)" % enc_tri(kw["order"])) if "order" in kw else "None",
        enc_harg(kw.get("hash")), enc_harg(kw.get("unsafe_hash")), b(kw.get("cache_hash", False)),
        enc_tri(kw.get("init")), enc_tri(kw.get("repr")), b(kw.get("str", False)),
        enc_cls_os(kw.get("on_setattr")), enc_ft(kw.get("field_transformer")),
        b("setattr" in own), b("init" in own), b("repr" in own), b("eq" in own), b("ne" in own),
        b("hash" in own), b(info["frozen"]), b(info["exc"]))
    table = lst("(En %d %s %s)" % (e["id"], lst(str(i) for i in e["mro"]),
                                   "None" if e["attrs"] is None else "(Some %s)" % lst(enc_attr_row(r) for r in e["attrs"]))
                for e in info["table"])
    return "(SP %s %s %s %s)" % (o, lst(enc_fspec(f) for f in spec["fields"]), table,
                                 lst(str(i) for i in info["mro"]))


def enc_obs(ob):
    if ob["exc"] is None:
        return "ODefined"
    if ob["tag"] is None:
        return "OOther"
    return "(ORejected %s %s)" % (ob["phase"], ob["tag"])


def enc_untouched(ob):
    return "None" if ob["untouched"] is None else "(Some %s)" % b(ob["untouched"])


# ------------------------------------------------------------------------------------------------
# python replica of the facts the known-findings matcher sees (never used for the verdict)


def _arg(kw, k, d):
    return kw[k] if k in kw else d


def facts(spec, info, ob):
    kw = spec["kw"]
    api = spec["api"]
    is_def = api in ("define", "frozen")
    own = set(spec["own"])
    ad_ = _arg(kw, "auto_detect", is_def)
    frozen_arg = _arg(kw, "frozen", api == "frozen")
    is_frozen = bool(frozen_arg or (info["frozen"] and "setattr" not in own))
    rp = kw.get("repr")
    repr_gen = rp if rp is not None else not (ad_ and "repr" in own)
    use_these = spec["these"] or api == "make_class"
    fobjs = [f for f in spec["fields"] if not f["plain"]]
    if use_these:
        coll = fobjs
    else:
        aa = kw.get("auto_attribs")
        if aa is None and is_def:
            aa = not any(not f["annot"] for f in fobjs)
        coll = [f for f in spec["fields"] if f["annot"]] if aa else fobjs
    own_names = {f["name"] for f in coll}
    fin = []
    seen = set()
    for r in info["attrs"]:
        if r["name"] in own_names or r["name"] in seen:
            continue
        seen.add(r["name"])
        fin.append((r["alias"] or r["name"].lstrip("_"), r["init"], r["os"] == "OsNoOp"))
    for f in coll:
        fin.append((f["alias"] or f["name"].lstrip("_"), f["init"], f["os"] == "NO_OP"))
    ft = kw.get("field_transformer")
    if ft in ("addM", "addD"):
        fin.append(("t_", True, False))
    aliases = [a for a, init, _ in fin if init]
    return {
        "layer": "property",
        "phase": ob["phase"] or "none",
        "observed": ob["exc"] or "Defined",
        "str_without_repr": bool(kw.get("str", False) and not repr_gen),
        "noncallable_factory": any(f["factory"] == "bad" for f in fobjs),
        "noop_on_frozen": bool(is_frozen and any(n for _, _, n in fin)),
        "dup_init_alias": len(set(aliases)) < len(aliases),
    }


FACT_KEYS = ("str_without_repr", "noncallable_factory", "noop_on_frozen", "dup_init_alias")


def nontrivial(spec, ob):
    return bool(ob["exc"] or spec["bases"] or spec["own"] or spec["kw"].get("on_setattr")
                or spec["kw"].get("field_transformer") or any(f["os"] for f in spec["fields"]))


def mk_cases(spec, only=None):
    try:
        ob, info = run_spec(spec)
    except OutsideModel:
        return []
    sp = enc_spec(spec, info)
    seen = {k: v for k, v in ob.items()}
    out = []
    if only in (None, "model"):
        sig = {"layer": "model"}
        if ob["exc"] is not None and ob["untouched"] is False:
            sig["kind"] = "class-mutated"
        term = "(K false %s %s %s)" % (sp, enc_obs(ob), enc_untouched(ob))
        out.append(Case(term, {"spec": spec, "mode": "model"}, seen, sig=sig,
                        nontrivial=nontrivial(spec, ob), key=spec_key(spec)))
    fx = facts(spec, info, ob)
    if only == "property" or (only is None and any(fx[k] for k in FACT_KEYS)):
        term = "(K true %s %s %s)" % (sp, enc_obs(ob), enc_untouched(ob))
        out.append(Case(term, {"spec": spec, "mode": "property"}, seen, sig=fx, nontrivial=True,
                        key="P" + spec_key(spec)))
    return out


# ------------------------------------------------------------------------------------------------
# generation

APIS = ["attr.s", "define", "frozen", "make_class"]


def with_api(api, kw, fields, **rest):
    """Adapt a neutral description to a front end: define/frozen get annotated field() bodies."""
    fields = [dict(f) for f in fields]
    spec = mkspec(api, kw, fields, **rest)
    if api in ("define", "frozen"):
        spec["ctor"] = "field"
        spec["kw"].pop("cmp", None)
        for f in spec["fields"]:
            f["cmp"] = "N"
    return spec


def annotate(spec, on=True):
    for f in spec["fields"]:
        if not f["plain"]:
            f["annot"] = on
    return spec


KINDS = {
    "mand": {}, "dflt": {"default": "value"}, "fact": {"factory": "callable"},
    "second": {"second": True}, "mand_kw": {"kw_only": True}, "mand_noinit": {"init": False},
    "dflt_kw": {"default": "value", "kw_only": True}, "dflt_noinit": {"default": "value", "init": False},
}
NAMES = ["x", "y", "z", "w"]


def fam_order(tier, rng):
    quick = tier == "quick"
    kinds = ["mand", "dflt", "second", "mand_kw"] if quick else list(KINDS)
    seqs = [()] + [(k,) for k in kinds] + list(itertools.product(kinds, repeat=2))
    if not quick:
        seqs += list(itertools.product(["mand", "dflt", "mand_kw"], repeat=3))
    base_sets = [(), ("M",), ("D",), ("Dk",), ("Di",), ("M", "D"), ("D", "M"), ("MD",)]
    fts = [None, "rev", "rot", "addM", "addD", "kwonly", "dropfirst"]
    for seq in seqs:
        fields = [mkfield(NAMES[i], **KINDS[k]) for i, k in enumerate(seq)]
        for api in APIS:
            for bases in base_sets:
                for sl in ((None,) if quick and (len(seq) == 2 or bases not in ((), ("D",))) else (True, False)):
                    kw = {} if sl is None else {"slots": sl}
                    yield annotate(with_api(api, kw, fields, bases=bases), api in ("define", "frozen"))
            for bases in ((), ("D",)) if quick else ((), ("D",), ("M",), ("D", "M")):
                for ft in (fts[1:] if not (quick and bases) else ("rev", "addM")):
                    yield annotate(with_api(api, {"field_transformer": ft}, fields, bases=bases),
                                   api in ("define", "frozen"))
            for bases in ((), ("D",)) if quick else ((), ("D",), ("M", "D")):
                yield annotate(with_api(api, {"kw_only": True}, fields, bases=bases), api in ("define", "frozen"))
    # an own field redefining an inherited one moves it to the end
    for api in APIS:
        for b0 in ("Mx", "Dx"):
            for k1 in ("mand", "dflt"):
                for k2 in ("mand", "dflt", None):
                    fs = [mkfield("x", **KINDS[k1])] + ([mkfield("y", **KINDS[k2])] if k2 else [])
                    for order in (0, 1):
                        yield annotate(with_api(api, {}, fs[::-1] if order else fs, bases=(b0,)),
                                       api in ("define", "frozen"))


def fam_field_rules(tier, rng):
    quick = tier == "quick"
    S = ["N", "T", "F", "K"]
    for api in APIS:
        is_def = api in ("define", "frozen")
        for cmp_, eq, order in itertools.product(["N"] if is_def else S, S, S):
            for h in (["N", "X"] if quick and cmp_ != "N" else ["N", "T", "F", "X"]):
                f = mkfield("x", cmp=cmp_, eq=eq, order=order, hash=h)
                yield annotate(with_api(api, {}, [f]), is_def)
        for d, fa, sec, h, eo in itertools.product([None, "value", "factoryobj"], [None, "callable", "bad"],
                                                   [False, True], ["N", "X"], [("N", "N"), ("F", "T")]):
            f = mkfield("x", default=d, factory=fa, second=sec, hash=h, eq=eo[0], order=eo[1])
            for pos in (0, 1):
                fs = [f] if pos == 0 else [mkfield("w"), f]
                for th in ((False,) if api == "make_class" else (False, True)):
                    if quick and (pos == 1 or th) and h == "X":
                        continue
                    yield annotate(with_api(api, {}, fs, these=th), is_def and not th)
    bad = [dict(cmp="T", eq="T"), dict(eq="F", order="T"), dict(hash="X"), dict(default="value", factory="callable"),
           dict(factory="bad"), dict(default="value", second=True)]
    for api in ("attr.s", "define", "make_class"):
        for b1, b2 in itertools.product(bad, repeat=2):
            fs = [mkfield("x", **b1), mkfield("y", **b2)]
            yield annotate(with_api(api, {}, fs), api == "define")
    # creation errors against decorator-expression / decorator-application errors: which comes first
    for api in APIS:
        for b1 in bad[:3] + bad[5:]:
            for kw in ({"eq": False, "order": True}, {"cache_hash": True}, {"hash": "X"}):
                for th in ((False,) if api == "make_class" else (False, True)):
                    yield annotate(with_api(api, kw, [mkfield("x", **b1)], these=th),
                                   api in ("define", "frozen") and not th)


def fam_cls_eq_order(tier, rng):
    T3 = [None, True, False]
    for api in APIS:
        is_def = api in ("define", "frozen")
        for cmp_, eq, order in itertools.product([None] if is_def else T3, T3, T3 + ["absent"]):
            kw = {}
            if cmp_ is not None:
                kw["cmp"] = cmp_
            if eq is not None:
                kw["eq"] = eq
            if order != "absent":
                kw["order"] = order
            for sl in (True, False):
                for own in ((), ("eq",)):
                    k2 = dict(kw, slots=sl)
                    yield annotate(with_api(api, k2, [mkfield("x")], own=own), is_def)
            yield annotate(with_api(api, dict(kw, cache_hash=True), [mkfield("x")]), is_def)
            yield annotate(with_api(api, dict(kw, unsafe_hash=True, cache_hash=True), [mkfield("x")]), is_def)


def fam_annotations(tier, rng):
    shapes = {
        "ib": {}, "ib_annot": {"annot": True}, "ib_type": {"type": True},
        "ib_annot_type": {"annot": True, "type": True}, "plain": {"plain": True, "annot": True},
        "plain_default": {"plain": True, "annot": True, "default": "value"},
    }
    keys = list(shapes)
    pk = ["ib", "ib_annot", "ib_annot_type", "plain"] if tier == "quick" else keys
    seqs = [(k,) for k in keys] + list(itertools.product(pk, repeat=2))
    for api in ("attr.s", "define", "frozen"):
        for seq in seqs:
            fields = [mkfield(NAMES[i], **shapes[k]) for i, k in enumerate(seq)]
            for aa in ("absent", None, True, False):
                for th in (False, True):
                    kw = {} if aa == "absent" else {"auto_attribs": aa}
                    sp = with_api(api, kw, fields, these=th)
                    yield sp
                    if len(seq) == 1 and aa in ("absent", True):
                        yield with_api(api, dict(kw, slots=(api == "attr.s")), fields, these=th)
    for seq in [("ib",), ("ib_type",), ("ib", "ib_type")]:
        fields = [mkfield(NAMES[i], **shapes[k]) for i, k in enumerate(seq)]
        for aa in ("absent", True):
            yield with_api("make_class", {} if aa == "absent" else {"auto_attribs": aa}, fields)
    # annotation conflicts and missing annotations below a base / with an order error as well
    for api in ("attr.s", "define"):
        for k1 in ("ib", "ib_annot_type", "ib_annot"):
            for aa in (None, True):
                fs = [mkfield("x", default="value", **shapes[k1]), mkfield("y", **shapes["ib_annot"])]
                yield with_api(api, {"auto_attribs": aa}, fs, bases=("D",))


def fam_hash(tier, rng):
    quick = tier == "quick"
    H = [None, True, False, "X"]

    def mk(api, hash_, uh, cache, eq, frozen, init, own=(), ad_=None, bases=(), sl=None):
        kw = {}
        if hash_ is not None:
            kw["hash"] = hash_
        if uh is not None:
            kw["unsafe_hash"] = uh
        if cache:
            kw["cache_hash"] = True
        if eq is not None:
            kw["eq"] = eq
        if frozen is not None:
            kw["frozen"] = frozen
        if init is not None:
            kw["init"] = init
        if ad_ is not None:
            kw["auto_detect"] = ad_
        if sl is not None:
            kw["slots"] = sl
        return annotate(with_api(api, kw, [mkfield("x", default="value")], own=own, bases=bases),
                        api in ("define", "frozen"))

    for api in (("attr.s", "define") if quick else APIS):
        for hash_, uh, cache, eq, frozen, init in itertools.product(
                H, [None, True, "X"] if quick else H, [False, True], [None, True, False],
                [None, True] if api != "frozen" else [None, False], [None, False]):
            yield mk(api, hash_, uh, cache, eq, frozen, init)
    owns = [(), ("eq",), ("hash",), ("init",), ("ne",), ("eq", "hash")]
    for api in APIS:
        for hash_, eq, own, ad_, bases, init, fr in itertools.product(
                [None, True], [None, True, False], owns, [None, True, False],
                [(), ("Exc",), ("Fz",), ("ExcA",)], [None, False], [None, True]):
            if quick and rng.random() < 0.88:
                continue
            if bases in (("Exc",), ("ExcA",)) and api == "make_class" and own:
                continue
            yield mk(api, hash_, None, True, eq, fr, init, own=own, ad_=ad_, bases=bases)
    for api in APIS:
        for sl in (True, False):
            for bases in ((), ("Exc",)):
                for ax in (None, True, False):
                    sp = mk(api, None, True, True, None, None, None, bases=bases, sl=sl)
                    if ax is not None:
                        sp["kw"]["auto_exc"] = ax
                    yield sp


def fam_setattr(tier, rng):
    quick = tier == "quick"
    cls_os = [None, "NO_OP", "validate", "convert", "user", "list"] + EMPTY_OS
    fld_os = [None, "NO_OP", "validate", "user"] + EMPTY_OS
    bases = [(), ("Fz",), ("FzD",), ("FzSub",), ("H",), ("Hn",), ("Hc",), ("V",), ("Ps",), ("He",), ("Hce",)]
    shapes = [dict(default="value"), dict(init=False), dict()]
    core_bases = [(), ("Fz",)]
    for api in APIS:
        for co, fo, val, fr, bs, own_sa, ad_, sl, shape in itertools.product(
                cls_os, fld_os, [False, True], [None, True, False], bases, [False, True],
                [None, True, False], [None, True, False], range(len(shapes))):
            core = (bs in core_bases and ad_ is None and sl is None and shape == 0 and fr is not False)
            p = (0.2 if quick else 1.0) if core else (0.0015 if quick else 0.03)
            if rng.random() > p:
                continue
            kw = {}
            if co is not None:
                kw["on_setattr"] = co
            if fr is not None:
                kw["frozen"] = fr
            if ad_ is not None:
                kw["auto_detect"] = ad_
            if sl is not None:
                kw["slots"] = sl
            f = mkfield("x", os=fo, val=val, **shapes[shape])
            yield annotate(with_api(api, kw, [f], bases=bs, own=("setattr",) if own_sa else ()),
                           api in ("define", "frozen"))
    # a converter instead of a validator; hooks on a second field only
    for api in APIS:
        for co in (None, "convert", "validate", "list_cv"):
            for own_sa in (False, True):
                for fr in (None, True):
                    kw = {"auto_detect": True}
                    if co:
                        kw["on_setattr"] = co
                    if fr:
                        kw["frozen"] = True
                    fs = [mkfield("x", default="value", conv=True), mkfield("y", default="value")]
                    yield annotate(with_api(api, kw, fs, own=("setattr",) if own_sa else ()),
                                   api in ("define", "frozen"))
                    fs = [mkfield("x", default="value"), mkfield("y", default="value", os="frozen")]
                    yield annotate(with_api(api, kw, fs, own=("setattr",) if own_sa else ()),
                                   api in ("define", "frozen"))


def fam_str(tier, rng):
    for api in APIS:
        for st, rp, own, ad_, sl in itertools.product([False, True], [None, True, False], [(), ("repr",)],
                                                      [None, True, False], [None, True, False]):
            if tier == "quick" and sl is not None and api != "attr.s":
                continue
            kw = {}
            if st:
                kw["str"] = True
            if rp is not None:
                kw["repr"] = rp
            if ad_ is not None:
                kw["auto_detect"] = ad_
            if sl is not None:
                kw["slots"] = sl
            yield annotate(with_api(api, kw, [mkfield("x")], own=own), api in ("define", "frozen"))


def fam_alias(tier, rng):
    pairs = [(("_x", None), ("x", None)), (("x", None), ("y", "x")), (("_x", None), ("x_", "x")),
             (("x", "a"), ("y", "a")), (("_x", None), ("y", None))]
    for api in APIS:
        for (n1, a1), (n2, a2) in pairs:
            for i1, i2 in ((True, True), (True, False), (False, True)):
                for k1, k2 in ((False, False), (False, True), (True, True)):
                    for sl in (True, False):
                        fs = [mkfield(n1, alias=a1, init=i1, kw_only=k1), mkfield(n2, alias=a2, init=i2, kw_only=k2)]
                        if not i1:
                            fs[0]["default"] = "value"
                        if not i2:
                            fs[1]["default"] = "value"
                        yield annotate(with_api(api, {"slots": sl}, fs), api in ("define", "frozen"))
        # inherited position (base field _x, alias x) and transformer position (appended t_)
        for n, al, init in (("x", None, True), ("y", "x", True), ("x", None, False), ("_x", None, True), ("y", None, True)):
            for extra in ({}, {"init": False}, {"str": True, "repr": False}, {"cache_hash": True}):
                f = mkfield(n, alias=al, init=init, default="value")
                yield annotate(with_api(api, dict(extra), [f], bases=("Al",)), api in ("define", "frozen"))
        for n, al in (("t_", None), ("y", "t_"), ("_t_", None), ("y", None)):
            for ft in ("addD", "addM"):
                f = mkfield(n, alias=al)
                yield annotate(with_api(api, {"field_transformer": ft}, [f]), api in ("define", "frozen"))


def fam_late(tier, rng):
    """Every kind of rejection below every kind of base: what the class inherits (generated hook-running
    or frozen __setattr__, slots, fields) must not make a failed decoration leave traces."""
    quick = tier == "quick"
    bases = [(), ("Hc",), ("Dv",), ("H",), ("Fz",), ("D",)] + ([] if quick else [("Hn",), ("V",), ("DvS",), ("Sl",), ("M",), ("P",), ("Ps",)])
    errs = [
        ("hashx", {"hash": "X"}, [mkfield("y", default="value")]),
        ("cache_nohash", {"cache_hash": True}, [mkfield("y", default="value")]),
        ("cache_noinit", {"cache_hash": True, "unsafe_hash": True, "init": False}, [mkfield("y", default="value")]),
        ("str_norepr", {"str": True, "repr": False}, [mkfield("y", default="value")]),
        ("dup_alias", {}, [mkfield("_y", default="value"), mkfield("y", default="value")]),
        ("frozen_hook", {"frozen": True}, [mkfield("y", default="value", os="validate")]),
        ("frozen_empty_field", {"frozen": True}, [mkfield("y", default="value", os="empty_list")]),
        ("frozen_empty_cls", {"frozen": True, "on_setattr": "empty_tuple"}, [mkfield("y", default="value")]),
        ("empty_cls_only", {"on_setattr": "empty_pipe"}, [mkfield("y", default="value")]),
        ("annot_type", {}, [mkfield("y", default="value", annot=True, type=True)]),
        ("order", {}, [mkfield("y", default="value"), mkfield("z")]),
        ("unannotated", {"auto_attribs": True}, [mkfield("y", default="value", annot=False)]),
        ("own_setattr_hooks", {"auto_detect": True}, [mkfield("y", default="value", os="user")]),
        ("none", {}, [mkfield("y", default="value")]),
    ]
    for api in APIS:
        for bs in bases:
            for tag, kw, fs in errs:
                for sl in (True, False):
                    own = ("setattr",) if tag == "own_setattr_hooks" else ()
                    sp = with_api(api, dict(kw, slots=sl), fs, bases=bs, own=own)
                    if api in ("define", "frozen") and tag not in ("unannotated",):
                        for f in sp["fields"]:
                            f["annot"] = True
                    if api == "make_class":
                        for f in sp["fields"]:
                            f["annot"] = False
                    yield sp


def fam_empty_hooks(tier, rng):
    """An EMPTY hook collection ([], (), setters.pipe()) is still a request for hooks: the whole small
    lattice, next to None / NO_OP / a hook, at class and at field level."""
    situations = [({}, (), ()), ({"frozen": True}, (), ()), ({}, ("Fz",), ()), ({}, ("FzD",), ()),
                  ({"auto_detect": True}, (), ("setattr",)), ({"auto_detect": False}, (), ("setattr",)),
                  ({"frozen": True, "auto_detect": True}, (), ("setattr",)), ({}, ("He",), ()), ({"frozen": True}, ("He",), ()),
                  ({}, ("Hce",), ())]
    for api in APIS:
        for tag in EMPTY_OS + [None, "NO_OP", "user"]:
            for level in ("cls", "field", "both"):
                for si, (kw0, bs, own) in enumerate(situations):
                    for sl in ((True, False) if (tier != "quick" or si < 3) else (None,)):
                        for val in ((False, True) if (tier != "quick" or tag in EMPTY_OS) else (True,)):
                            kw = dict(kw0) if sl is None else dict(kw0, slots=sl)
                            if level in ("cls", "both") and tag is not None:
                                kw["on_setattr"] = tag
                            f = mkfield("y", default="value", val=val, os=tag if level in ("field", "both") else None)
                            yield annotate(with_api(api, kw, [f], bases=bs, own=own), api in ("define", "frozen"))


def fam_multi_bases(tier, rng):
    """Several bases: a frozen attrs base in first / second position (dict or slotted, attr.s or define, or
    frozen through an undecorated subclass) next to a plain mixin or another attrs base.  Frozen-ness is
    inherited through the MRO whatever the position, so nothing here is contradictory unless hooks are asked for."""
    frozen_bases = ["Fz", "Fz0", "FzD", "FzSub"]
    others = ["P", "M", "D", "V"]
    pairs = []
    for fb in frozen_bases:
        for ob in others:
            pairs += [(fb, ob), (ob, fb)]
    pairs += [("P", "M"), ("D", "P"), ("Fz", "FzD"), ("FzD", "Fz0")]
    if tier == "quick":
        pairs = [pr for pr in pairs if pr[0] in ("Fz", "FzD", "P", "D") and pr[1] in ("Fz", "FzD", "Fz0", "P", "M")]
    for api in APIS:
        for bs in pairs:
            for co in (None, "NO_OP", "validate", "empty_list"):
                for val in (False, True):
                    for sl in ((None,) if tier == "quick" and co not in (None,) else (None, True, False)):
                        kw = {}
                        if co is not None:
                            kw["on_setattr"] = co
                        if sl is not None:
                            kw["slots"] = sl
                        # a mandatory inherited field (M) needs no own default; own field defaulted after D/Fz
                        f = mkfield("y", default="value", val=val)
                        yield annotate(with_api(api, kw, [f], bases=bs), api in ("define", "frozen"))


def random_spec(rng):
    api = rng.choice(APIS)
    is_def = api in ("define", "frozen")
    kw = {}

    def maybe(p, k, vals):
        if rng.random() < p:
            kw[k] = rng.choice(vals)

    maybe(0.4, "slots", [True, False])
    maybe(0.25, "frozen", [True, True, False])
    maybe(0.2, "auto_detect", [True, False])
    maybe(0.1, "auto_exc", [True, False])
    maybe(0.12, "kw_only", [True])
    if not is_def:
        maybe(0.08, "cmp", [True, False])
    maybe(0.2, "eq", [True, False, False])
    maybe(0.15, "order", [True, True, False, None])
    maybe(0.15, "hash", [True, False, None, "X"])
    maybe(0.2, "unsafe_hash", [True, True, False, "X"])
    maybe(0.25, "cache_hash", [True])
    maybe(0.15, "init", [True, False, False])
    maybe(0.12, "repr", [True, False])
    maybe(0.08, "str", [True])
    maybe(0.3, "on_setattr", [None, "NO_OP", "validate", "convert", "user", "list", "list_cv"] + EMPTY_OS)
    maybe(0.12, "field_transformer", ["id", "rev", "rot", "addM", "addD", "kwonly", "dropfirst", "droplast"])
    these = api != "make_class" and rng.random() < 0.12
    aa = None
    if rng.random() < 0.3:
        aa = rng.choice([True, False, None])
        kw["auto_attribs"] = aa
    own = [o for o in ("setattr", "init", "repr", "eq", "ne", "hash") if rng.random() < 0.1]
    r = rng.random()
    if r < 0.45:
        bases = ()
    elif r < 0.9:
        bases = (rng.choice(["M", "D", "Dk", "Di", "MD", "Mx", "Dx", "Fz", "Fz0", "FzD", "FzSub", "H", "Hn",
                             "Hc", "Hc", "He", "Hce", "Dv", "DvS", "Al", "V", "Sl", "SlD", "P", "Ps", "Exc", "ExcA"]),)
    else:
        bases = tuple(rng.sample(["M", "D", "Dk", "H", "P", "V", "Al", "Hn", "Fz", "Fz0", "FzD", "FzSub", "P", "Fz"], 2))
        if len(set(bases)) < 2:
            bases = bases[:1]
    if api == "make_class" and own and any(k in ("Exc", "ExcA") for k in bases):
        own = []
    style = rng.choice(["annot", "annot", "plainib", "mixed"]) if (is_def or aa) else rng.choice(["plainib", "plainib", "mixed"])
    n = rng.choice([0, 1, 1, 2, 2, 3])
    pool = ["x", "y", "_x", "z", "bd", "bm", "_p_"]
    rng.shuffle(pool)
    fields = []
    for name in pool[:n]:
        f = mkfield(name)
        if api != "make_class" and not these and style != "plainib" and rng.random() < 0.2:
            f.update(plain=True, annot=True, default=rng.choice([None, "value", "value", "factoryobj"]))
            fields.append(f)
            continue
        f["annot"] = {"annot": rng.random() < 0.95, "plainib": rng.random() < 0.03,
                      "mixed": rng.random() < 0.5}[style]
        if api == "make_class":
            f["annot"] = False
        r = rng.random()
        f["default"] = None if r < 0.5 else ("value" if r < 0.85 else "factoryobj")
        r = rng.random()
        f["factory"] = None if r < 0.85 else ("callable" if r < 0.96 else "bad")
        if f["factory"] and f["default"] and rng.random() < 0.8:
            f["default"] = None
        f["second"] = rng.random() < (0.03 if (f["default"] or f["factory"]) else 0.12)
        f["init"] = rng.random() < 0.85
        f["kw_only"] = rng.random() < 0.15
        f["type"] = rng.random() < (0.04 if f["annot"] else 0.2)
        f["hash"] = rng.choice(["N"] * 12 + ["T", "F", "X"])
        if rng.random() < 0.15:
            f["eq"] = rng.choice(["T", "F", "K"])
        if rng.random() < 0.12:
            f["order"] = rng.choice(["T", "F", "K"])
        if not is_def and rng.random() < 0.06:
            f["cmp"] = rng.choice(["T", "F", "K"])
        if rng.random() < 0.25:
            f["os"] = rng.choice(["NO_OP", "validate", "convert", "user", "list", "frozen"] + EMPTY_OS)
        if rng.random() < 0.12:
            f["alias"] = rng.choice(["x", "al", "y"])
        f["val"] = rng.random() < 0.3
        f["conv"] = rng.random() < 0.2
        fields.append(f)
    spec = mkspec(api, kw, fields, bases=bases, own=own, these=these)
    if is_def or rng.random() < 0.2:
        spec["ctor"] = "field"
        for f in spec["fields"]:
            f["cmp"] = "N"
    return spec


def repair(spec, rng):
    """Make most random specifications valid so that the stream is 'mostly valid + a malformed part'."""
    if rng.random() < 0.35:
        return spec
    kw = spec["kw"]
    had = False
    for f in spec["fields"]:
        if f["plain"] or f["kw_only"] or not f["init"]:
            continue
        has = bool(f["default"] or f["factory"] or f["second"])
        if had and not has:
            f["default"] = "value"
        had = had or has
    if kw.get("cache_hash") and rng.random() < 0.8:
        kw["unsafe_hash"] = True
        kw.pop("init", None)
    return spec


def from_initgen(rng, n):
    """The class specifications of the shared generator (harness/initgen.py), re-expressed."""
    from . import initgen
    out = []
    os_map = {"NO_OP": "NO_OP", "user": "user", "validate": "validate", "convert": "convert",
              "list_cv": "list_cv", "list_user2": "list", "frozen": "frozen"}
    for i in range(n):
        s = initgen.gen_class_spec(rng, "g%d" % i, base=None, hooks_ok=True)
        api = {"attrs": "attr.s", "define": "define"}[s["api"]]
        style = s["style"]
        if style == "make_class":
            api = "make_class"
        kw = {}
        if s["slots"] != (s["api"] == "define"):
            kw["slots"] = s["slots"]
        if s["frozen"]:
            kw["frozen"] = True
        if s["kw_only"]:
            kw["kw_only"] = True
        if s["cache_hash"]:
            kw["cache_hash"] = True
            kw["unsafe_hash"] = True
        if s["api"] == "attrs":
            kw["auto_exc"] = True
            kw["eq"] = False if s["exc"] else True
        if s["on_setattr"] is not None:
            kw["on_setattr"] = os_map[s["on_setattr"]]
        if style == "annot" and s["api"] == "attrs":
            kw["auto_attribs"] = True
        fields = []
        for f in s["fields"]:
            d = f["default"]
            fields.append(mkfield(
                f["name"], default=None if d is None else ("value" if d == "value" else "factoryobj"),
                init=f["init"], kw_only=f["kw_only"], conv=f["converter"] is not None, val=f["validator"],
                alias=f["alias"], os=os_map.get(f["on_setattr"]) if f["on_setattr"] else None,
                type=bool(f["type"] and style != "annot"), annot=style == "annot"))
        sp = mkspec(api, kw, fields, bases=("Exc",) if s["exc"] else (), these=style == "these")
        if s["api"] == "define":
            sp["ctor"] = "field"
        out.append(sp)
    return out


FAMILIES = [("order", fam_order), ("field", fam_field_rules), ("cls_eq_order", fam_cls_eq_order),
            ("annotations", fam_annotations), ("hash", fam_hash), ("setattr", fam_setattr),
            ("str", fam_str), ("alias", fam_alias), ("late", fam_late),
            ("empty_hooks", fam_empty_hooks), ("multi_bases", fam_multi_bases)]


def gen_specs(tier, seed):
    rng = random.Random(seed)
    seen = set()
    out = []

    def add(fam, sp):
        sp.setdefault("ctor", "ib")
        k = spec_key(sp)
        if k in seen:
            return
        seen.add(k)
        out.append((fam, sp))

    for name, fn in FAMILIES:
        for sp in fn(tier, random.Random(seed * 31 + len(name))):
            add(name, sp)
    n_rand = 1500 if tier == "quick" else 24000
    for _ in range(n_rand):
        add("random", repair(random_spec(rng), rng))
    for sp in from_initgen(rng, 300 if tier == "quick" else 4000):
        add("initgen", sp)
    return out


_families = {}


def generate(tier, seed):
    cases = []
    _families.clear()
    for fam, sp in gen_specs(tier, seed):
        cs = mk_cases(sp)
        for c in cs:
            c.inp["family"] = fam
        _families[fam] = _families.get(fam, 0) + 1
        cases.extend(cs)
    return cases


def rerun(inp):
    cs = mk_cases(inp["spec"], only=inp.get("mode", "model"))
    if not cs:
        raise vlib.Infra("C15 replay: the base combination of this input is outside the modelled space")
    return cs[0]


def extra(tier, seed):
    """Runtime-only observations: the exception hierarchy the property's 'documented type' relies on."""
    from .vlib import Discrepancy
    out = []
    n = 0
    for cls, parent in ((DefaultAlreadySetError, RuntimeError), (UnannotatedAttributeError, RuntimeError)):
        n += 1
        if not (issubclass(cls, parent) and cls.__module__ == "attr.exceptions"):
            out.append(Discrepancy({"kind": "exception-hierarchy"}, "%s is not a %s from attr.exceptions"
                                   % (cls.__name__, parent.__name__), {"class": cls.__name__}))
    n += 1
    if attrs.exceptions.DefaultAlreadySetError is not DefaultAlreadySetError:
        out.append(Discrepancy({"kind": "exception-hierarchy"}, "attrs.exceptions differs from attr.exceptions", {}))
    return out, {"runtime_observations": n}


def corpus():
    import importlib.util
    import os
    spec = importlib.util.spec_from_file_location("verif_defects", os.path.join(vlib.VERIF, "corpus", "defects.py"))
    m = importlib.util.module_from_spec(spec)
    spec.loader.exec_module(m)

    def guard(fn):
        def run():
            try:
                return fn()
            except Exception as e:  # noqa: BLE001
                return "reproducer raised %s: %s" % (type(e).__name__, e)
        return run

    return [(k, guard(f)) for k, f in m.ALL.items() if "_C15_" in k or k == "F7_C05_frozen_hooked_noinit"]


def EXHAUSTIVE(tier):
    return True


def distribution(cases):
    from collections import Counter
    model = [c for c in cases if c.inp["mode"] == "model"]
    verdicts = Counter("%s/%s" % (c.seen["phase"], c.seen["exc"]) if c.seen["exc"] else "Defined" for c in model)
    return {
        "families": dict(Counter(c.inp.get("family", "?") for c in model)),
        "verdicts": dict(verdicts),
        "apis": dict(Counter(c.inp["spec"]["api"] for c in model)),
        "slots_passed": dict(Counter(str(c.inp["spec"]["kw"].get("slots")) for c in model)),
        "with_bases": sum(1 for c in model if c.inp["spec"]["bases"]),
        "property_layer_cases": len(cases) - len(model),
        "snapshots_compared": sum(1 for c in model if c.seen["untouched"] is not None),
        "rejected_at_decoration_with_snapshot": sum(1 for c in model if c.seen["untouched"] is not None and c.seen["exc"]),
    }
