"""C01 - generated __init__ stores converter(argument | default | fresh factory value)."""
from __future__ import annotations

import random
from collections import Counter

import attr

from . import initgen as g
from . import vlib
from .driver import Case

PROP = "C01"
HEADER = "From Attrs Require Import Base Core.Attr Core.Init Core.InitCorr."
CASE_TYPE = "case"
CHECK = "check_case"
MODEL = "model_of"
RULE = ("seeded random class specifications: per field {default none/value/factory(takes_self) x init x "
        "kw_only x converter none/plain/annotated/Converter(takes_self,takes_field) x validator (arg or "
        "@x.validator) x alias/private name x on_setattr} x class {slots x frozen x cache_hash x kw_only x "
        "class on_setattr x pre/post hooks x exception base} x inheritance chains up to depth 3 with "
        "overridden names and mixed slotted/dict bases x front-end {attr.s+attr.ib, auto_attribs "
        "annotations, these=, make_class, define+field, define+these}; per class every call shape "
        "{mandatory only, all positional, all keyword, random split, each optional omitted, explicit "
        "NOTHING, missing, unknown, surplus, duplicate}; compared: signature, annotations, every field's "
        "stored value (or unset), hash-cache slot, BaseException.args, callback trace, TypeError. "
        "distinct = distinct case term; non-trivial = class with >=1 field and a call that binds")
EXTRA_TRUSTED = ["the field tuple (attr.fields(cls)) and the MRO __slots__ of already-built bases are read from "
                 "the real class and given to the model as input (field collection itself is C07's model)"]
ASSUMPTIONS = ["no two init fields share an alias and no alias equals a generator-internal name (K8/K9)",
               "user callables are symbolic: they record their arguments and return a fresh term"]

MODE = "c01"


def build_chain(rng, uid_counter):
    depth = rng.choice([1, 1, 1, 2, 2, 3])
    cut = None
    chain = []
    for _ in range(depth):
        uid_counter[0] += 1
        for _attempt in range(20):
            spec = g.gen_class_spec(rng, "%d" % uid_counter[0], base=cut, extras=True)
            c = g.ClassUnderTest(spec)
            if c.def_error and "No mandatory attributes" in c.def_error[1]:
                # outside this property's model (C15's table): adjust and retry
                for f in spec["fields"]:
                    if f["default"] is None and f["init"]:
                        f["kw_only"] = True
                c = g.ClassUnderTest(spec)
            if c.def_error and c.def_error[0] != "ValueError":
                continue
            if c.def_error and "No mandatory attributes" in c.def_error[1]:
                continue
            if c.def_error and ("Frozen classes" not in c.def_error[1] and "on_setattr" not in c.def_error[1]):
                continue
            break
        else:
            break
        chain.append(c)
        if c.def_error:
            break
        cut = c
    return chain


def rejected_term(c):
    """A rejected definition: encode the spec from the generator's own description."""
    s = c.spec
    base = s["base"]
    attrs_terms = []
    if base is not None:
        fh = g.field_hook_models(base)
        own = {f["name"] for f in s["fields"]}
        for a in attr.fields(base.cls):
            if a.name not in own:
                attrs_terms.append(g.enc_attribute(a.evolve(inherited=True), fh))
    for f in s["fields"]:
        os_ = f["on_setattr"]
        ok = "OsNone" if os_ is None else ("OsNoOp" if os_ == "NO_OP" else "(OsPipe %s)" % vlib.lst(g.hooks_model(os_, f["uid"])))
        dk = "DNothing" if f["default"] is None else ("DValue" if f["default"] == "value" else "(DFactory %s %s)" % (vlib.q("f_" + f["uid"]), vlib.b(f["default"][1])))
        attrs_terms.append("(Build_attribute %s %s None true true None true None None %s None CNone %s false %s (Some %s))"
                           % (vlib.q(f["name"]), dk, vlib.b(f["init"]), vlib.b(f["kw_only"] or s["kw_only"]), ok,
                              vlib.q(f["alias"] or f["name"].lstrip("_"))))
    spec_t = ("(Build_cls_spec %s %s %s %s false false false false %s [] true)"
              % (vlib.lst(attrs_terms), vlib.b(c.frozen), vlib.b(s["slots"]), vlib.b(s["cache_hash"]), c.builder_on_setattr()))
    return spec_t


def cases_for(c, rng, counter, mode):
    out = []
    if c.cls is None:
        term = "(Build_case %s DefRejected [])" % rejected_term(c)
        inp = {"spec": describe(c), "calls": []}
        out.append(Case(term, inp, {"definition": c.def_error[0]}, sig={"definition": "rejected"},
                        nontrivial=True, key=term))
        return out
    got_names, want_names = [a.name for a in attr.fields(c.cls)], expected_field_names(c)
    if got_names != want_names:
        _order_disc.append((describe(c), got_names, want_names))
    # the default KIND of every own field is what the declaration says (independent of attr.fields())
    by_name = {a.name: a for a in attr.fields(c.cls)}
    for f in c.spec["fields"]:
        a = by_name.get(f["name"])
        if a is None:
            continue
        got = "none" if a.default is attr.NOTHING else ("factory" if isinstance(a.default, attr.Factory) else "value")
        want = "none" if f["default"] is None else ("value" if f["default"] == "value" else "factory")
        if got != want:
            _order_disc.append((describe(c), ["default of %s: %s (%r)" % (f["name"], got, a.default)], ["declared: %s" % want]))
    # every declared option of every field (own and inherited) is what the DECLARING class's spec says: the model is
    # fed from the real Attribute objects, so they are cross-checked against the generator's own description here
    for name, want in expected_field_options(c).items():
        a = by_name.get(name)
        if a is None:
            continue
        got = {"alias": a.alias, "init": bool(a.init), "converter": a.converter is not None,
               "validator": a.validator is not None}
        for k in got:
            if got[k] != want[k]:
                _order_disc.append((describe(c), ["%s of %s: %r" % (k, name, got[k])], ["declared: %r" % (want[k],)]))
    spec_t = g.enc_spec(c)
    def_t = g.enc_definition(c)
    try:
        import inspect
        from . import scriptparse
        src = inspect.getsource(g.init_function(c.cls))
        pos_t, kw_t, body_t = scriptparse.parse_init(src)
        _script_terms.append(("(Build_script_case %s %s %s %s)" % (spec_t, pos_t, kw_t, body_t), src))
    except Exception as e:  # unknown source shape: recorded, never an alarm
        _script_unrecognised.append("%s: %s" % (type(e).__name__, e))
    calls_t, seen, kinds = [], [], []
    counter[0] = 0
    for pos, kw, kind in g.call_shapes(c, rng, counter):
        t, js, n, _ = g.construct(c, pos, kw)
        calls_t.append("(%s, %s)" % (g.enc_call(pos, kw, None, True), t))
        seen.append({"call": kind, "pos": [repr(v) for v in pos], "kw": [(n_, repr(v)) for n_, v in kw], "observed": js})
        kinds.append(kind)
        if mode == "c02" and js["outcome"] == "done" and kind in ("mandatory-only", "all-positional", "random-split", "explicit-NOTHING"):
            t2, js2, _, _ = g.construct(c, pos, kw, validators_on=False)
            calls_t.append("(%s, %s)" % (g.enc_call(pos, kw, None, False), t2))
            seen.append({"call": kind + "/validators-off", "observed": js2})
            for k in range(n):
                t3, js3, _, _ = g.construct(c, pos, kw, fault_at=k)
                calls_t.append("(%s, %s)" % (g.enc_call(pos, kw, k, True), t3))
                seen.append({"call": kind + "/fault@%d" % k, "observed": js3})
    if g.REC.early:
        _order_disc.append((describe(c), sorted(set(g.REC.early)), ["nothing that follows __attrs_post_init__ in the protocol has happened when it runs"]))
        g.REC.early.clear()
    term = "(Build_case %s %s %s)" % (spec_t, def_t, vlib.lst(calls_t))
    inp = {"spec": describe(c), "calls": kinds}
    out.append(Case(term, inp, seen, sig={}, nontrivial=bool(attr.fields(c.cls)), key=term))
    return out


def describe(c):
    s = c.spec
    d = {k: (v if k != "fields" else [{kk: vv for kk, vv in f.items()} for f in v]) for k, v in s.items() if k not in ("base", "_named_sig")}
    d["base"] = describe(s["base"]) if s["base"] is not None else None
    return d


_dist = Counter()
_order_disc = []


def expected_field_names(c):
    """Linear chains: inherited names (those not redefined here) in the base's order, then own names in
    definition order.  Field collection proper is C07's model; this keeps C01's "parameters follow field
    order ... for (multi-level) inherited classes" independent of what attr.fields() says."""
    s = c.spec
    own = [f["name"] for f in s["fields"]]
    base = expected_field_names(s["base"]) if s["base"] is not None else []
    return [n for n in base if n not in own] + own


def expected_field_options(c):
    """field name -> {alias, init, converter?, validator?} from the spec of the most derived class declaring it"""
    s = c.spec
    out = expected_field_options(s["base"]) if s["base"] is not None else {}
    for f in s["fields"]:
        out[f["name"]] = {"alias": f["alias"] or f["name"].lstrip("_"), "init": bool(f["init"]) if not f.get("bare") else True,
                          "converter": f["converter"] is not None, "validator": bool(f["validator"])}
    return out


_script_terms = []
_script_unrecognised = []


def script_tie():
    """Translation validation of the init generator (supplementary evidence, never an alarm): the source
    text of every real generated __init__ of this run, parsed into the model's statement language, must
    be literally the model's script for that class."""
    if not _script_terms:
        return {"script_tie": "no classes"}
    bad = vlib.run_cases(PROP, HEADER, "script_case", "script_case_ok", [t for t, _ in _script_terms], tag="script")
    res = {"script_tie": {"classes_parsed": len(_script_terms), "script_equal_to_model": len(_script_terms) - len(bad),
                          "different": len(bad), "unrecognised_source_shape": len(_script_unrecognised)}}
    if bad:
        t, src = _script_terms[bad[0]]
        res["script_tie"]["first_difference"] = {"real_source": src,
                                                 "model_script": vlib.eval_in_coq(PROP, HEADER, "script_model_of (%s)" % t)[:3000]}
        print("NOTE: script-level tie: %d of %d real __init__ sources differ from the model's script "
              "(not a verdict; see evidence)" % (len(bad), len(_script_terms)))
    if _script_unrecognised:
        res["script_tie"]["first_unrecognised"] = _script_unrecognised[0][:500]
    return res


def extra(tier, seed):
    from .vlib import Discrepancy
    cov_tie = script_tie()
    out = [Discrepancy({"kind": "field-order"}, "fields(cls) %r differs from the declaration %r" % (got, want),
                       {"input": {"spec": spec}, "got": got, "expected": want}) for spec, got, want in _order_disc[:10]]
    cov = {"runtime_observations": _dist.get("defined", 0)}
    cov.update(cov_tie)
    return out, cov


def exhaustive_single_field(tier, rng, uidc):
    """Every combination of the per-field options for a one-field class (the small-scope part of the
    quantifier, enumerated rather than sampled); class modes enumerated in thorough, drawn in quick."""
    import itertools
    defaults = [None, "value", ("factory", False), ("factory", True)]
    hooks = [None, "NO_OP", "user"]
    modes = list(itertools.product([False, True], repeat=3)) if tier == "thorough" else [None]
    for d, init, kwo, conv, val, hook in itertools.product(defaults, [True, False], [False, True],
                                                             g.CONV_KINDS[1:], [False, True], hooks):
        for m in modes:
            slots, frozen, cache = m if m is not None else (rng.random() < 0.5, rng.random() < 0.3, rng.random() < 0.3)
            if frozen and hook is not None and rng.random() < 0.9:
                continue            # rejected definitions are covered by the random stream
            uidc[0] += 1
            uid = "%d" % uidc[0]
            f = {"name": rng.choice(["x", "_p"]), "default": d, "init": init, "kw_only": kwo, "converter": conv,
                 "validator": val, "validator_style": "arg", "alias": None, "on_setattr": hook, "type": conv is None,
                 "uid": "f_" + uid}
            spec = {"uid": uid, "api": rng.choice(["attrs", "define"]), "base": None, "style": "attrib", "slots": slots,
                    "frozen": frozen, "kw_only": False, "exc": False, "cache_hash": cache, "pre": None, "post": False,
                    "on_setattr": None, "fields": [f]}
            if spec["api"] == "define":
                spec["style"] = "attrib_in_define"
            yield g.ClassUnderTest(spec)


def generate(tier, seed, mode=None):
    mode = mode or MODE
    rng = random.Random(seed)
    n_chains = {"c01": (500, 20000), "c02": (220, 6000)}[mode][0 if tier == "quick" else 1]
    uidc, counter = [0], [0]
    cases = []
    _dist.clear()
    _order_disc.clear()
    _script_terms.clear()
    _script_unrecognised.clear()
    if mode == "c01" or tier == "thorough":
        for c in exhaustive_single_field(tier, rng, uidc):
            if c.def_error and c.def_error[0] != "ValueError":
                continue
            cases.extend(cases_for(c, rng, counter, mode))
            _dist["exhaustive-single-field"] += 1
    for _ in range(n_chains):
        chain = build_chain(rng, uidc)
        for c in chain:
            cs = cases_for(c, rng, counter, mode)
            cases.extend(cs)
            s = c.spec
            _dist["api=" + s["api"]] += 1
            _dist["style=" + s["style"]] += 1
            _dist["slots=%s" % s["slots"]] += 1
            _dist["frozen=%s" % c.frozen] += 1
            _dist["depth=%d" % (1 + (s["base"] is not None) + (s["base"] is not None and s["base"].spec["base"] is not None))] += 1
            _dist["rejected" if c.cls is None else "defined"] += 1
            _dist["init=False (constructed through __attrs_init__)"] += bool(s.get("init_false"))
            _dist["exception class"] += bool(s.get("exc"))
            _dist["undecorated class in between"] += bool(s.get("plain_between"))
            if c.cls is not None:
                _dist["fields=%d" % len(attr.fields(c.cls))] += 1
            for f in s["fields"]:
                _dist["conv=%s" % (f["converter"] and f["converter"][0])] += 1
                for role in f.get("falsy", ()):
                    _dist["falsy callable object as " + role] += 1
                _dist["shared Converter object"] += bool(f.get("conv_share"))
                _dist["bare annotation"] += bool(f.get("bare"))
                _dist["default=%s" % (f["default"] if isinstance(f["default"], (str, type(None))) else "factory")] += 1
    # deterministic family: a hooked attrs base, an undecorated class, a dict leaf without hooks of its own (the leaf's
    # generated __init__ assigns plainly; the base's hooks must not run during construction)
    n_hooked = 30 if tier == "quick" else 300
    made = 0
    for _ in range(n_hooked * 6):
        if made >= n_hooked:
            break
        uidc[0] += 1
        bs = g.gen_class_spec(rng, "%d" % uidc[0], base=None, extras=True)
        bs.update({"on_setattr": rng.choice(["user", "list_user2", "convert", "list_cv"]), "frozen": False, "exc": False,
                   "init_false": False})
        if not bs["fields"]:
            continue
        base = g.ClassUnderTest(bs)
        if base.cls is None:
            continue
        uidc[0] += 1
        ls = g.gen_class_spec(rng, "%d" % uidc[0], base=base, hooks_ok=False, extras=True)
        ls.update({"slots": False, "frozen": False, "on_setattr": None, "plain_between": True, "init_false": False})
        for f in ls["fields"]:
            f["on_setattr"] = None
        leaf = g.ClassUnderTest(ls)
        if leaf.cls is None:
            continue
        cases.extend(cases_for(leaf, rng, counter, mode))
        _dist["hooked base / undecorated class / hook-free dict leaf"] += 1
        made += 1
    for i, c in enumerate(cases):
        c.inp["gen"] = {"tier": tier, "seed": seed, "mode": mode, "index": i}
    _dist["calls"] = sum(len(c.seen) if isinstance(c.seen, list) else 0 for c in cases)
    return cases


def distribution(cases):
    return dict(sorted(_dist.items()))


def rerun(inp):
    """Classes are built from closures, so a case is re-created by regenerating the seeded stream it came
    from (deterministic) and picking the same index."""
    g_ = inp.get("gen")
    if not g_:
        raise vlib.Infra("replay file carries no generator coordinates")
    cs = generate(g_["tier"], g_["seed"], mode=g_["mode"])
    return cs[g_["index"]]


def corpus():
    import importlib.util, os
    spec = importlib.util.spec_from_file_location("verif_defects", os.path.join(vlib.VERIF, "corpus", "defects.py"))
    m = importlib.util.module_from_spec(spec)
    spec.loader.exec_module(m)
    return [(k, f) for k, f in m.ALL.items() if "_%s_" % PROP in k]
