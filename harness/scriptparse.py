"""Fail-closed reader of the source text of a REAL attrs-generated __init__ / __attrs_init__ into the
statement language of coq/theories/Core/Init.v (translation validation of the init generator).

parse_init(src) -> (pos_params, kw_params, body) as Gallina terms, or raises Unrecognised when the text
uses a construct the reader does not know (a harmless rewrite of the generator does that: the caller
records `script_tie: unrecognised` and the behavioural correspondence alone carries the claim)."""
import ast

from .vlib import b, lst, pair, q

HASH_CACHE = "_attrs_cached_hash"


class Unrecognised(Exception):
    pass


def _is_attr_dict_default(n):
    # attr_dict['x'].default
    return (isinstance(n, ast.Attribute) and n.attr == "default" and isinstance(n.value, ast.Subscript)
            and isinstance(n.value.value, ast.Name) and n.value.value.id == "attr_dict"
            and isinstance(n.value.slice, ast.Constant))


def _is_attr_dict_item(n):
    return (isinstance(n, ast.Subscript) and isinstance(n.value, ast.Name) and n.value.id == "attr_dict"
            and isinstance(n.slice, ast.Constant))


def _vexpr(n):
    if isinstance(n, ast.Name):
        return "(XArg %s)" % q(n.id)
    if _is_attr_dict_default(n):
        return "(XDefault %s)" % q(n.value.slice.value)
    if isinstance(n, ast.Call) and isinstance(n.func, ast.Name) and n.func.id.startswith("__attr_factory_") and not n.keywords:
        fld = n.func.id[len("__attr_factory_"):]
        if len(n.args) == 0:
            return "(XFactory %s %s false)" % (q(fld), q(fld))
        if len(n.args) == 1 and isinstance(n.args[0], ast.Name) and n.args[0].id == "self":
            return "(XFactory %s %s true)" % (q(fld), q(fld))
    raise Unrecognised(ast.dump(n))


def _value(n, fld):
    """value expression of a store -> (conv_call term, vexpr term)"""
    if isinstance(n, ast.Call) and isinstance(n.func, ast.Name) and n.func.id.startswith("__attr_converter_") and not n.keywords:
        cf = n.func.id[len("__attr_converter_"):]
        if cf != fld or not n.args:
            raise Unrecognised("converter helper of another field: " + ast.dump(n))
        rest = n.args[1:]
        ts = tf = False
        for r in rest:
            if isinstance(r, ast.Name) and r.id == "self" and not ts and not tf:
                ts = True
            elif _is_attr_dict_item(r) and r.slice.value == fld and not tf:
                tf = True
            else:
                raise Unrecognised(ast.dump(r))
        return "(ConvCall %s %s %s)" % (q(fld), b(ts), b(tf)), _vexpr(n.args[0])
    return "NoConv", _vexpr(n)


def _store(st):
    """one store statement -> SStore term"""
    if isinstance(st, ast.Expr) and isinstance(st.value, ast.Call) and isinstance(st.value.func, ast.Name) \
            and st.value.func.id == "_setattr" and len(st.value.args) == 2 and isinstance(st.value.args[0], ast.Constant):
        fld = st.value.args[0].value
        how, val = "SetCached", st.value.args[1]
    elif isinstance(st, ast.Assign) and len(st.targets) == 1:
        t = st.targets[0]
        if isinstance(t, ast.Attribute) and isinstance(t.value, ast.Name) and t.value.id == "self":
            fld, how, val = t.attr, "SetPlain", st.value
        elif isinstance(t, ast.Subscript) and isinstance(t.value, ast.Name) and t.value.id == "_inst_dict" \
                and isinstance(t.slice, ast.Constant):
            fld, how, val = t.slice.value, "SetInstDict", st.value
        else:
            raise Unrecognised(ast.dump(st))
    else:
        raise Unrecognised(ast.dump(st))
    if fld == HASH_CACHE:
        if isinstance(val, ast.Constant) and val.value is None:
            return "(SHashCacheInit %s)" % how
        raise Unrecognised(ast.dump(st))
    c, e = _value(val, fld)
    return "(SStore %s %s %s %s)" % (how, q(fld), c, e)


def _call_on_self(st, name):
    return (isinstance(st, ast.Expr) and isinstance(st.value, ast.Call) and isinstance(st.value.func, ast.Attribute)
            and isinstance(st.value.func.value, ast.Name) and st.value.func.value.id == "self" and st.value.func.attr == name)


def parse_init(src):
    tree = ast.parse(src)
    if len(tree.body) != 1 or not isinstance(tree.body[0], ast.FunctionDef):
        raise Unrecognised("not a single def")
    fn = tree.body[0]
    a = fn.args
    if a.vararg or a.kwarg or a.posonlyargs or not a.args or a.args[0].arg != "self":
        raise Unrecognised("signature shape")

    def pdefault(d):
        if d is None:
            return "PMandatory"
        if isinstance(d, ast.Name) and d.id == "NOTHING":
            return "PNothing"
        if _is_attr_dict_default(d):
            return "(PDefaultOf %s)" % q(d.value.slice.value)
        raise Unrecognised(ast.dump(d))

    pos_args = a.args[1:]
    pos_defaults = [None] * (len(pos_args) - len(a.defaults)) + list(a.defaults)
    pos = [pair(q(p.arg), pdefault(d)) for p, d in zip(pos_args, pos_defaults)]
    kw = [pair(q(p.arg), pdefault(d)) for p, d in zip(a.kwonlyargs, a.kw_defaults)]
    body = []
    for st in fn.body:
        if isinstance(st, ast.Pass):
            continue
        if _call_on_self(st, "__attrs_pre_init__"):
            c = st.value
            if not c.args and not c.keywords:
                body.append("(SPreInit None)")
            else:
                if not all(isinstance(x, ast.Name) for x in c.args) or \
                        not all(isinstance(k.value, ast.Name) and k.arg == k.value.id for k in c.keywords):
                    raise Unrecognised(ast.dump(st))
                body.append("(SPreInit (Some (%s, %s)))" % (lst(q(x.id) for x in c.args), lst(q(k.arg) for k in c.keywords)))
        elif _call_on_self(st, "__attrs_post_init__") and not st.value.args and not st.value.keywords:
            body.append("SPostInit")
        elif isinstance(st, ast.Assign) and len(st.targets) == 1 and isinstance(st.targets[0], ast.Name):
            t = st.targets[0].id
            v = st.value
            if t == "_setattr" and isinstance(v, ast.Call) and isinstance(v.func, ast.Name) and v.func.id == "_cached_setattr_get":
                body.append("SBindSetattr")
            elif t == "_inst_dict" and isinstance(v, ast.Attribute) and v.attr == "__dict__":
                body.append("SBindInstDict")
            else:
                raise Unrecognised(ast.dump(st))
        elif isinstance(st, ast.If):
            t = st.test
            if isinstance(t, ast.Compare) and len(t.ops) == 1 and isinstance(t.ops[0], ast.IsNot) \
                    and isinstance(t.left, ast.Name) and isinstance(t.comparators[0], ast.Name) \
                    and t.comparators[0].id == "NOTHING" and len(st.body) == 1 and len(st.orelse) == 1:
                body.append("(SIfNotNothing %s %s %s)" % (q(t.left.id), _store(st.body[0]), _store(st.orelse[0])))
            elif isinstance(t, ast.Compare) and len(t.ops) == 1 and isinstance(t.ops[0], ast.Is) \
                    and isinstance(t.left, ast.Attribute) and t.left.attr == "_run_validators" \
                    and isinstance(t.comparators[0], ast.Constant) and t.comparators[0].value is True and not st.orelse:
                vs = []
                for v in st.body:
                    c = v.value if isinstance(v, ast.Expr) else None
                    if not (isinstance(c, ast.Call) and isinstance(c.func, ast.Name) and c.func.id.startswith("__attr_validator_")
                            and len(c.args) == 3 and isinstance(c.args[0], ast.Name) and c.args[0].id == "self"
                            and isinstance(c.args[1], ast.Name) and isinstance(c.args[2], ast.Attribute)):
                        raise Unrecognised(ast.dump(v))
                    fld = c.func.id[len("__attr_validator_"):]
                    if c.args[1].id != "__attr_field_" + fld or c.args[2].attr != fld:
                        raise Unrecognised("validator call wiring: " + ast.dump(v))
                    vs.append(pair(q(fld), q(fld)))
                body.append("(SValidators %s)" % lst(vs))
            else:
                raise Unrecognised(ast.dump(st))
        elif isinstance(st, ast.Expr) and isinstance(st.value, ast.Call) and isinstance(st.value.func, ast.Attribute) \
                and st.value.func.attr == "__init__" and isinstance(st.value.func.value, ast.Name) \
                and st.value.func.value.id == "BaseException":
            args = st.value.args
            if not args or not (isinstance(args[0], ast.Name) and args[0].id == "self"):
                raise Unrecognised(ast.dump(st))
            flds = []
            for x in args[1:]:
                if not (isinstance(x, ast.Attribute) and isinstance(x.value, ast.Name) and x.value.id == "self"):
                    raise Unrecognised(ast.dump(x))
                flds.append(q(x.attr))
            body.append("(SExcInit %s)" % lst(flds))
        else:
            body.append(_store(st))
    return lst(pos), lst(kw), lst(body)
