"""Entry point:  python -m harness.main <Cxx> [options]  |  --setup"""
import importlib
import os
import sys

from . import vlib


def setup():
    from . import translate
    translate.regenerate_all(verbose=True)
    import json
    claims = json.load(open(os.path.join(vlib.VERIF, "MANIFEST.json")))
    props = [c["property_id"] for c in claims["checks"]]
    targets = []
    for p in props:
        mod = importlib.import_module("harness." + p.lower())
        if hasattr(mod, "pre_build"):
            mod.pre_build()
        if hasattr(mod, "translated_tie"):
            st, tgt = mod.translated_tie()
            if all(v == "translated" for v in st.values()):
                targets.append(tgt)
    for p in props:
        targets += ["theories/%s/Corr.vo" % p, "theories/Props/%s.vo" % p]
    from . import driver
    if any(p in driver.TRANSLATED_TIE for p in props):
        targets.append("theories/Core/TranslatedTie.vo")
    ok, log = vlib.make(targets)
    print(log[-3000:])
    if not ok:
        print("SETUP FAILED: Coq development does not build")
        return 2
    print("setup ok")
    return 0


def main(argv):
    if not argv or argv[0] in ("-h", "--help"):
        print(__doc__)
        return 2
    if argv[0] == "--setup":
        return setup()
    prop = argv[0].upper()
    mod = importlib.import_module("harness." + prop.lower())
    from . import driver
    return driver.run(mod, argv[1:])


if __name__ == "__main__":
    rc = main(sys.argv[1:])
    sys.stdout.flush()
    os._exit(rc)
