"""C05 - frozen instances cannot be mutated; frozenness is inherited.

Real-side driver: builds class hierarchies (attrs classes through harness/initgen.py, undecorated
classes in between / below, a few multiple-inheritance shapes), observes what every class resolves
`__setattr__` / `__delattr__` to, constructs instances through the real initializer and runs
operation histories (set / delete / augmented assignment) on them, recording after EVERY step the
exception class and the full instance state.  coqc evaluates C05/Model.v on the same input."""
from __future__ import annotations

import ast
import itertools
import os
import random
import sys
import types
from collections import Counter

import attr
import attrs
from attr import setters
from attr.exceptions import FrozenError, FrozenInstanceError

from . import initgen as g
from . import vlib
from .driver import Case
from .vlib import b, lst, pair, q

PROP = "C05"
HEADER = "From Attrs Require Import Base Core.Attr Core.Init Core.InitCorr C05.Model C05.Corr."
CASE_TYPE = "case"
CHECK = "check_case"
MODEL = "model_of"
RULE = ("class hierarchies: every structured plan {frozen root by attr.s(frozen=True) | define(frozen=True) | "
        "attrs.frozen | mutable | hooked-mutable-above-frozen} x {attrs subclasses (attr.s / define / "
        "attrs.frozen, frozen arg or inherited), undecorated classes between and below, user-written "
        "__setattr__/__delattr__, multiple inheritance with mixins on either side} at depth 1-4, fields / slots / "
        "cache_hash / exception base / pre-post hooks / front-end style drawn by initgen.gen_class_spec from the "
        "seed, plus a malformed stream (hooks on frozen classes incl. init=False fields); per accepted class "
        "with an initializer: one real construction, then EVERY history over a 5-operation alphabet "
        "{set f, del f, set unknown, del unknown, f += v} of length 3 (quick) / 5 (thorough, for a sample; 4 "
        "otherwise), every history of length 2 (quick) / 3 over an odd-name alphabet (__dict__, __class__, "
        "__weakref__, __slots__, __doc__, _attrs_cached_hash), every history of length 2 over names NEAR the bookkeeping "
        "names (substrings, superstrings, prefixes/suffixes, other spellings of __cause__ ... __notes__, the empty name; "
        "fields are renamed n / s / note / notes / ... so that deleting such a name hits a real field) and, on "
        "exceptions, over the bookkeeping alphabets, "
        "plus seeded random histories up to length 7 over the whole operation pool; each history starts from a "
        "fresh instance; observed after each step: exception class (FrozenInstanceError exactly / other "
        "AttributeError / TypeError / none) and the full state (every field, vars(), hash-cache attribute, "
        "BaseException.args, __cause__/__context__/__traceback__/__suppress_context__). distinct = distinct case "
        "term; non-trivial = the case has a target instance and at least one history")
EXTRA_TRUSTED = [
    "the field tuple, MRO __slots__, presence of __dict__, cls.__bases__ and cls.__mro__ of the real classes are "
    "read from the real classes and given to the model as input (C3 linearisation and field collection are not "
    "part of this model)",
    "CPython semantics of BaseException.__setattr__/__delattr__ for __cause__, __context__, __traceback__, "
    "__suppress_context__, __notes__ and of object.__setattr__/__delattr__ (modelled by hand)",
    "harness/translate_c05.py: the fail-closed Python-subset -> Gallina translator behind the tie by translation "
    "(Gen/C05_tie.v, lemmas in C05/Tie.v), including its reading of Python's if/and/or/not/in/is and of which "
    "statements of attrs().wrap, _ClassBuilder.__init__ and add_setattr it slices out",
]
ASSUMPTIONS = [
    "user-written __setattr__/__delattr__ used by the harness delegate to object's; hooked fields of mutable "
    "classes are never assigned (that is C06)",
    "values assigned to __cause__/__context__/__traceback__/__suppress_context__ are well typed or a symbolic "
    "non-exception (then TypeError is expected)",
]

# --------------------------------------------------------------------------------------
# constants read from the source


def translated_tie():
    """Source-level tie: Gen/C05_tie.v is regenerated from the current _make.py; C05/Tie.v proves it equal to
    the model functions on every input."""
    from . import translate_c05
    return translate_c05.regenerate(), "theories/C05/Tie.vo"


def pre_build():
    from . import translate_c05
    translate_c05.regenerate()
    # the constants file of the first version of this check is superseded by the tie (C05/Tie.v)
    old = os.path.join(vlib.THEORIES, "Gen", "C05_consts.v")
    for ext in (".v", ".vo", ".vok", ".vos", ".glob"):
        try:
            os.remove(old[:-2] + ext)
        except OSError:
            pass


# --------------------------------------------------------------------------------------
# values


class ATok(g.Tok):
    """Right operand of `o.f += v`: adds to anything that has no __add__ of its own."""
    __slots__ = ()

    def __radd__(self, other):
        return g.Sym("add", (other, self))


class XTok(Exception):
    """An exception object used as __cause__ / __context__ value; encodes as VTok n."""

    def __init__(self, n):
        super().__init__(n)
        self.n = n


def _make_tb():
    try:
        raise RuntimeError("tb")
    except RuntimeError as e:
        return e.__traceback__


_TB = _make_tb()
TB_TOK = 40


def mk_value(d):
    k = d[0]
    if k == "tok":
        return g.Tok(d[1])
    if k == "atok":
        return ATok(d[1])
    if k == "exc":
        return XTok(d[1])
    if k == "tb":
        return _TB
    if k == "none":
        return None
    if k == "bool":
        return bool(d[1])
    if k == "sym":
        return g.Sym("notexc", ())
    raise ValueError(d)


def enc_v(v):
    if isinstance(v, XTok):
        return "VTok %d" % v.n
    if isinstance(v, types.TracebackType):
        return "VTok %d" % TB_TOK
    if isinstance(v, g.Sym):
        return "VApp %s %s" % (q(v.fn), lst(pv(a) for a in v.args))
    if isinstance(v, int) and not isinstance(v, bool):
        return "VApp %s []" % q("<int>")
    return g.enc_val(v)


def pv(v):
    s = enc_v(v)
    return "(%s)" % s if " " in s else s


def js_v(v):
    if isinstance(v, XTok):
        return "XTok(%d)" % v.n
    if isinstance(v, types.TracebackType):
        return "<traceback>"
    return g.js_val(v)


# --------------------------------------------------------------------------------------
# building hierarchies


def _user_setattr(self, name, value):
    object.__setattr__(self, name, value)


def _user_delattr(self, name):
    object.__delattr__(self, name)


import weakref

_CUT_OF = weakref.WeakKeyDictionary()      # real class -> the object that built it


class PlainCUT:
    """An undecorated class, shaped like initgen.ClassUnderTest as far as initgen looks."""

    def __init__(self, desc, bases_cuts):
        self.desc = desc
        self.def_error = None
        base = bases_cuts[0] if bases_cuts else None
        anc = base
        while anc is not None and isinstance(anc, PlainCUT):
            anc = anc.spec["base"]
        self.spec = {"uid": desc["uid"], "api": None, "base": base, "fields": [], "pre": None, "post": None,
                     "on_setattr": None, "frozen": False, "exc": False, "kw_only": False, "style": "plain",
                     "slots": bool(anc is not None and anc.spec["slots"]),
                     "cache_hash": bool(anc is not None and anc.spec["cache_hash"])}
        body = {}
        if desc.get("user_sa"):
            body["__setattr__"] = _user_setattr
        if desc.get("user_da"):
            body["__delattr__"] = _user_delattr
        if desc.get("slots_empty"):
            body["__slots__"] = ()
        bases = tuple(c.cls for c in bases_cuts) or (object,)
        self.cls = type("P" + desc["uid"], bases, body)
        # the initializer instances are built with is the one of the nearest attrs class of the MRO
        for k in self.cls.__mro__[1:]:
            c = _CUT_OF.get(k)
            if c is not None and not isinstance(c, PlainCUT):
                self.spec["slots"] = bool(c.spec["slots"])
                self.spec["cache_hash"] = bool(c.spec["cache_hash"])
                break

    @property
    def frozen(self):
        base = self.spec["base"]
        return bool(base is not None and base.frozen and not self.desc.get("user_sa"))

    @property
    def is_exc_base(self):
        return issubclass(self.cls, BaseException)

    @property
    def field_names(self):
        return [a.name for a in getattr(self.cls, "__attrs_attrs__", ())]

    def has_hook(self, which):
        base = self.spec["base"]
        return base.has_hook(which) if base is not None else None


class CUT5(g.ClassUnderTest):
    """initgen's builder plus: attrs.frozen as front-end, a user-written __setattr__/__delattr__ in the
    class body, further bases.  Done by shadowing two globals of initgen for the duration of build()."""

    def __init__(self, spec, desc, extra_cuts):
        self.desc = desc
        self.extra_cuts = extra_cuts
        super().__init__(spec)

    def build(self):
        desc = self.desc
        extra = tuple(c.cls for c in self.extra_cuts)
        add = {}
        if desc.get("user_sa"):
            add["__setattr__"] = _user_setattr
        if desc.get("user_da"):
            add["__delattr__"] = _user_delattr
        self.raw_bases = None

        def shim_type(name, bases=None, body=None):
            if bases is None:
                return type(name)
            if bases == (object,) and extra:
                bases = extra
            else:
                bases = bases + extra
            self.raw_bases = bases
            return type(name, bases, dict(body, **add))

        old_attrs = g.attrs
        try:
            if add or extra:
                g.type = shim_type
            if desc.get("alias"):
                g.attrs = types.SimpleNamespace(define=attrs.frozen, field=attrs.field)
                self.spec["frozen"] = False            # the alias supplies frozen=True itself
            super().build()
        finally:
            g.attrs = old_attrs
            if "type" in g.__dict__:
                del g.type
            if desc.get("alias"):
                self.spec["frozen"] = True


def classify(cls):
    from attr._make import _frozen_delattrs, _frozen_setattrs
    sa, da = cls.__setattr__, cls.__delattr__
    if sa is _frozen_setattrs:
        s = "SaFrozen"
    elif sa is object.__setattr__ or sa is BaseException.__setattr__:
        s = "SaObject"
    elif sa is _user_setattr:
        s = "SaUser"
    else:
        s = "(SaHooked [])"
    if da is _frozen_delattrs:
        d = "DaFrozen"
    elif da is object.__delattr__ or da is BaseException.__delattr__:
        d = "DaObject"
    elif da is _user_delattr:
        d = "DaUser"
    else:
        d = "DaUser"
    return s, d


def user_os_term(tag, uid):
    if tag is None:
        return "COsNone"
    if tag == "NO_OP":
        return "COsNoOp"
    hs = g.hooks_model(tag, uid)
    if tag in ("validate", "convert", "user"):
        return "(COsSingle (%s))" % hs[0] if " " in hs[0] else "(COsSingle %s)" % hs[0]
    return "(COsPipe %s)" % lst(hs)


def rejected_spec_term(c, raw_bases):
    """The class was rejected: no real Attribute objects for the own fields; encode them from the description.
    Inherited ones: every attrs class of the would-be MRO contributes its own (non-inherited) fields, nearest
    first (only which hooks / validators / converters exist matters for a rejection, not the order)."""
    s = c.spec
    terms = []
    own = {f["name"] for f in s["fields"]}
    taken = set(own)
    probe = type("probe", raw_bases, {})
    for k in probe.__mro__[1:-1]:
        for a in k.__dict__.get("__attrs_attrs__", ()):
            if a.inherited or a.name in taken:
                continue
            taken.add(a.name)
            terms.append(g.enc_attribute(a.evolve(inherited=True), {}))
    for f in s["fields"]:
        os_ = f["on_setattr"]
        ok = "OsNone" if os_ is None else ("OsNoOp" if os_ == "NO_OP" else "(OsPipe %s)" % lst(g.hooks_model(os_, f["uid"])))
        dk = ("DNothing" if f["default"] is None else
              ("DValue" if f["default"] == "value" else "(DFactory %s %s)" % (q("f_" + f["uid"]), b(f["default"][1]))))
        vk = "(Some %s)" % q("v_" + f["uid"]) if f["validator"] else "None"
        ck = "CNone" if f["converter"] is None else "(CPlain %s false)" % q("c_" + f["uid"])
        terms.append("(Build_attribute %s %s %s true true None true None None %s None %s %s false %s (Some %s))"
                     % (q(f["name"]), dk, vk, b(f["init"]), ck, b(bool(f["kw_only"] or s["kw_only"])), ok,
                        q(f["alias"] or f["name"].lstrip("_"))))
    return ("(Build_cls_spec %s false %s %s false false false false COsNone [] true)"
            % (lst(terms), b(s["slots"]), b(s["cache_hash"])))


# the ValueErrors this model decides (the message is only used to tell them from the other rules of attrs())
REJECTIONS = ("Frozen classes can't use on_setattr", "Can't freeze a class with a custom __setattr__",
              "Can't combine custom __setattr__ with on_setattr hooks")


class Hier:
    """A built hierarchy: elements in definition order."""

    def __init__(self, descs):
        self.descs = descs
        self.cuts = []          # per element: CUT5 | PlainCUT
        self.ids = []           # per element: model id or None (rejected)
        self.terms = []         # per element: (cdef term, observed term)
        self.error = None       # a definition failed with something else than ValueError: unusable
        nid = 0
        by_cls = {}
        for d in descs:
            bases_idx = ([d["base"]] if d.get("base") is not None else []) + list(d.get("extra_bases", []))
            if any(self.ids[i] is None for i in bases_idx):
                self.error = "base rejected"
                break
            bcuts = [self.cuts[i] for i in bases_idx]
            if d["kind"] == "plain":
                try:
                    cut = PlainCUT(d, bcuts)
                except TypeError as e:      # layout conflict etc.
                    self.error = "plain: %s" % e
                    break
            else:
                spec = dict(d["spec"])
                spec["fields"] = [dict(f) for f in spec["fields"]]
                spec["base"] = bcuts[0] if d.get("base") is not None else None
                cut = CUT5(spec, d, bcuts[1:] if d.get("base") is not None else bcuts)
                if cut.def_error and not (cut.def_error[0] == "ValueError"
                                          and any(m in cut.def_error[1] for m in REJECTIONS)):
                    # some other rule of attrs() (C15's table): not an input of this model
                    self.error = "%s: %s" % cut.def_error
                    break
            self.cuts.append(cut)
            if cut.cls is not None:
                _CUT_OF[cut.cls] = cut
            if cut.cls is None:
                self.ids.append(None)
            else:
                self.ids.append(nid)
                by_cls[cut.cls] = nid
                nid += 1
            # ids of bases / mro
            if cut.cls is not None:
                mro = [by_cls[c] for c in cut.cls.__mro__[1:] if c in by_cls]
                bases = [by_cls[c] for c in cut.cls.__bases__ if c in by_cls]
                root_exc = any(isinstance(c, type) and issubclass(c, BaseException) and c not in by_cls
                               for c in cut.cls.__bases__)
            else:
                raw_bases = tuple(c.cls for c in bcuts) or ((Exception,) if d["spec"].get("exc") else (object,))
                probe = type("probe", raw_bases, {})
                mro = [by_cls[c] for c in probe.__mro__[1:] if c in by_cls]
                bases = [by_cls[c] for c in raw_bases if c in by_cls]
                root_exc = any(issubclass(c, BaseException) and c not in by_cls for c in raw_bases)
            self.terms.append(self._encode(d, cut, bases, mro, root_exc, raw_bases if cut.cls is None else None))

    def _encode(self, d, cut, bases, mro, root_exc, raw_bases):
        ids = lambda l: lst("%d" % i for i in l)
        if d["kind"] == "plain":
            a = "None"
            adds_dict = not d.get("slots_empty")
        else:
            s = cut.spec
            api = "ApiFrozen" if d.get("alias") else ("ApiAttrS" if s["api"] == "attrs" else "ApiDefine")
            spec_t = g.enc_spec(cut) if cut.cls is not None else rejected_spec_term(cut, raw_bases)
            a = "(Some (Build_adef %s %s %s %s %s))" % (
                api, b(bool(s["frozen"]) and not d.get("alias")), b(s["api"] == "define"),
                user_os_term(s["on_setattr"], s["uid"]), spec_t)
            adds_dict = False
        t = "(Build_cdef %s %s %s %s %s %s %s)" % (a, ids(bases), ids(mro), b(bool(d.get("user_sa"))),
                                                  b(bool(d.get("user_da"))), b(root_exc), b(adds_dict))
        if cut.cls is None:
            return t, "None", None
        sa, da = classify(cut.cls)
        return t, "(Some (%s, %s))" % (sa, da), (sa, da)


# --------------------------------------------------------------------------------------
# observing instances

ODD = ["__dict__", "__class__", "__weakref__", "__slots__", "__doc__", "_attrs_cached_hash", "__module__"]
MEMBERS = ["__cause__", "__context__", "__traceback__", "__suppress_context__"]


def observe(inst, cut):
    cls = type(inst)
    fields = [(a.name, getattr(inst, a.name, g.UNSET)) for a in attr.fields(cls)]
    # vars() without the fields and the hash cache: those are observed by name above / below (which of
    # them live in a slot and which in __dict__ is a layout question the Core model abstracts from)
    skip = {a.name for a in attr.fields(cls)} | {"_attrs_cached_hash"}
    try:
        d = [(n, v) for n, v in vars(inst).items() if n not in skip]
    except TypeError:
        d = []
    cache = g.UNSET
    if cut.spec["cache_hash"]:
        cache = getattr(inst, "_attrs_cached_hash", g.UNSET)
    is_exc = isinstance(inst, BaseException)
    args = list(inst.args) if is_exc else None
    members = [getattr(inst, m) for m in MEMBERS] if is_exc else []
    return fields, d, cache, args, members


def enc_state(ob, cut):
    fields, d, cache, args, members = ob
    return "(Build_ostate %s %s %s %s %s)" % (
        lst(pair(q(n), "None" if v is g.UNSET else "(Some %s)" % pv(v)) for n, v in fields),
        lst(pair(q(n), enc_v(v)) for n, v in d),
        ("(Some %s)" % pv(cache)) if (cut.spec["cache_hash"] and cache is not g.UNSET) else "None",
        "None" if args is None else "(Some %s)" % lst(enc_v(v) for v in args),
        lst(enc_v(v) for v in members))


def js_state(ob):
    fields, d, cache, args, members = ob
    return {"fields": [(n, "<unset>" if v is g.UNSET else js_v(v)) for n, v in fields],
            "vars": [(n, js_v(v)) for n, v in d],
            "cache": None if cache is g.UNSET else js_v(cache),
            "args": None if args is None else [js_v(v) for v in args],
            "members": [js_v(v) for v in members]}


_AUG_CODE = {}


def do_op(inst, o):
    kind, name = o[0], o[1]
    try:
        if kind == "set":
            setattr(inst, name, mk_value(o[2]))
        elif kind == "del":
            delattr(inst, name)
        else:
            code = _AUG_CODE.get(name)
            if code is None:
                code = _AUG_CODE[name] = compile("o.%s += v" % name, "<c05-aug>", "exec")
            exec(code, {"o": inst, "v": mk_value(o[2])})
        return "ROk"
    except FrozenInstanceError as e:
        return "RFrozen" if type(e) is FrozenInstanceError else "RUnmodelled"
    except AttributeError as e:
        return "RUnmodelled" if isinstance(e, FrozenError) else "RAttrError"
    except TypeError:
        return "RTypeError"
    except Exception:
        return "RUnmodelled"


def enc_op(o):
    if o[0] == "set":
        return "OSet %s %s" % (q(o[1]), pv(mk_value(o[2])))
    if o[0] == "del":
        return "ODel %s" % q(o[1])
    return "OAug %s %s" % (q(o[1]), pv(mk_value(o[2])))


def mk_call(cut, shape):
    sg = g.signature_of(cut.cls)
    n = [0]

    def tok():
        n[0] += 1
        return g.Tok(n[0])

    if shape == "mandatory":
        return [tok() for nm, k, d in sg if not k and not d], [(nm, tok()) for nm, k, d in sg if k and not d]
    return [], [(nm, tok()) for nm, k, d in sg]


def run_history(cut, pos, kw, ops):
    """Fresh instance, then the ops.  Returns [(outcome, observation)] or None if construction failed."""
    g.REC.cls = cut.cls
    g.REC.reset(None)
    inst = cut.cls(*pos, **dict(kw))
    out = []
    for o in ops:
        r = do_op(inst, o)
        out.append((r, observe(inst, cut)))
    return out


# --------------------------------------------------------------------------------------
# cases


def _same_obs(a, b):
    """Structural equality with identity on the leaves (symbolic values have no __eq__)."""
    if a is b:
        return True
    if isinstance(a, (list, tuple)):
        return (isinstance(b, (list, tuple)) and len(a) == len(b) and all(_same_obs(x, y) for x, y in zip(a, b)))
    if isinstance(a, str):
        return isinstance(b, str) and a == b
    return False


SHORT = {"RFrozen": "F", "RAttrError": "A", "RTypeError": "T", "ROk": "K"}


def target_case(h, ti, shape, alpha, runs, with_init):
    """One case: hierarchy prefix up to element ti, an instance of it, the histories (lists of indices
    into alpha)."""
    cut = h.cuts[ti]
    defs_t = lst("(%s, %s)" % (t[0], t[1]) for t in h.terms[:ti + 1])
    pos, kw = mk_call(cut, shape)
    init_t, init_js, _n, inst = g.construct(cut, pos, kw)
    call_t = g.enc_call(pos, kw, None, True)
    g.REC.cls = cut.cls
    seen = {"classes": [t[2] for t in h.terms[:ti + 1]], "init": init_js}
    if inst is None:
        term = "(Build_case %s (Some %d) [] %s (Some %s) None [] [])" % (defs_t, h.ids[ti], call_t, init_t)
        return term, seen, False
    env = [n for n in ODD if hasattr(inst, n)]
    ob0 = observe(inst, cut)
    s0 = enc_state(ob0, cut)
    seen["state0"] = js_state(ob0)
    seen["histories"] = []
    runs_t = []
    for idxs in runs:
        ops = [alpha[i] for i in idxs]
        hist = run_history(cut, pos, kw, ops)
        prev = s0
        prev_ob = None
        steps = []
        js = []
        for i, o, (r, ob) in zip(idxs, ops, hist):
            # same objects in the same places as after the previous step: same encoding (saves the encoder)
            cur = prev if (prev_ob is not None and _same_obs(ob, prev_ob)) else enc_state(ob, cut)
            prev_ob = ob
            if cur == prev and r in SHORT:
                steps.append("(%d,%s)" % (i, SHORT[r]))
            else:
                steps.append("(%d,(%s,%s))" % (i, r, "None" if cur == prev else "Some %s" % cur))
            js.append({"op": o, "outcome": r, "state": "unchanged" if cur == prev else js_state(ob)})
            prev = cur
        runs_t.append(lst(steps))
        seen["histories"].append(js)
    term = "(Build_case %s (Some %d) %s %s %s (Some %s) %s %s)" % (
        defs_t, h.ids[ti], lst(q(n) for n in env), call_t, "(Some %s)" % init_t if with_init else "None", s0,
        lst(enc_op(o) for o in alpha), lst(runs_t))
    return term, seen, bool(runs)


def defs_only_case(h):
    defs_t = lst("(%s, %s)" % (t[0], t[1]) for t in h.terms)
    term = ("(Build_case %s None [] (Build_call [] [] None true) None None [] [])" % defs_t)
    return term, {"classes": [t[2] for t in h.terms]}


def facts(h, ti=None):
    """Signature for the known-findings matcher: facts about the case, not about the outcome."""
    kinds = [d["kind"] for d in h.descs]
    return {"layer": "model", "elements": len(h.descs), "mi": any(d.get("extra_bases") for d in h.descs),
            "plain": "plain" in kinds}


def make_case(inp):
    h = Hier(inp["hier"])
    if h.error:
        raise vlib.Infra("C05: hierarchy could not be rebuilt: %s" % h.error)
    if inp.get("target") is None:
        term, seen = defs_only_case(h)
        return Case(term, inp, seen, sig=facts(h), nontrivial=False, key=term)
    term, seen, nt = target_case(h, inp["target"], inp["call"], inp["alpha"], inp["runs"], inp.get("init", True))
    return Case(term, inp, seen, sig=facts(h, inp["target"]), nontrivial=nt, key=term)


# --------------------------------------------------------------------------------------
# generation: plans


def _fix_spec(spec, rng, frozen_eff, keep_hooks):
    """Make the drawn spec consistent with the plan."""
    if spec["exc"] and spec["cache_hash"]:
        spec["cache_hash"] = False          # TypeError in attrs(): C04's table, not ours
    if spec["base"] is not None and spec["base"].is_exc_base:
        spec["cache_hash"] = False
    if frozen_eff and not keep_hooks:
        spec["on_setattr"] = None
        for f in spec["fields"]:
            f["on_setattr"] = None
    # mandatory after default: outside this model (C15); same repair as C01
    seen_default = False
    inherited_default = False
    base = spec["base"]
    if base is not None and getattr(base.cls, "__attrs_attrs__", None):
        own = {f["name"] for f in spec["fields"]}
        inherited_default = any(a.default is not attr.NOTHING and a.init and not a.kw_only
                                for a in attr.fields(base.cls) if a.name not in own)
    seen_default = inherited_default
    for f in spec["fields"]:
        if not f["init"] or f["kw_only"] or spec["kw_only"]:
            continue
        if f["default"] is None and seen_default:
            f["kw_only"] = True
        elif f["default"] is not None:
            seen_default = True


def draw_attrs_desc(rng, uidc, h_cuts, base_idx, opts):
    """opts: api ('attrs'|'define'|'alias'), frozen, and optionally slots / hooks / exc / user_sa / extra_bases."""
    uidc[0] += 1
    uid = "%d" % uidc[0]
    base = h_cuts[base_idx] if base_idx is not None else None
    spec = g.gen_class_spec(rng, uid, base=base, hooks_ok=True)
    if spec["pre"] == "named":
        # initgen probes the signature with its own builder (no extra bases / alias / user methods): keep to
        # the catch-all hook; which arguments a pre-init hook receives is C02's subject
        spec["pre"] = "star"
    api = opts["api"]
    spec["api"] = "attrs" if api == "attrs" else "define"
    if spec["api"] == "attrs":
        spec["style"] = rng.choice(["attrib", "attrib", "annot", "these", "make_class"])
    else:
        spec["style"] = rng.choice(["annot", "attrib_in_define", "these"])
    spec["frozen"] = bool(opts["frozen"]) or api == "alias"
    # fields whose names are substrings of a bookkeeping name (n, s, note, ...): more often on exception roots
    if spec["fields"] and rng.random() < (0.5 if (opts.get("exc") and base is None) else 0.15):
        taken = {f["name"] for f in spec["fields"]} | set(base.field_names if base is not None else ())
        for f in rng.sample(spec["fields"], min(len(spec["fields"]), rng.choice([1, 1, 2]))):
            new = rng.choice(NEAR_FIELDS)
            if new in taken:
                continue
            taken.add(new)
            f["name"], f["alias"], f["uid"] = new, None, "%s_%s" % (new, uid)
    if "slots" in opts:
        spec["slots"] = opts["slots"]
    if "exc" in opts:
        spec["exc"] = opts["exc"] and base is None
    if opts.get("user_sa") or opts.get("user_da") or opts.get("extra_bases"):
        if spec["style"] == "make_class":
            spec["style"] = "attrib"
    if opts.get("extra_bases"):
        spec["exc"] = False
        spec["pre"] = None
    if opts.get("no_prepost"):
        spec["pre"] = None
        spec["post"] = False
    frozen_eff = spec["frozen"] or (base is not None and base.frozen) or bool(opts.get("assume_frozen"))
    hooks = opts.get("hooks")          # None | 'cls' | 'field' | 'noinit' (F7 shape) | 'mutable-cls'
    spec["base"] = base
    _fix_spec(spec, rng, frozen_eff, keep_hooks=False)
    if not frozen_eff and hooks is None and opts.get("no_hooks"):
        spec["on_setattr"] = None
        for f in spec["fields"]:
            f["on_setattr"] = None
    if hooks == "cls" or hooks == "mutable-cls":
        spec["on_setattr"] = rng.choice(["validate", "convert", "list_cv", "user", "list_user2"])
        if hooks == "mutable-cls":
            spec["on_setattr"] = rng.choice(["user", "list_user2"])
            if not spec["fields"]:
                spec["fields"] = [g.gen_field(rng, "x", uid, False)]
                _fix_spec(spec, rng, False, keep_hooks=True)
    elif hooks == "field":
        if not spec["fields"]:
            spec["fields"] = [g.gen_field(rng, "x", uid, False)]
        rng.choice(spec["fields"])["on_setattr"] = rng.choice(["NO_OP", "user", "validate", "convert", "list_cv", "frozen"])
        _fix_spec(spec, rng, frozen_eff, keep_hooks=True)
    elif hooks == "noinit":
        f = g.gen_field(rng, "nf", uid, False)
        f.update(default=None, init=False, on_setattr=rng.choice(["user", "validate", "NO_OP"]), kw_only=False)
        spec["fields"].append(f)
    del spec["base"]
    d = {"kind": "attrs", "spec": spec, "base": base_idx, "alias": api == "alias",
         "user_sa": bool(opts.get("user_sa")), "user_da": bool(opts.get("user_da")),
         "extra_bases": list(opts.get("extra_bases", []))}
    return d


def draw_plain_desc(rng, uidc, base_idx, opts=None):
    opts = opts or {}
    uidc[0] += 1
    return {"kind": "plain", "uid": "%d" % uidc[0], "base": base_idx, "user_sa": bool(opts.get("user_sa")),
            "user_da": bool(opts.get("user_da")), "slots_empty": bool(opts.get("slots_empty")),
            "extra_bases": list(opts.get("extra_bases", []))}


APIS = ["attrs", "define", "alias"]


def plans(rng):
    """Yield plans: lists of steps ('A'|'P', base index or None, opts)."""
    out = []
    root_frozen = [{"api": a, "frozen": True} for a in APIS]
    root_mut = [{"api": "attrs", "frozen": False, "no_hooks": True}, {"api": "define", "frozen": False}]
    sub_opts = ([{"api": a, "frozen": False} for a in ("attrs", "define")]
                + [{"api": a, "frozen": True} for a in APIS])
    # depth 1
    for r in root_frozen + root_mut:
        for sl in (False, True):
            for exc in (False, True):
                out.append([("A", None, dict(r, slots=sl, exc=exc))])
    # frozen root -> (plain)* -> sub -> (plain leaf)
    for r in root_frozen:
        for s in sub_opts:
            for mid in (0, 1):
                for leaf in (0, 1):
                    for sl1, sl2 in itertools.product((False, True), repeat=2):
                        p = [("A", None, dict(r, slots=sl1))]
                        for _ in range(mid):
                            p.append(("P", len(p) - 1, {}))
                        p.append(("A", len(p) - 1, dict(s, slots=sl2)))
                        for _ in range(leaf):
                            p.append(("P", len(p) - 1, {"slots_empty": rng.random() < 0.3}))
                        out.append(p)
    # frozen root -> plain leaf (x exception roots)
    for r in root_frozen:
        for sl in (False, True):
            for exc in (False, True):
                out.append([("A", None, dict(r, slots=sl, exc=exc)), ("P", 0, {}), ("P", 1, {"slots_empty": True})])
    # hooked mutable above frozen, then inherited-frozen subclasses (the reset rule must not fire)
    for sl in itertools.product((False, True), repeat=3):
        for s in sub_opts[:2]:
            for mid in (0, 1):
                p = [("A", None, {"api": "attrs", "frozen": False, "hooks": "mutable-cls", "slots": sl[0]}),
                     ("A", 0, {"api": rng.choice(APIS), "frozen": True, "slots": sl[1]})]
                for _ in range(mid):
                    p.append(("P", len(p) - 1, {}))
                p.append(("A", len(p) - 1, dict(s, slots=sl[2])))
                out.append(p)
    # mutable root, frozen subclass, deeper
    for r in root_mut:
        for f in root_frozen:
            for s in sub_opts[:2]:
                out.append([("A", None, dict(r)), ("A", 0, dict(f)), ("A", 1, dict(s)), ("P", 2, {})])
    # mutable controls: hooked root -> plain -> unhooked subclass (reset rule), never frozen
    for sl in itertools.product((False, True), repeat=2):
        for mid in (0, 1):
            p = [("A", None, {"api": "attrs", "frozen": False, "hooks": "mutable-cls", "slots": sl[0]})]
            for _ in range(mid):
                p.append(("P", len(p) - 1, {}))
            p.append(("A", len(p) - 1, {"api": "attrs", "frozen": False, "no_hooks": True, "slots": sl[1]}))
            out.append(p)
    # user-written __setattr__ / __delattr__ (outside the theorems' guard)
    for r in root_frozen:
        for usa, uda in ((True, False), (False, True), (True, True)):
            for s in sub_opts[:3]:
                out.append([("A", None, dict(r)), ("P", 0, {"user_sa": usa, "user_da": uda}),
                            ("A", 1, dict(s, no_hooks=True))])
        for s in sub_opts:
            for usa, uda in ((True, False), (False, True)):
                out.append([("A", None, dict(r)), ("A", 0, dict(s, user_sa=usa, user_da=uda, no_hooks=True))])
    for api in APIS:
        for fz in (False, True):
            out.append([("A", None, {"api": api, "frozen": fz, "user_sa": True, "user_da": rng.random() < 0.5,
                                     "no_hooks": True})])
    # malformed: hooks on frozen classes
    for r in root_frozen:
        for hk in ("cls", "field", "noinit"):
            out.append([("A", None, dict(r, hooks=hk))])
            for s in sub_opts:
                out.append([("A", None, dict(r)), ("A", 0, dict(s, hooks=hk))])
                out.append([("A", None, dict(r)), ("P", 0, {}), ("A", 1, dict(s, hooks=hk))])
    # multiple inheritance
    for r in root_frozen:
        for leaf in ("P", "attrs", "define"):
            for order in (0, 1):
                for mix in ("plain", "hooked", "mutable", "user"):
                    p = [("A", None, dict(r, slots=False, exc=False, no_prepost=True))]
                    if mix == "plain":
                        p.append(("P", None, {}))
                    elif mix == "user":
                        p.append(("P", None, {"user_sa": True}))
                    elif mix == "hooked":
                        p.append(("A", None, {"api": "attrs", "frozen": False, "hooks": "mutable-cls", "slots": False,
                                              "exc": False, "no_prepost": True}))
                    else:
                        p.append(("A", None, {"api": "attrs", "frozen": False, "no_hooks": True, "slots": False,
                                              "exc": False, "no_prepost": True}))
                    first, second = (0, 1) if order == 0 else (1, 0)
                    if leaf == "P":
                        p.append(("P", first, {"extra_bases": [second]}))
                    else:
                        p.append(("A", first, {"api": leaf, "frozen": False, "extra_bases": [second], "no_hooks": True,
                                               "slots": rng.random() < 0.5, "assume_frozen": True}))
                    out.append(p)
    return out


def realise(plan, rng, uidc):
    """Draw the descriptions for a plan step by step (later steps need the earlier classes)."""
    descs = []
    h = None
    for kind, base_idx, opts in plan:
        for _attempt in range(8):
            cuts = h.cuts if h is not None else []
            if kind == "P":
                d = draw_plain_desc(rng, uidc, base_idx, opts)
            else:
                d = draw_attrs_desc(rng, uidc, cuts, base_idx, opts)
            h2 = Hier(descs + [d])
            if h2.error is None:
                break
        else:
            return None
        descs.append(d)
        h = h2
        if h.ids[-1] is None:
            break                      # rejected: nothing can be built on it
    return h


BOOKKEEPING = MEMBERS + ["__notes__"]          # the names of the two tuples in _frozen_setattrs / _frozen_delattrs
# field names that are substrings of a bookkeeping name (valid identifiers, usable as parameters)
NEAR_FIELDS = ["n", "s", "note", "notes", "t", "es", "e", "cause", "context", "ext", "back", "suppress"]


def _attr_syntax_ok(nm):
    """can be written as `o.<nm> += v`"""
    import keyword
    return nm.isidentifier() and not keyword.iskeyword(nm)


def near_names(rng, k):
    """Names NEAR the bookkeeping names: substrings (a tuple that degenerates into a string makes `in` a substring
    test), superstrings, prefixes / suffixes, other spellings - never one of the four typed members themselves."""
    out = []
    while len(out) < k:
        lit = rng.choice(BOOKKEEPING)
        how = rng.randrange(8)
        if how <= 2:
            i = rng.randrange(len(lit))
            j = rng.randrange(i + 1, len(lit) + 1)
            nm = lit[i:j]
        elif how == 3:
            nm = lit.strip("_")
        elif how == 4:
            nm = lit + rng.choice(["x", "_", "__"])
        elif how == 5:
            nm = rng.choice(["x", "_"]) + lit
        elif how == 6:
            nm = rng.choice([lit[:-1], lit[1:], lit[:-2], lit[2:]])
        else:
            nm = rng.choice([lit.upper(), lit.replace("_", ""), ""])
        if nm in MEMBERS or not all(32 < ord(c) < 127 for c in nm):
            continue
        out.append(nm)
    return out


def near_ops(rng, names, fields):
    """operations over near names; a field that is itself such a name is always among them"""
    ops = []
    for f in fields[:2]:
        ops.append(["del", f])
    for nm in names:
        kind = rng.choice(["del", "del", "set", "aug"])
        if kind == "aug" and not _attr_syntax_ok(nm):
            kind = "del"
        ops.append([kind, nm] + ([["atok" if kind == "aug" else "tok", rng.randint(11, 19)]] if kind != "del" else []))
    return ops


def alphabets(cut, rng, sa, da, tier):
    """[(ops, max length, tag)]"""
    cls = cut.cls
    names = [a.name for a in attr.fields(cls)]
    hooked = set()
    if sa.startswith("(SaHooked"):
        try:
            cell = [c.cell_contents for c in cls.__setattr__.__closure__ if isinstance(c.cell_contents, dict)]
            hooked = set(cell[0])
        except Exception:
            hooked = set(names)
    is_frozen = sa == "SaFrozen" and da == "DaFrozen"     # odd names only where nothing can get through
    usable = [n for n in names if n not in hooked]
    is_exc = issubclass(cls, BaseException)
    out = []
    n1 = 3 if tier == "quick" else 4
    if usable:
        f = rng.choice(usable)
        out.append(([["set", f, ["tok", 11]], ["del", f], ["set", "unk", ["tok", 12]], ["del", "unk"],
                     ["aug", f, ["atok", 21]]], n1 if is_frozen else 2, "canonical"))
    else:
        out.append(([["set", "unk", ["tok", 11]], ["del", "unk"], ["aug", "unk", ["atok", 21]],
                     ["set", "unk2", ["tok", 12]], ["del", "unk2"]], n1 if is_frozen else 2, "canonical-nofield"))
    if is_frozen:
        pool = []
        for n in ODD:
            pool += [["set", n, ["tok", 13]], ["del", n], ["aug", n, ["atok", 22]]]
        out.append((rng.sample(pool, 5), 2 if tier == "quick" else 3, "odd"))
    if is_exc:
        f = rng.choice(usable) if usable else "unk"
        out.append(([["set", "__cause__", ["exc", 31]], ["set", "__notes__", ["tok", 14]], ["del", "__notes__"],
                     ["aug", "__notes__", ["atok", 23]], ["set", f, ["tok", 15]]], 2 if tier == "quick" else 3, "exc-a"))
        out.append(([["set", "__traceback__", ["tb"]], ["set", "__context__", ["exc", 32]],
                     ["set", "__suppress_context__", ["bool", rng.random() < 0.5]], ["del", "__cause__"],
                     ["set", "__cause__", ["none"]]], 2 if tier == "quick" else 3, "exc-b"))
        out.append(([["set", "__cause__", ["sym"]], ["del", "__traceback__"], ["del", "__context__"],
                     ["set", "args", ["tok", 16]], ["del", "__suppress_context__"]] if is_frozen else
                    [["set", "__cause__", ["sym"]], ["del", "__traceback__"], ["del", "__context__"],
                     ["del", "__suppress_context__"], ["set", "__notes__", ["tok", 17]]], 2, "exc-c"))
    elif is_frozen:
        out.append(([["set", "__cause__", ["exc", 31]], ["set", "__notes__", ["tok", 14]], ["del", "__notes__"],
                     ["aug", "__notes__", ["atok", 23]], ["set", "__traceback__", ["tb"]]], 2, "bookkeeping-nonexc"))
    if is_frozen:
        near_fields = [n for n in names if any(n in lit for lit in BOOKKEEPING)]
        rng.shuffle(near_fields)
        ops = near_ops(rng, near_names(rng, 5), near_fields)[:5]
        # at least two substrings of a deletable name are deleted
        subs = [nm for nm in near_names(rng, 40) if nm and nm in "__notes__" and nm != "__notes__"][:2]
        ops = ([["del", nm] for nm in subs] + ops)[:5]
        out.append((ops, 2, "near-bookkeeping"))
    return out, usable, is_frozen, is_exc


def random_ops(rng, usable, is_frozen, is_exc, n):
    ops = []
    for _ in range(n):
        names = list(usable) + ["unk", "unk2"]
        if is_frozen:
            names += ODD + (["__cause__", "__notes__"] if not is_exc else []) + near_names(rng, 3)
        kind = rng.choice(["set", "set", "del", "aug"])
        if is_exc and rng.random() < 0.4:
            nm = rng.choice(MEMBERS + ["__notes__", "__notes__"])
            if nm == "__notes__":
                ops.append([kind, nm] + ([["atok" if kind == "aug" else "tok", rng.randint(11, 19)]] if kind != "del" else []))
            elif kind == "del" or (kind == "aug" and not is_frozen):
                ops.append(["del", nm])
            elif kind == "aug":
                ops.append(["set", nm, ["sym"]])
            else:
                v = {"__cause__": ["exc", rng.randint(31, 34)], "__context__": ["exc", rng.randint(35, 38)],
                     "__traceback__": ["tb"], "__suppress_context__": ["bool", rng.random() < 0.5]}[nm]
                ops.append(["set", nm, rng.choice([v, v, ["none"]]) if nm != "__suppress_context__" else v])
            continue
        nm = rng.choice(names)
        if kind == "aug" and not _attr_syntax_ok(nm):
            kind = "del"
        ops.append([kind, nm] + ([["atok" if kind == "aug" else "tok", rng.randint(11, 19)]] if kind != "del" else []))
    return ops


def enumerate_histories(n_ops, length):
    return [list(p) for p in itertools.product(range(n_ops), repeat=length)]


CHUNK = 25


def cases_of_hierarchy(h, rng, tier, deep):
    out = []
    out.append({"hier": h.descs, "target": None})
    for ti, cut in enumerate(h.cuts):
        if h.ids[ti] is None or getattr(cut.cls, "__attrs_attrs__", None) is None:
            continue
        sa, da = h.terms[ti][2]
        if (sa.startswith("(SaHooked") and h.descs[ti]["kind"] == "attrs"
                and "__setattr__" not in cut.cls.__dict__):
            # "slotted confused" (K6): the class inherits a base's hook closure although it declares no
            # hooks; its initializer then runs those hooks.  Not a frozen class: class-level kinds only.
            _dist["k6-shape-not-instantiated"] += 1
            continue
        if h.descs[ti]["kind"] == "plain":
            # an undecorated class is built by the __init__ of the nearest class that has one; under multiple
            # inheritance that can be a MUTABLE attrs class (plain `self.x = v` stores) while __setattr__
            # resolves to a frozen class further right: construction then raises (docs/C05.md, O2).  Static
            # criterion, independent of what construction does.
            prov = next((k for k in cut.cls.__mro__[1:] if "__init__" in k.__dict__ and k in _CUT_OF), None)
            if prov is not None and (classify(prov)[0] == "SaFrozen") != (sa == "SaFrozen"):
                _dist["init-provider-mismatch-not-instantiated"] += 1
                continue
        shape = rng.choice(["mandatory", "all-kw"])
        base = {"hier": h.descs[:ti + 1], "target": ti, "call": shape}
        try:
            pos, kw = mk_call(cut, shape)
            g.REC.cls = cut.cls
            g.REC.reset(None)
            cut.cls(*pos, **dict(kw))
        except Exception:
            out.append(dict(base, alpha=[], runs=[], tag="init-fails", init=True))
            continue
        alphs, usable, is_frozen, is_exc = alphabets(cut, rng, sa, da, tier)
        # the random histories travel with the comparison of the initializer's observation
        n_rand = 6 if tier == "quick" else 16
        rr = [random_ops(rng, usable, is_frozen, is_exc, rng.randint(3, 7)) for _ in range(n_rand)]
        alpha = []
        runs = []
        for r in rr:
            idx = []
            for o in r:
                if o not in alpha:
                    alpha.append(o)
                idx.append(alpha.index(o))
            runs.append(idx)
        out.append(dict(base, alpha=alpha, runs=runs, tag="random", init=True))
        for ops, length, tag in alphs:
            if tag.startswith("canonical") and deep and is_frozen:
                length = 5
            hs = enumerate_histories(len(ops), length)
            chunk = CHUNK if length <= 3 else 125
            for k in range(0, len(hs), chunk):
                out.append(dict(base, alpha=ops, runs=hs[k:k + chunk], tag=tag, init=False))
    return out


_dist = Counter()


def generate(tier, seed):
    rng = random.Random(seed)
    uidc = [0]
    _dist.clear()
    cases = []
    all_plans = plans(rng)
    rounds = 1
    deep_budget = 0 if tier == "quick" else 12
    for rnd in range(rounds):
        order = list(range(len(all_plans)))
        if tier == "quick":
            # every plan family is kept; thin out the big cartesian blocks
            order = [i for i in order if rng.random() < 0.38 or len(all_plans[i]) == 1]
        for i in order:
            h = realise(all_plans[i], rng, uidc)
            if h is None:
                _dist["plan-unrealisable"] += 1
                continue
            deep = False
            if deep_budget and rng.random() < 0.02:
                deep = True
                deep_budget -= 1
            for inp in cases_of_hierarchy(h, rng, tier, deep):
                c = make_case_from(h, inp)
                cases.append(c)
            _account(h)
    return cases


def make_case_from(h, inp):
    """Same as make_case but reuses the built hierarchy (prefixes share the classes)."""
    if inp.get("target") is None:
        term, seen = defs_only_case(h)
        return Case(term, inp, seen, sig=facts(h), nontrivial=False, key=term)
    term, seen, nt = target_case(h, inp["target"], inp["call"], inp["alpha"], inp["runs"], inp.get("init", True))
    _dist["histories"] += len(inp["runs"])
    _dist["steps"] += sum(len(r) for r in inp["runs"])
    _dist["alphabet=" + str(inp.get("tag"))] += 1
    return Case(term, inp, seen, sig=facts(h, inp["target"]), nontrivial=nt, key=term)


def _account(h):
    _dist["hierarchies"] += 1
    _dist["depth=%d" % len(h.descs)] += 1
    for d, t, i in zip(h.descs, h.terms, h.ids):
        _dist["class:" + d["kind"]] += 1
        if i is None:
            _dist["class:rejected"] += 1
            continue
        _dist["resolves:%s/%s" % (t[2][0].strip("()").split()[0], t[2][1])] += 1
        if d["kind"] == "attrs":
            s = d["spec"]
            _dist["api=%s" % ("attrs.frozen" if d.get("alias") else s["api"])] += 1
            _dist["slots=%s" % s["slots"]] += 1
            if s["cache_hash"]:
                _dist["cache_hash"] += 1
            if s["exc"]:
                _dist["exception-root"] += 1
        if d.get("extra_bases"):
            _dist["multiple-inheritance"] += 1
        if d.get("user_sa") or d.get("user_da"):
            _dist["user-setattr/delattr"] += 1


def distribution(cases):
    return dict(sorted(_dist.items()))


def rerun(inp):
    if "runtime" in inp:
        # a runtime-only observation: run them again; the case literal only carries the verdict
        out, _cov = extra("quick", inp.get("seed", 0))
        again = [d for d in out if d.replay["input"]["runtime"] == inp["runtime"]
                 and d.replay["input"]["detail"] == inp["detail"]]
        ok = "(Build_case [] None [] (Build_call [] [] None true) None None [] [])"
        failing = "(Build_case [] (Some 0) [] (Build_call [] [] None true) None None [] [])"
        return Case(failing if again else ok, inp, {"runtime observation fails": bool(again), "what": inp["runtime"],
                                                    "detail": inp["detail"]}, sig={"kind": "runtime"})
    return make_case(inp)


def EXHAUSTIVE(tier):
    return False


def corpus():
    import importlib.util
    spec = importlib.util.spec_from_file_location("verif_defects", os.path.join(vlib.VERIF, "corpus", "defects.py"))
    m = importlib.util.module_from_spec(spec)
    spec.loader.exec_module(m)
    return [(k, f) for k, f in m.ALL.items() if "_%s_" % PROP in k]


# --------------------------------------------------------------------------------------
# runtime-only observations (what no model of this check covers; C10 / C12 / C04 do in depth)

_SYNTH_SRC = '''
import attr, attrs

class Count:
    """A value whose hash() calls are counted."""
    def __init__(self, v): self.v = v; self.n = 0
    def __hash__(self): self.n += 1; return hash(self.v)
    def __eq__(self, o): return isinstance(o, Count) and o.v == self.v

def conv(v): return ("conv", v)

def _post(self):
    object.__setattr__(self, "w", ("post", self.y))

{decls}
'''

_VARIANTS = [
    ("AS_d", "@attr.s(frozen=True, slots=False{extra})", "attr.ib"),
    ("AS_s", "@attr.s(frozen=True, slots=True{extra})", "attr.ib"),
    ("DF_d", "@attrs.define(frozen=True, slots=False{extra})", "attrs.field"),
    ("DF_s", "@attrs.define(frozen=True{extra})", "attrs.field"),
    ("FZ_d", "@attrs.frozen(slots=False{extra})", "attrs.field"),
    ("FZ_s", "@attrs.frozen({extra0})", "attrs.field"),
]


def _synth_module(tag):
    decls = []
    for name, deco, fld in _VARIANTS:
        ann = ": int" if not fld.startswith("attr.ib") else ""
        for cache in (False, True):
            extra = ", cache_hash=True, unsafe_hash=True" if cache else ""
            d = deco.format(extra=extra, extra0=extra.lstrip(", "))
            cn = name + ("_c" if cache else "")
            decls.append(
                "%s\nclass %s:\n    x%s = %s(converter=conv)\n    y%s = %s(default=5)\n"
                "    z%s = %s(factory=tuple)\n    w%s = %s(init=False)\n    __attrs_post_init__ = _post\n"
                % (d, cn, ann, fld, ann, fld, ann, fld, ann, fld))
            # frozen only by inheritance: attrs subclass and undecorated subclass
            sub_deco = "@attr.s(slots=%s%s)" % ("True" if name.endswith("_s") else "False", extra) \
                if fld.startswith("attr.ib") else "@attrs.define(slots=%s%s)" % ("True" if name.endswith("_s") else "False", extra)
            decls.append("%s\nclass %s_sub(%s):\n    v%s = %s(default=7)\n" % (sub_deco, cn, cn, ann, fld))
            decls.append("class %s_plain(%s):\n    pass\n" % (cn, cn))
            if cache:
                # a DICT caching subclass: below a slotted caching class the cache lives in the ancestor's slot
                dsub = ("@attr.s(slots=False%s)" % extra) if fld.startswith("attr.ib") else ("@attrs.define(slots=False%s)" % extra)
                decls.append("%s\nclass %s_dsub(%s):\n    v%s = %s(default=7)\n" % (dsub, cn, cn, ann, fld))
                decls.append("class %s_dsub_plain(%s_dsub):\n    pass\n" % (cn, cn))
        # exceptions
        d = deco.format(extra=", auto_exc=True" if fld.startswith("attr.ib") else "", extra0="")
        decls.append("%s\nclass %s_exc(Exception):\n    x%s = %s()\n    y%s = %s(default=5)\n"
                     % (d, name, ann, fld, ann, fld))
        decls.append("class %s_exc_plain(%s_exc):\n    pass\n" % (name, name))
        # not every exception is an Exception
        decls.append("%s\nclass %s_bexc(BaseException):\n    x%s = %s()\n    y%s = %s(default=5)\n"
                     % (d, name, ann, fld, ann, fld))
    modname = "c05_synth_%s" % tag
    m = types.ModuleType(modname)
    sys.modules[modname] = m
    exec(compile(_SYNTH_SRC.format(decls=""), "<%s>" % modname, "exec"), m.__dict__)
    m._failed = {}
    for d in decls:
        # one class statement at a time: a definition that raises is an observation, not a crash
        try:
            exec(compile(d, "<%s>" % modname, "exec"), m.__dict__)
        except Exception as e:
            cname = d.split("class ", 1)[1].split("(")[0].split(":")[0].strip()
            m._failed[cname] = "%s: %s" % (type(e).__name__, e)
    return m


def _is_frozen_instance(o, name="x"):
    """set refuses a field; delete refuses a name that does not exist (nothing is destroyed if it does not)."""
    try:
        setattr(o, name, getattr(o, name))
    except FrozenInstanceError:
        pass
    except Exception:
        return False
    else:
        return False
    try:
        delattr(o, "no_such_attribute_")
    except FrozenInstanceError:
        return True
    except Exception:
        return False
    return False


def _observe_instance(obs, m, cn, cls, cnt, o, cache, suffix, copy, pickle):
    has_v = suffix in ("_sub", "_dsub", "_dsub_plain")
    want = [("conv", cnt), 5, (), ("post", 5)] + ([7] if has_v else [])
    got = [o.x, o.y, o.z, o.w] + ([o.v] if has_v else [])
    obs(got == want, "construct-values", "%s: %r" % (cn, got))
    obs(_is_frozen_instance(o), "frozen", cn)
    if cache:
        h1 = hash(o)
        n1 = cnt.n
        h2 = hash(o)
        obs(h1 == h2 and n1 == 1 and cnt.n == 1, "hash-cached-once", "%s: %r" % (cn, (h1 == h2, n1, cnt.n)))
        obs(_is_frozen_instance(o) and [o.x, o.y, o.z, o.w] == want[:4], "frozen-after-hash", cn)
    for how, fn in (("copy", copy.copy), ("deepcopy", copy.deepcopy),
                    ("pickle", lambda v: pickle.loads(pickle.dumps(v))),
                    ("evolve", lambda v: attr.evolve(v, x=v.x[1]) if False else attr.evolve(v))):
        try:
            if how == "evolve":
                # w is init=False: evolve re-runs __init__ (x goes through the converter again)
                c2 = attr.evolve(o, x=cnt)
            else:
                c2 = fn(o)
        except Exception as e:
            obs(False, how, "%s: %s" % (cn, type(e).__name__))
            continue
        same = (type(c2) is cls and c2.x == o.x and c2.y == o.y and c2.z == o.z and c2.w == o.w
                and (not has_v or c2.v == o.v))
        obs(same and (c2 == o), how + "-equal", cn)
        obs(_is_frozen_instance(c2), how + "-still-frozen", cn)
        if cache and how != "evolve":
            obs(hash(c2) == hash(o), how + "-hash", cn)
        if cache:
            # the copy caches too: its fields are hashed at most once more, however often it is hashed
            c2x = c2.x[1]
            before = c2x.n
            hash(c2), hash(c2), hash(c2)
            obs(c2x.n - before <= 1, how + "-hash-cached-once", "%s: %d" % (cn, c2x.n - before))


def extra(tier, seed):
    import copy
    import pickle
    from .vlib import Discrepancy
    out = []
    n = [0]

    def obs(ok, what, detail):
        n[0] += 1
        if not ok:
            out.append(Discrepancy({"kind": "runtime", "what": what}, "runtime observation failed: %s (%s)" % (what, detail),
                                   {"input": {"runtime": what, "detail": detail, "seed": seed}}))

    obs(issubclass(FrozenInstanceError, FrozenError) and issubclass(FrozenError, AttributeError),
        "exception-hierarchy", "FrozenInstanceError < FrozenError < AttributeError")
    m = _synth_module("%d" % seed)
    try:
        for name, _d, _f in _VARIANTS:
            for cache in (False, True):
                for suffix in ("", "_sub", "_plain") + (("_dsub", "_dsub_plain") if cache else ()):
                    cn = name + ("_c" if cache else "") + suffix
                    cls = getattr(m, cn, None)
                    if cls is None:
                        obs(False, "class-definition", "%s: %s" % (cn, m._failed.get(cn, "base missing")))
                        continue
                    cnt = m.Count(3)
                    try:
                        o = cls(cnt)
                    except Exception as e:
                        obs(False, "construct", "%s: %s" % (cn, type(e).__name__))
                        continue
                    try:
                        _observe_instance(obs, m, cn, cls, cnt, o, cache, suffix, copy, pickle)
                    except Exception as e:
                        obs(False, "observation-crashed", "%s: %s" % (cn, type(e).__name__))
                    continue
            for suffix in ("_exc", "_exc_plain", "_bexc"):
                cn = name + suffix
                cls = getattr(m, cn, None)
                if cls is None:
                    obs(False, "class-definition", "%s: %s" % (cn, m._failed.get(cn, "base missing")))
                    continue
                # raise ... from ..., implicit context, with_traceback, notes
                cause = KeyError("k")
                try:
                    try:
                        raise cls(1) from cause
                    except cls as e1:
                        caught = e1
                    ok = caught.__cause__ is cause and caught.__suppress_context__ is True and caught.__traceback__ is not None
                    obs(ok, "raise-from", cn)
                    try:
                        try:
                            raise ValueError("first")
                        except ValueError as first:
                            ctx = first
                            raise cls(2)
                    except cls as e2:
                        obs(e2.__context__ is ctx and e2.__cause__ is None, "implicit-context", cn)
                    e3 = cls(3)
                    obs(e3.with_traceback(_TB) is e3 and e3.__traceback__ is _TB, "with_traceback", cn)
                    e3.add_note("a")
                    e3.add_note("b")
                    obs(e3.__notes__ == ["a", "b"], "add_note", cn)
                    del e3.__notes__
                    obs(not hasattr(e3, "__notes__"), "del-notes", cn)
                    obs((e3.x, e3.y, e3.args) == (3, 5, (3, 5)), "exception-fields-kept", "%s: %r" % (cn, (e3.x, e3.y, e3.args)))
                    obs(_is_frozen_instance(e3), "exception-frozen", cn)
                    try:
                        del e3.__cause__
                        obs(False, "exception-del-cause-refused", cn)
                    except FrozenInstanceError:
                        obs(True, "exception-del-cause-refused", cn)
                except Exception as e:
                    obs(False, "exception-usage", "%s: %s: %s" % (cn, type(e).__name__, e))
    finally:
        sys.modules.pop(m.__name__, None)
    return out, {"runtime_observations": n[0]}
