"""C16 - class definition is a pure function of body, bases, arguments (no leaked state).

Real-side driver + case generator.  A case is a *history*: a list of operations on a small
world of caller-owned objects (decorator objects returned by attr.s(...)/attrs.define(...),
`attr.ib()` objects, `these`/make_class dicts, class_body dicts, metadata dicts,
validator/converter/hook lists).  Operations either create/mutate such an object (what the
*caller* does) or define a class (apply a decorator to a freshly exec'ed class body /
call make_class).  For every definition step k the harness also runs the history "alone":
the same caller operations up to k but WITHOUT the other class definitions.  The behaviour
fingerprint of class k observed at the END of the full history must equal the fingerprint
observed in the alone run, and both must equal what the Coq model computes.
"""

import inspect
import itertools
import linecache
import random
import sys
import types

import attr
import attrs
from attr import setters
from attr.exceptions import FrozenInstanceError

from . import vlib
from .driver import Case
from .vlib import b, lst, q

PROP = "C16"
HEADER = "From Attrs Require Import Base Core.Attr Core.Init C16.Model C16.Corr."
CASE_TYPE = "case"
CHECK = "check_case"
MODEL = "model_of"
RULE = ("histories of operations on caller-owned objects: decorator objects (22 argument sets of "
        "attr.s / attrs.define / frozen / mutable, incl. auto_detect, frozen, cache_hash, kw_only, "
        "auto_attribs, on_setattr given as NO_OP / hook / list, slots, these=), attr.ib() objects, "
        "these / make_class attrs / class_body dicts, metadata dicts, validator / converter / hook "
        "lists; definitions = applying a decorator object to a freshly exec'ed class body from a "
        "catalogue of 58 bodies (plain, annotated-only, mixed unannotated (auto_attribs fallback), own "
        "__hash__/__eq__/__setattr__/__init__, pre/post-init hooks, frozen / hooked / plain / post-init "
        "/ exception bases, converters, validators, field-level hooks, kw_only fields, bad default "
        "order, ClassVar, init=False, metadata, converter WRAPPER closures of one def each - converter "
        "lists / converters.pipe / converters.optional / the harness's own converter factory, whose "
        "members are annotated differently or not at all -, string annotations, class-object "
        "annotations, subclasses of bases with string annotations, eq keys built by cmp_using() calls "
        "with the SAME function objects / class_name differing in require_same_type, validator / "
        "converter / hook TUPLES, fields with type= (also clashing with an annotation), validator / "
        "converter / hook members that are callable OBJECTS with value equality (equal but distinct "
        "across classes, identity-tagged trace)) or make_class; and CLASS "
        "OPERATIONS on classes that exist already (attrs.resolve_types; fields/fields_dict/has; "
        "Attribute.evolve; construct+validate+asdict) as history steps between and after definitions. Generated: ALL ordered pairs (A,B) of "
        "bodies under one shared decorator object (quick: 32 sampled bodies for define(), 13 sampled of a "
        "20-body core for 11 decorators, 6 sampled bodies for the rest; thorough: full catalogue for 12 decorators, 24 sampled bodies for the other 10), sampled "
        "histories of 3-5 bodies under one decorator, shared `these` dict (one or two decorator "
        "objects, dict / attr.ib mutated in between), make_class with shared attrs dict holding the "
        "three hook names, attr.ib()s with type=, and shared class_body dict holding a NESTED "
        "__annotations__ dict (mutated in between, mixed with attr.s(these=) and class operations), "
        "class- and field-level on_setattr lists/tuples of equal-but-distinct callable objects over "
        "two decorator objects / make_class calls, "
        "one attr.ib() object placed in several bodies under different decorators, shared metadata "
        "dict handed over as the dict itself / a MappingProxyType over it / another live Mapping view, "
        "and validator/converter/hook lists, mutated (keys set and deleted, members appended and "
        "popped) between and after definitions, attrs.Converter "
        "INSTANCES (all takes_self/takes_field variants) shared across definitions on differently "
        "named fields while the later class has a field of the earlier name with another converter "
        "(also through a shared attr.ib() and make_class), (A, class operation on A, B) for all pairs "
        "of 12 type-relevant bodies and random definition/class-operation histories. For every "
        "definition k the harness also runs the history WITHOUT the other definitions (keeping the class "
        "operations applied to class k itself); compared: "
        "fingerprint of class k observed at the END of the full history (definition exception class; "
        "fields: name, kw_only, default, init, type (string vs object, by name), validator and converter members by firing them, "
        "metadata keys, inherited; who provides __hash__/__eq__/__init__; __init__ signature and "
        "__init__.__annotations__ per parameter (cross-checked against inspect.signature); "
        "pre/post-init hooks running; hash(inst) working; per field eq_key(1) == eq_key(1.0) and per "
        "class the generated == on two instances built from 1 and from 1.0; per field which converters produced the "
        "value stored by __init__ (converters tag their result); what fires on `inst.f = v` per field or "
        "FrozenInstanceError) == fingerprint alone == model prediction, and container contents at "
        "the end == what the caller put there (nested dicts compared deeply), and no Attribute OBJECT is shared between the "
        "__attrs_attrs__ of two classes (catalogue bases included). distinct = distinct history; non-trivial = at least "
        "two definitions")
EXTRA_TRUSTED = [
    "the facts about the eight base classes used by the catalogue (frozen, exception, "
    "__attrs_own_setattr__, hashable, inherited hooks, own fields with their types) and the annotation "
    "table of the recording converters (model: conv_ann) are written down in the harness "
    "(BASE_FACTS) and passed to the model as part of the class specification",
    "CPython class creation: a namespace with __eq__ and no __hash__ gets __hash__ = None (modelled "
    "in `observe`); closures/cells semantics of nested functions (the model's explicit cell records)",
]
ASSUMPTIONS = [
    "single-level inheritance from one of the catalogue bases; field names without leading "
    "underscore; no field_transformer, no cmp=, no cached_property in class bodies; validator/converter lists are "
    "non-empty when handed to attr.ib (an empty list is kept as-is by attrib() and is not callable)",
    "the global validator switch is on while fingerprints are taken; linecache entries are not part "
    "of the fingerprint (C17)",
]

# ------------------------------------------------------------------------------------------
# recording callables

LOG = []


def _mk_validator(name):
    def v(inst, a, value):
        LOG.append(name)
    v.__name__ = name
    return v


def _mk_converter(name):
    # also usable as the callable of attrs.Converter(..., takes_self/takes_field): extra arguments are
    # ignored; the result is tagged so that the stored value tells which converters produced it
    def c(value, *rest):
        LOG.append(name)
        return (name, value)
    c.__name__ = name
    return c


def _mk_hook(name):
    def h(inst, a, value):
        LOG.append(name)
        return value
    h.__name__ = name
    return h


class Money:
    pass


VALS = {n: _mk_validator(n) for n in ("v1", "v2", "v3", "vb")}
CONVS = {n: _mk_converter(n) for n in ("c1", "c2", "c3")}


class EqCallable:
    """A callable OBJECT with value equality (by channel) that is behaviourally distinguishable
    (the tag it logs): two equal-but-distinct ones must never be confused by attrs."""

    def __init__(self, channel, tag, kind):
        self.channel, self.tag, self.kind = channel, tag, kind

    def __eq__(self, other):
        return isinstance(other, EqCallable) and (self.channel, self.kind) == (other.channel, other.kind)

    def __hash__(self):
        return hash((self.channel, self.kind))

    def __call__(self, *args):
        LOG.append(self.tag)
        if self.kind == "conv":
            return (self.tag, args[0])
        if self.kind == "hook":
            return args[2]
        return None


VALS.update(va1=EqCallable("a", "va1", "val"), va2=EqCallable("a", "va2", "val"))
CONVS.update(ca1=EqCallable("a", "ca1", "conv"), ca2=EqCallable("a", "ca2", "conv"))
# closures of ONE def (same code object), individually annotated: the model's `conv_ann` table
CONVS["c1"].__annotations__ = {"value": str}
CONVS["c3"].__annotations__ = {"value": int}
TYPE_NS = {"Money": Money, "int": int, "str": str}
_typing = __import__("typing")
TYOBJ = {"t:int": int, "t:str": str, "t:float": float, "t:Money": Money,
         "t:typing.ClassVar[dict]": _typing.ClassVar[dict]}


def ty_obj(t):
    return t[2:] if t.startswith("s:") else TYOBJ[t]


def mk_dval(world, name, v):
    if v[0] == "ca":
        return world.cas[v[1]]
    if v[0] == "anns":
        return {n: ty_obj(t) for n, t in v[1]}      # a NESTED dict the caller owns too
    return OWN_FUNCS[name]


def canon_ty(x):
    """Annotation / type as the model sees it: string annotation vs. object, by name."""
    if x is None:
        return None
    if isinstance(x, str):
        return "s:" + x
    if isinstance(x, type):
        return "t:" + x.__name__
    return "t:" + str(x)
HOOKS = {n: _mk_hook(n) for n in ("h1", "h2")}
HOOKS.update(ha1=EqCallable("a", "ha1", "hook"), ha2=EqCallable("a", "ha2", "hook"),
             hb1=EqCallable("b", "hb1", "hook"))
HOOKS["convert"] = setters.convert
HOOKS["validate"] = setters.validate


def e1(a, b):
    return a == b


def e2(a, b):
    return a == b


EQFS = {"e1": e1, "e2": e2}     # module-level functions: the SAME objects in every cmp_using call


class MetaView(__import__("collections").abc.Mapping):
    """A live read-only Mapping view of a dict the caller keeps (not a dict, not a mappingproxy)."""

    def __init__(self, d):
        self._d = d

    def __getitem__(self, k):
        return self._d[k]

    def __iter__(self):
        return iter(self._d)

    def __len__(self):
        return len(self._d)


def conv_tags(v):
    """Which converters produced a stored value, innermost first."""
    out = []
    while isinstance(v, tuple) and len(v) == 2 and v[0] in CONVS:
        out.append(v[0])
        v = v[1]
    return out[::-1]


def _own_hash(self):
    return 424242


def _own_eq(self, other):
    return self is other


def _own_setattr(self, name, value):
    LOG.append("own_setattr")
    object.__setattr__(self, name, value)


def _own_init(self, *a, **k):
    LOG.append("own_init")


def _pre(self):
    LOG.append("pre")


def _post(self):
    LOG.append("post")


OWN_FUNCS = {"__hash__": _own_hash, "__eq__": _own_eq, "__setattr__": _own_setattr,
             "__init__": _own_init, "__attrs_pre_init__": _pre, "__attrs_post_init__": _post}
OWN_KEYS = {"hash": "__hash__", "eq": "__eq__", "setattr": "__setattr__", "init": "__init__",
            "pre": "__attrs_pre_init__", "post": "__attrs_post_init__"}

# ------------------------------------------------------------------------------------------
# bases (defined once with fresh decorators; facts used by the model are in BASE_FACTS)


@attr.s(frozen=True)
class BFrozen:
    a = attr.ib(default=0)


@attrs.frozen
class BFrozenD:
    a: int = 0


@attrs.define
class BHooked:
    a: int = attrs.field(default=0, validator=VALS["vb"])


@attrs.define(slots=False)
class BHookedD:
    a: int = attrs.field(default=0, validator=VALS["vb"])


@attr.s
class BPlain:
    a = attr.ib(default=0)


@attr.s
class BPost:
    a = attr.ib(default=0)

    def __attrs_post_init__(self):
        LOG.append("post")


@attrs.frozen
class BStr:
    amount: "Money" = 0
    note: "str" = ""


@attrs.define
class BStrM:
    amount: "Money" = 0


BASES = {"bstr": BStr, "bstrm": BStrM, "obj": object, "frozen": BFrozen, "frozend": BFrozenD, "hooked": BHooked,
         "hookedd": BHookedD, "plain": BPlain, "post": BPost, "exc": Exception}

# name -> (frozen, is_exc, own_setattr, hashable, pre, post, base field: None | (has validator))
BASE_FACTS = {
    "obj":     dict(frozen=False, exc=False, ownsa=False, hashable=True, pre=False, post=False, attrs=[]),
    "frozen":  dict(frozen=True, exc=False, ownsa=False, hashable=True, pre=False, post=False, attrs=[("a", [], None)]),
    "frozend": dict(frozen=True, exc=False, ownsa=False, hashable=True, pre=False, post=False, attrs=[("a", [], "t:int")]),
    "hooked":  dict(frozen=False, exc=False, ownsa=True, hashable=False, pre=False, post=False, attrs=[("a", ["vb"], "t:int")]),
    "hookedd": dict(frozen=False, exc=False, ownsa=True, hashable=False, pre=False, post=False, attrs=[("a", ["vb"], "t:int")]),
    "plain":   dict(frozen=False, exc=False, ownsa=False, hashable=False, pre=False, post=False, attrs=[("a", [], None)]),
    "post":    dict(frozen=False, exc=False, ownsa=False, hashable=False, pre=False, post=True, attrs=[("a", [], None)]),
    "bstr":    dict(frozen=True, exc=False, ownsa=False, hashable=True, pre=False, post=False,
                    attrs=[("amount", [], "s:Money"), ("note", [], "s:str")]),
    "bstrm":   dict(frozen=False, exc=False, ownsa=False, hashable=False, pre=False, post=False,
                    attrs=[("amount", [], "s:Money")]),
    "exc":     dict(frozen=False, exc=True, ownsa=False, hashable=True, pre=False, post=False, attrs=[]),
}

# ------------------------------------------------------------------------------------------
# the world of caller-owned objects


class World:
    def __init__(self):
        self.cas = []
        self.decos = []
        self.dicts = []
        self.lists = []
        self.metas = []
        self.convs = []       # attrs.Converter instances
        self.classes = []     # per definition step: class object or exception class name
        self.mods = []

    # -- argument decoding ---------------------------------------------------------------
    def seq_arg(self, a, table):
        """None | ["one", sym] | ["lit", [syms]] | ["list", id]"""
        if a is None:
            return None
        if a[0] == "one":
            return table[a[1]]
        if a[0] == "lit":
            return [table[s] for s in a[1]]
        if a[0] == "tup":
            return tuple(table[s] for s in a[1])
        if a[0] == "conv":
            return self.convs[a[1]]      # the shared attrs.Converter instance itself
        if a[0] == "opt":
            return attrs.converters.optional(table[a[1]])
        if a[0] == "pipe":
            return attrs.converters.pipe(*[table[s] for s in a[1]])
        return self.lists[a[1]]          # the shared list object itself

    def hook_arg(self, a):
        if a is None:
            return None
        if a == "noop":
            return setters.NO_OP
        return self.seq_arg(a, HOOKS)

    def attrib(self, a):
        kw = {}
        if a.get("d"):
            kw["default"] = 7
        if a.get("v") is not None:
            kw["validator"] = self.seq_arg(a["v"], VALS)
        if a.get("c") is not None:
            kw["converter"] = self.seq_arg(a["c"], CONVS)
        if a.get("h") is not None:
            kw["on_setattr"] = self.hook_arg(a["h"])
        if a.get("kw"):
            kw["kw_only"] = True
        if a.get("init") is False:
            kw["init"] = False
        m = a.get("m")
        if m is not None:
            kw["metadata"] = ({k: 1 for k in m[1]} if m[0] == "lit" else
                              self.metas[m[1]] if m[0] == "dict" else
                              types.MappingProxyType(self.metas[m[1]]) if m[0] == "proxy" else
                              MetaView(self.metas[m[1]]))
        ek = a.get("eqk")
        if ek is not None:
            ckw = {"eq": EQFS[ek[0]], "require_same_type": ek[1]}
            if len(ek) > 2:
                ckw["class_name"] = ek[2]
            kw["eq"] = attr.cmp_using(**ckw)
        if a.get("type") is not None:
            kw["type"] = ty_obj(a["type"])
        if a.get("field"):
            return attrs.field(**kw)
        return attr.ib(**kw)

    def mk_deco(self, kind, kwargs):
        kw = {}
        for k, v in kwargs.items():
            if k == "these":
                kw[k] = self.dicts[v]
            elif k == "on_setattr":
                kw[k] = self.hook_arg(v)
            else:
                kw[k] = v
        f = {"s": attr.s, "define": attrs.define, "frozen": attrs.frozen, "mutable": attrs.mutable}[kind]
        return f(**kw)


_modcount = itertools.count()


def body_source(spec):
    """Python source of the class statement (without decorator) for a body spec."""
    base = spec.get("base", "obj")
    lines = ["class K(%s):" % ("BASES[%r]" % base if base != "obj" else "")]
    if base == "obj":
        lines = ["class K:"]
    n = 0
    for f in spec["fields"]:
        e = f["e"]
        ty = f.get("ty") or "t:int"
        tsrc = repr(ty[2:]) if ty.startswith("s:") else ty[2:]
        ann = (": ClassVar[int]" if f.get("cv") else ": " + tsrc) if f.get("ann") else ""
        if e == "own":
            lines.append("    %s%s = W.attrib(%r)" % (f["n"], ann, f["a"]))
        elif e == "shared":
            lines.append("    %s%s = W.cas[%d]" % (f["n"], ann, f["sid"]))
        elif e == "val":
            lines.append("    %s%s = 5" % (f["n"], ann))
        else:
            assert ann
            lines.append("    %s%s" % (f["n"], ann))
        n += 1
    for k, on in sorted(spec.get("own", {}).items()):
        if on:
            lines.append("    %s = OWN_FUNCS[%r]" % (OWN_KEYS[k], OWN_KEYS[k]))
            n += 1
    if n == 0:
        lines.append("    pass")
    return "\n".join(lines) + "\n"


def _fresh_module():
    name = "c16_m%d" % next(_modcount)
    return types.ModuleType(name)


def exec_body(world, spec):
    mod = _fresh_module()
    ns = mod.__dict__
    ns.update(W=world, BASES=BASES, OWN_FUNCS=OWN_FUNCS, ClassVar=__import__("typing").ClassVar,
              Money=Money)
    exec(compile(body_source(spec), "<c16 body>", "exec"), ns)
    return ns["K"]


def _exc_name(e):
    for k in ("UnannotatedAttributeError", "DefaultAlreadySetError"):
        if type(e).__name__ == k:
            return k
    for t in (ValueError, TypeError, AttributeError):
        if isinstance(e, t):
            return t.__name__
    return type(e).__name__


def step(world, op):
    """Execute one operation.  Returns True when it was a definition step."""
    k = op[0]
    if k == "attrib":
        world.cas.append(world.attrib(op[1]))
    elif k == "deco":
        try:
            world.decos.append(world.mk_deco(op[1], op[2]))
        except Exception as e:                     # noqa: BLE001  (the factory call itself raised)
            world.decos.append(_exc_name(e))
    elif k == "newconv":
        world.convs.append(attrs.Converter(CONVS[op[1]], takes_self=op[2], takes_field=op[3]))
    elif k == "newlist":
        world.lists.append([(VALS | CONVS | HOOKS)[s] for s in op[1]])
    elif k == "newmeta":
        world.metas.append({key: 1 for key in op[1]})
    elif k == "newdict":
        d = {}
        for name, v in op[1]:
            d[name] = mk_dval(world, name, v)
        world.dicts.append(d)
    elif k == "lappend":
        world.lists[op[1]].append((VALS | CONVS | HOOKS)[op[2]])
    elif k == "mset":
        world.metas[op[1]][op[2]] = 1
    elif k == "mdel":
        world.metas[op[1]].pop(op[2], None)
    elif k == "lpop":
        world.lists[op[1]].pop()
    elif k == "cavalidator":
        world.cas[op[1]].validator(VALS[op[2]])
    elif k == "dset":
        name, v = op[2]
        world.dicts[op[1]][name] = mk_dval(world, name, v)
    elif k == "ddel":
        world.dicts[op[1]].pop(op[2], None)
    elif k == "cop":
        cls = world.classes[op[1]]
        if not isinstance(cls, str):
            class_op(cls, op[2])
    elif k == "apply":
        try:
            if isinstance(world.decos[op[1]], str):
                raise {"ValueError": ValueError, "TypeError": TypeError}[world.decos[op[1]]]
            cls = exec_body(world, op[2])          # the body runs first (creates its attr.ib()s)
            cls = world.decos[op[1]](cls)
        except Exception as e:                     # noqa: BLE001
            cls = _exc_name(e)
        world.classes.append(cls)
        return True
    elif k == "make_class":
        _, did, bid, kwargs, base = op
        kw = dict(kwargs)
        if "on_setattr" in kw:
            kw["on_setattr"] = world.hook_arg(kw["on_setattr"])
        try:
            cls = attr.make_class("K", world.dicts[did], bases=(BASES[base],),
                                  class_body=None if bid is None else world.dicts[bid], **kw)
        except Exception as e:                     # noqa: BLE001
            cls = _exc_name(e)
        world.classes.append(cls)
        return True
    else:
        raise AssertionError(op)
    return False


DEF_OPS = ("apply", "make_class")


def class_op(cls, kind):
    """What the public API offers on a class that exists already."""
    if kind == "resolve":
        attrs.resolve_types(cls, globalns=dict(TYPE_NS))
    elif kind == "fields":
        attr.fields(cls)
        attr.fields_dict(cls)
        attrs.has(cls)
    elif kind == "evolve":
        [a.evolve(kw_only=True, type=str, inherited=True, metadata={"zz": 1}) for a in attr.fields(cls)]
    elif kind == "validate":
        try:
            inst = cls(**{a.alias: 1 for a in attr.fields(cls) if a.init})
            attr.validate(inst)
            attr.asdict(inst)
        except Exception:                          # noqa: BLE001
            pass
    else:
        raise AssertionError(kind)


def alone_ops(ops, k):
    """The history of definition step number k (0-based among definitions) without the other
    definitions (mirror of `alone` in C16/Model.v): every caller operation before it, the
    definition itself, and the class operations applied to THAT class afterwards."""
    out = []
    n = -1
    it = iter(ops)
    for op in it:
        if op[0] in DEF_OPS:
            n += 1
            if n == k:
                out.append(op)
                break
        elif op[0] != "cop":
            out.append(op)
    else:
        raise AssertionError
    for op in it:
        if op[0] == "cop" and op[1] == k:
            out.append(["cop", 0, op[2]])
    return out


# ------------------------------------------------------------------------------------------
# behaviour fingerprint of a class


def _fired(fn):
    LOG.clear()
    try:
        fn()
        return list(LOG), None
    except Exception as e:                         # noqa: BLE001
        return list(LOG), type(e).__name__


def _kind_of(cls, name):
    """How `name` is provided by the class itself: absent / none / own (body's function) / gen."""
    if name not in vars(cls):
        return "absent"
    v = vars(cls)[name]
    if v is None:
        return "none"
    if v is OWN_FUNCS.get(name):
        return "own"
    return "gen"


def fingerprint(cls):
    if isinstance(cls, str):
        return {"exc": cls}
    fp = {"exc": None}
    flds = []
    for a in attr.fields(cls):
        vs = _fired(lambda: a.validator(None, a, 0))[0] if a.validator is not None else []
        if a.converter is None:
            cs = []
        else:
            if isinstance(a.converter, attrs.Converter):
                cs = _fired(lambda: a.converter(0, None, a))[0]
            else:
                cs = _fired(lambda: a.converter(0))[0]
        flds.append({"n": a.name, "kw": bool(a.kw_only), "d": a.default is not attr.NOTHING,
                     "init": bool(a.init), "ty": canon_ty(a.type),
                     "mix": None if a.eq_key is None else bool(a.eq_key(1) == a.eq_key(1.0)),
                     "v": vs, "c": cs,
                     "m": sorted(a.metadata),
                     "inh": bool(a.inherited)})
    fp["fields"] = flds
    fp["hash"] = _kind_of(cls, "__hash__")
    fp["eq"] = _kind_of(cls, "__eq__")
    init_kind = _kind_of(cls, "__init__")
    fp["init"] = init_kind
    # construction
    kw = {}
    for a in attr.fields(cls):
        if a.init:
            kw[a.alias] = 1
    inst = None
    if init_kind == "gen":
        try:
            fp["sig"] = [[p.name, p.kind == p.KEYWORD_ONLY, p.default is not p.empty]
                         for p in list(inspect.signature(cls.__init__).parameters.values())[1:]]
        except Exception as e:                     # noqa: BLE001
            fp["sig"] = type(e).__name__
        try:
            ann = cls.__init__.__annotations__
            params = inspect.signature(cls.__init__).parameters
            fp["ann"] = [[a.name, canon_ty(ann.get(a.alias))] for a in attr.fields(cls) if a.init]
            for a in attr.fields(cls):
                if a.init:
                    pa = params[a.alias].annotation
                    if canon_ty(None if pa is inspect.Parameter.empty else pa) != canon_ty(ann.get(a.alias)):
                        fp["sig"] = "signature and __annotations__ disagree"
        except Exception as e:                     # noqa: BLE001
            fp["sig"] = type(e).__name__

        def build():
            nonlocal inst
            inst = cls(**kw)
        log, exc = _fired(build)
        fp["construct"] = {"pre": "pre" in log, "post": "post" in log, "own": "own_init" in log,
                           "exc": exc}
    else:
        def build():
            nonlocal inst
            inst = cls()
        log, exc = _fired(build)
        fp["sig"] = None
        fp["ann"] = None
        fp["construct"] = {"pre": "pre" in log, "post": "post" in log, "own": "own_init" in log,
                           "exc": exc}
    fp["mixed"] = None
    if inst is None:
        fp["hashes"] = None
        fp["assign"] = None
        fp["initconv"] = None
        return fp
    if init_kind == "gen" and fp["eq"] == "gen":
        # the generated __eq__ on two instances built from values of DIFFERENT types (1 and 1.0)
        try:
            pair = [cls(**{k: v for k in kw}) for v in (1, 1.0)]
            for i in pair:
                for a in attr.fields(cls):
                    if not a.init and a.default is attr.NOTHING:
                        object.__setattr__(i, a.name, 1)
            fp["mixed"] = bool(pair[0] == pair[1])
        except Exception as e:                     # noqa: BLE001
            fp["mixed"] = type(e).__name__
    if init_kind == "gen":
        ic = []
        for a in attr.fields(cls):
            try:
                ic.append([a.name, conv_tags(getattr(inst, a.name))])
            except AttributeError:
                ic.append([a.name, None])
        fp["initconv"] = ic
    else:
        fp["initconv"] = None
    if init_kind == "gen":
        for a in attr.fields(cls):
            if not a.init and a.default is attr.NOTHING:
                object.__setattr__(inst, a.name, 1)     # never set by __init__: fill in directly
        try:
            hash(inst)
            fp["hashes"] = True
        except TypeError:
            fp["hashes"] = False
    else:
        fp["hashes"] = None
    asg = []
    for a in attr.fields(cls):
        log, exc = _fired(lambda: setattr(inst, a.name, 2))
        asg.append([a.name, log, exc])
    fp["assign"] = asg
    return fp


def run_history(ops):
    w = World()
    for op in ops:
        step(w, op)
    return w


def containers(world):
    """Content of the caller-owned containers (keys / member names / identities as indices)."""
    sym_of = {id(v): k for k, v in itertools.chain(VALS.items(), CONVS.items(), HOOKS.items())}
    ca_idx = {id(c): i for i, c in enumerate(world.cas)}

    def dval(name, v):
        if id(v) in ca_idx:
            return ["ca", ca_idx[id(v)]]
        if v is OWN_FUNCS.get(name):
            return ["fn"]
        if isinstance(v, dict):
            return ["anns", sorted([k, canon_ty(t)] for k, t in v.items())]     # compared deeply
        return ["?"]
    owners = {}
    shared = False
    for c in list(BASES.values()) + [c for c in world.classes if not isinstance(c, str)]:
        for a in c.__dict__.get("__attrs_attrs__", ()):
            if owners.setdefault(id(a), c) is not c:
                shared = True
    return {
        "noshare": not shared,
        "lists": [[sym_of.get(id(x), "?") for x in l] for l in world.lists],
        "metas": [sorted(m) for m in world.metas],
        "dicts": [[[n, dval(n, v)] for n, v in d.items()] for d in world.dicts],
    }


_alone_cache = {}


def observe(ops):
    """Full run + alone runs.  Returns (full fingerprints, alone fingerprints, containers at the
    end, per-shared-attr.ib snapshot)."""
    saved = attr._make._CountingAttr.cls_counter
    lc = set(linecache.cache)
    try:
        w = run_history(ops)
        full = [fingerprint(c) for c in w.classes]
        cont = containers(w)
        alone = []
        for k in range(len(w.classes)):
            ao = alone_ops(ops, k)
            key = repr(ao)
            if key not in _alone_cache:
                wa = run_history(ao)
                _alone_cache[key] = fingerprint(wa.classes[-1])
            alone.append(_alone_cache[key])
    finally:
        LOG.clear()
        for k in set(linecache.cache) - lc:
            linecache.cache.pop(k, None)
    return full, alone, cont


# ------------------------------------------------------------------------------------------
# Gallina encoders

def opt_b(x):
    return "None" if x is None else "(Some %s)" % b(x)


def enc_seq(a):
    if a is None:
        return "SNone"
    if a[0] == "one":
        return "(SOne %s)" % q(a[1])
    if a[0] in ("lit", "tup"):
        return "(SLit %s)" % lst(q(s) for s in a[1])
    if a[0] == "conv":
        return "(SConv %d)" % a[1]
    if a[0] == "opt":
        return "(SOpt %s)" % q(a[1])
    if a[0] == "pipe":
        return "(SLit %s)" % lst(q(s) for s in a[1])
    return "(SList %d)" % a[1]


def enc_ty(t):
    return "(%s %s)" % ("TStr" if t.startswith("s:") else "TObj", q(t[2:]))


def enc_oty(t):
    return "None" if t is None else "(Some %s)" % enc_ty(t)


def enc_hookarg(a):
    if a is None:
        return "HANone"
    if a == "noop":
        return "HANoOp"
    return "(HASeq %s)" % enc_seq(a)


def enc_meta(m):
    if m is None:
        return "MANone"
    if m[0] == "lit":
        return "(MALit %s)" % lst(q(k) for k in m[1])
    return "(MADict %d %s)" % (m[1], {"dict": "MKDict", "proxy": "MKProxy", "view": "MKView"}[m[0]])


def enc_attrib(a):
    ek = a.get("eqk")
    return "(A %s %s %s %s %s %s %s %s %s)" % (
        b(bool(a.get("d"))), enc_seq(a.get("v")), enc_seq(a.get("c")), enc_hookarg(a.get("h")),
        b(bool(a.get("kw"))), b(a.get("init") is not False), enc_meta(a.get("m")),
        "EKNone" if ek is None else "(EKCmp %s %s)" % (q(ek[0]), b(ek[1])), enc_oty(a.get("type")))


def enc_corehook(s):
    return {"convert": "HConvert", "validate": "HValidate"}.get(s) or "(HUser %s)" % q(s)


def enc_osarg(a):
    if a is None:
        return "(OsaVal COsNone)"
    if a == "noop":
        return "(OsaVal COsNoOp)"
    if a[0] == "one":
        return "(OsaVal (COsSingle %s))" % enc_corehook(a[1])
    if a[0] in ("lit", "tup"):
        return "(OsaVal (COsPipe %s))" % lst(enc_corehook(s) for s in a[1])
    return "(OsaList %d)" % a[1]


S_DEFAULTS = dict(these=None, hash=None, unsafe_hash=None, init=None, slots=False, frozen=False,
                  auto_attribs=False, kw_only=False, cache_hash=False, auto_exc=False, eq=None,
                  order=None, auto_detect=False, collect_by_mro=False, on_setattr=None)
D_DEFAULTS = dict(these=None, hash=None, unsafe_hash=None, init=None, slots=True, frozen=False,
                  auto_attribs=None, kw_only=False, cache_hash=False, auto_exc=True, eq=None,
                  order=False, auto_detect=True, on_setattr=None)


def enc_attrs_args(kwargs, these=None):
    k = dict(S_DEFAULTS)
    assert set(kwargs) <= set(k), kwargs
    k.update(kwargs)
    th = "None" if k["these"] is None else "(Some (TRef %d))" % k["these"]
    return "(AR %s %s %s %s %s %s %s %s %s %s %s %s %s %s %s)" % (
        th, opt_b(k["hash"]), opt_b(k["unsafe_hash"]), opt_b(k["init"]), b(k["slots"]),
        b(k["frozen"]), b(k["auto_attribs"]), b(k["kw_only"]), b(k["cache_hash"]), b(k["auto_exc"]),
        opt_b(k["eq"]), opt_b(k["order"]), b(k["auto_detect"]), b(k["collect_by_mro"]),
        enc_osarg(k["on_setattr"]))


def enc_define_cells(kind, kwargs):
    k = dict(D_DEFAULTS)
    assert set(kwargs) <= set(k), kwargs
    if kind == "frozen":
        k["frozen"] = True
    k.update(kwargs)
    th = "None" if k["these"] is None else "(Some %d)" % k["these"]
    return "(DC %s %s %s %s %s %s %s %s %s %s %s %s %s %s)" % (
        th, opt_b(k["hash"]), opt_b(k["unsafe_hash"]), opt_b(k["init"]), b(k["slots"]),
        b(k["frozen"]), opt_b(k["auto_attribs"]), b(k["kw_only"]), b(k["cache_hash"]),
        b(k["auto_exc"]), opt_b(k["eq"]), opt_b(k["order"]), b(k["auto_detect"]),
        enc_osarg(k["on_setattr"]))


def enc_base(name):
    f = BASE_FACTS[name]
    return "(BI %s %s %s %s %s %s %s)" % (
        b(f["frozen"]), b(f["exc"]), b(f["ownsa"]), b(f["hashable"]), b(f["pre"]), b(f["post"]),
        lst("(BA %s %s %s)" % (q(n), lst(q(v) for v in vs), enc_oty(t)) for n, vs, t in f["attrs"]))


def enc_body(spec):
    fs = []
    for f in spec["fields"]:
        e = f["e"]
        ent = {"val": "EVal", "none": "ENoVal"}.get(e)
        if e == "own":
            ent = "(EOwn %s)" % enc_attrib(f["a"])
        elif e == "shared":
            ent = "(EShared %d)" % f["sid"]
        fs.append("(F %s %s %s %s %s)" % (q(f["n"]), ent, b(bool(f.get("ann"))), b(bool(f.get("cv"))),
                                          enc_ty(f.get("ty") or "t:int")))
    own = spec.get("own", {})
    return "(CB %s %s %s %s %s %s %s %s)" % (
        lst(fs), b(bool(own.get("hash"))), b(bool(own.get("eq"))), b(bool(own.get("setattr"))),
        b(bool(own.get("init"))), b(bool(own.get("pre"))), b(bool(own.get("post"))),
        enc_base(spec.get("base", "obj")))


def enc_dval(v):
    if v[0] == "anns":
        return "(DAnns %s)" % lst("(%s, %s)" % (q(n), enc_ty(t)) for n, t in v[1])
    return "(DCa %d)" % v[1] if v[0] == "ca" else "DFn"


def enc_pydict(items):
    return lst("(%s, %s)" % (q(n), enc_dval(v)) for n, v in items)


def enc_op(op):
    k = op[0]
    if k == "attrib":
        return "(OAttrib %s)" % enc_attrib(op[1])
    if k == "deco":
        if op[1] == "s":
            return "(ODecoS %s)" % enc_attrs_args(op[2])
        return "(ODecoDefine %s)" % enc_define_cells(op[1], op[2])
    if k == "newconv":
        return "(ONewConv %s %s %s)" % (q(op[1]), b(op[2]), b(op[3]))
    if k == "newlist":
        return "(ONewList %s)" % lst(q(s) for s in op[1])
    if k == "newmeta":
        return "(ONewMeta %s)" % lst(q(s) for s in op[1])
    if k == "newdict":
        return "(ONewDict %s)" % enc_pydict(op[1])
    if k == "lappend":
        return "(OListAppend %d %s)" % (op[1], q(op[2]))
    if k == "mset":
        return "(OMetaSet %d %s)" % (op[1], q(op[2]))
    if k == "mdel":
        return "(OMetaDel %d %s)" % (op[1], q(op[2]))
    if k == "lpop":
        return "(OListPop %d)" % op[1]
    if k == "cavalidator":
        return "(OCaValidator %d %s)" % (op[1], q(op[2]))
    if k == "dset":
        return "(ODictSet %d %s %s)" % (op[1], q(op[2][0]), enc_dval(op[2][1]))
    if k == "ddel":
        return "(ODictDel %d %s)" % (op[1], q(op[2]))
    if k == "cop":
        return "(OClassOp %s %d)" % ("CResolve" if op[2] == "resolve" else "CPure", op[1])
    if k == "apply":
        return "(OApply %d %s)" % (op[1], enc_body(op[2]))
    if k == "make_class":
        _, did, bid, kwargs, base = op
        return "(OMakeClass (MK %d %s %s %s))" % (
            did, "None" if bid is None else "(Some %d)" % bid, enc_attrs_args(kwargs), enc_base(base))
    raise AssertionError(op)


EXC = {"ValueError": "EValueError", "TypeError": "ETypeError",
       "UnannotatedAttributeError": "EUnannotated"}
KIND = {"absent": "KAbsent", "none": "KNone", "own": "KOwn", "gen": "KGen"}


def enc_fp(fp):
    if fp["exc"] is not None:
        return "(FExc %s)" % EXC.get(fp["exc"], "EOther")
    if (fp["construct"]["exc"] is not None or fp["assign"] is None or isinstance(fp["sig"], str)
            or isinstance(fp["mixed"], str)):
        return "(FExc EOther)"      # something the model cannot express: forces a mismatch
    flds = lst("(PF %s %s %s %s %s %s %s %s %s %s)" % (
        q(f["n"]), b(f["kw"]), b(f["d"]), b(f["init"]), enc_oty(f["ty"]), opt_b(f["mix"]),
        lst(q(s) for s in f["v"]),
        lst(q(s) for s in f["c"]), lst(q(s) for s in f["m"]), b(f["inh"])) for f in fp["fields"])
    sig = "None" if fp["sig"] is None else "(Some %s)" % lst(
        "(%s, %s, %s)" % (q(n), b(kw), b(d)) for n, kw, d in fp["sig"])
    asg = lst("(%s, %s)" % (q(n), "AFrozen" if exc == "FrozenInstanceError" else
                            "(AFired %s)" % lst(q(s) for s in (log + (["!" + exc] if exc else []))))
              for n, log, exc in fp["assign"])
    c = fp["construct"]
    ic = "None" if fp["initconv"] is None else "(Some %s)" % lst(
        "(%s, %s)" % (q(n), "None" if t is None else "(Some %s)" % lst(q(x) for x in t))
        for n, t in fp["initconv"])
    ann = "None" if fp["ann"] is None else "(Some %s)" % lst(
        "(%s, %s)" % (q(n), enc_oty(t)) for n, t in fp["ann"])
    return "(FOk (FP %s %s %s %s %s %s %s %s %s %s %s %s %s))" % (
        flds, KIND[fp["hash"]], KIND[fp["eq"]], KIND[fp["init"]], sig, ann, b(c["pre"]), b(c["post"]),
        b(c["own"]), opt_b(fp["hashes"]), opt_b(fp["mixed"]), ic, asg)


def mk_case(ops, scenario="?"):
    counter = attr._make._CountingAttr.cls_counter
    full, alone, cont = observe(ops)
    term = "(Build_case %s %s %s %s %s %s %s %s)" % (
        vlib.z(counter), lst(enc_op(o) for o in ops), lst(enc_fp(f) for f in full),
        lst(enc_fp(f) for f in alone),
        lst(lst(q(s) for s in l) for l in cont["lists"]),
        lst(lst(q(s) for s in m) for m in cont["metas"]),
        lst(enc_pydict(d) for d in cont["dicts"]), b(cont["noshare"]))
    leaks = [k for k in range(len(full)) if full[k] != alone[k]]
    sig = {"scenario": scenario, "leak": bool(leaks), "attribute_objects_shared": not cont["noshare"]}
    seen = {"full": full, "alone": alone, "containers": cont, "differs_at": leaks}
    ndefs = len(full)
    return Case(term, {"ops": ops, "scenario": scenario}, seen, sig=sig, nontrivial=ndefs >= 2,
                key=repr(ops))


# ------------------------------------------------------------------------------------------
# catalogue


def _f(n, e="own", ann=False, cv=False, sid=None, ty=None, **a):
    d = {"n": n, "e": e, "ann": ann}
    if ty is not None:
        d["ty"] = ty
        d["ann"] = True
    if cv:
        d["cv"] = True
    if e == "own":
        d["a"] = a
    if e == "shared":
        d["sid"] = sid
    return d


def _body(fields, base="obj", **own):
    return {"fields": fields, "base": base, "own": own}


V12 = ["lit", ["v1", "v2"]]
C12 = ["lit", ["c1", "c2"]]

BODIES = {
    "plain_ib": _body([_f("x"), _f("y", d=True)]),
    "plain_ann": _body([_f("x", ann=True), _f("y", ann=True, d=True)]),
    "ann_only": _body([_f("x", e="none", ann=True), _f("y", e="val", ann=True)]),
    "mixed_unann": _body([_f("x", ann=True), _f("y", d=True)]),
    "val_noann": _body([_f("x"), _f("k", e="val")]),
    "own_hash": _body([_f("x")], hash=True),
    "own_eq": _body([_f("x", ann=True)], eq=True),
    "own_hash_eq": _body([_f("x")], hash=True, eq=True),
    "own_setattr_v": _body([_f("x", ann=True, v=["one", "v1"])], setattr=True),
    "own_setattr": _body([_f("x")], setattr=True),
    "own_init": _body([_f("x", ann=True)], init=True),
    "fb_plain": _body([_f("x", d=True)], base="frozen"),
    "fb_conv": _body([_f("x", ann=True, d=True, c=["one", "c1"])], base="frozen"),
    "fbd_conv_val": _body([_f("x", ann=True, d=True, c=["one", "c1"], v=["one", "v1"])], base="frozend"),
    "fb_hook": _body([_f("x", d=True, h=["one", "h1"])], base="frozen"),
    "fb_own_setattr": _body([_f("x", d=True)], base="frozen", setattr=True),
    "fb_own_hash": _body([_f("x", ann=True, d=True)], base="frozend", hash=True),
    "hb_plain": _body([_f("x", ann=True, d=True)], base="hooked"),
    "hb_val": _body([_f("x", d=True, v=["one", "v1"])], base="hookedd"),
    "hb_own_setattr": _body([_f("x", d=True)], base="hookedd", setattr=True),
    "hb_override": _body([_f("a", ann=True, d=True, c=["one", "c2"])], base="hooked"),
    "pb_plain": _body([_f("x", d=True)], base="plain"),
    "post_base": _body([_f("x", ann=True, d=True)], base="post"),
    "exc_base": _body([_f("x", ann=True), _f("y", ann=True, d=True)], base="exc"),
    "exc_own_hash": _body([_f("x")], base="exc", hash=True),
    "conv_val": _body([_f("x", ann=True, c=C12, v=V12), _f("y", ann=True, d=True, v=["one", "v3"])]),
    "conv_only": _body([_f("x", c=["one", "c3"])]),
    "field_hooks": _body([_f("x", h=["one", "h1"]), _f("y", d=True, h="noop", v=["one", "v1"]),
                          _f("z", d=True, h=["lit", ["convert", "h2"]], c=["one", "c1"])]),
    "kw_fields": _body([_f("x", ann=True, d=True), _f("y", ann=True, kw=True)]),
    "bad_order": _body([_f("x", d=True), _f("y")]),
    "pre_post": _body([_f("x", ann=True)], pre=True, post=True),
    "post_only": _body([_f("x")], post=True),
    "meta_lit": _body([_f("x", ann=True, m=["lit", ["k1", "k2"]])]),
    "classvar": _body([_f("k", e="val", ann=True, cv=True), _f("y", ann=True)]),
    "init_false": _body([_f("x", init=False), _f("y")]),
    "empty": _body([]),
    "eq_frozen_base": _body([_f("x", ann=True, d=True)], base="frozen", eq=True),
    # converter wrappers: closures of one def each (pipe / optional / the harness's own factory)
    "conv_opt1": _body([_f("x", c=["opt", "c1"]), _f("y", d=True, c=["opt", "c2"])]),
    "conv_opt3": _body([_f("x", ann=True, c=["opt", "c3"])]),
    "conv_list21": _body([_f("x", c=["lit", ["c2", "c1"]])]),
    "conv_list31": _body([_f("x", ty="t:str", c=["lit", ["c3", "c1"]]), _f("y", d=True, c=["one", "c2"])]),
    "conv_pipe": _body([_f("x", c=["pipe", ["c3", "c2"]]), _f("y", d=True, c=["pipe", ["c2", "c3"]])]),
    # string annotations (from __future__ import annotations) and classes as types
    "str_ann": _body([_f("x", ty="s:Money"), _f("y", ty="s:int", d=True)]),
    "obj_ann": _body([_f("x", ty="t:Money"), _f("y", ty="t:str", d=True, c=["one", "c1"])]),
    "bstr_sub": _body([_f("b", ty="s:int", d=True)], base="bstr"),
    "bstr_sub2": _body([_f("note", ty="s:Money", d=True), _f("c", ty="t:int", d=True)], base="bstr"),
    "bstrm_sub": _body([_f("b", ty="s:str", d=True, v=["one", "v1"])], base="bstrm"),
    # eq keys from cmp_using with the SAME function objects, differing in require_same_type / name
    "eq_same": _body([_f("x", eqk=["e1", True])]),
    "eq_any": _body([_f("x", ann=True, eqk=["e1", False])]),
    "eq_any_named": _body([_f("x", eqk=["e1", False, "K2"]), _f("y", d=True, eqk=["e2", True, "K2"])]),
    "eq_same_conv": _body([_f("x", eqk=["e1", True], c=["one", "c1"]), _f("y", d=True, eqk=["e2", False])]),
    "eq_same_fb": _body([_f("x", d=True, eqk=["e2", True])], base="frozen"),
    # type= (also clashing with an annotation) and callable OBJECTS with value equality
    "type_arg": _body([_f("x", type="t:int"), _f("y", d=True, type="s:Money")]),
    "type_clash": _body([_f("x", ann=True, type="t:str")]),
    "eq_objs_1": _body([_f("x", v=["lit", ["va1", "v1"]], c=["lit", ["ca1"]], h=["lit", ["ha1", "validate"]]),
                        _f("y", d=True, h=["tup", ["ha1"]])]),
    "eq_objs_2": _body([_f("x", v=["lit", ["va2", "v1"]], c=["lit", ["ca2"]], h=["lit", ["ha2", "validate"]]),
                        _f("y", d=True, h=["tup", ["ha2"]])]),
    "eq_objs_b": _body([_f("x", v=["one", "va2"], c=["one", "ca2"], h=["lit", ["hb1", "validate"]])]),
    "tuple_args": _body([_f("x", v=["tup", ["v1", "v2"]], c=["tup", ["c2", "c1"]], h=["tup", ["convert", "h1"]])]),
}

DECOS = {
    "s_ad_frozen": ("s", {"auto_detect": True, "frozen": True}),
    "s_ad": ("s", {"auto_detect": True}),
    "s": ("s", {}),
    "define": ("define", {}),
    "define_dict": ("define", {"slots": False}),
    "frozen": ("frozen", {}),
    "mutable_hooks": ("mutable", {"on_setattr": ["lit", ["h1", "validate"]]}),
    "s_ad_frozen_cache": ("s", {"auto_detect": True, "frozen": True, "cache_hash": True}),
    "s_kw": ("s", {"kw_only": True}),
    "s_aa": ("s", {"auto_attribs": True}),
    "define_noop": ("define", {"on_setattr": "noop"}),
    "s_validate": ("s", {"on_setattr": ["one", "validate"]}),
    "s_ad_slots": ("s", {"slots": True, "auto_detect": True}),
    "define_kw": ("define", {"kw_only": True}),
    "s_unsafe_hash": ("s", {"unsafe_hash": True}),
    "s_eq_false": ("s", {"eq": False}),
    "define_aa": ("define", {"auto_attribs": True}),
    "s_exc_slots": ("s", {"auto_exc": True, "auto_detect": True, "slots": True}),
    "s_hash_false_slots": ("s", {"hash": False, "slots": True}),
    "define_convert": ("define", {"on_setattr": ["one", "convert"]}),
    "frozen_dict_ad": ("frozen", {"slots": False}),
    "s_invalid": ("s", {"eq": False, "order": True}),
    "s_hooks_a1": ("s", {"on_setattr": ["lit", ["ha1", "validate"]]}),
    "s_hooks_a2": ("s", {"on_setattr": ["lit", ["ha2", "validate"]]}),
    "mutable_hooks_a2": ("mutable", {"on_setattr": ["tup", ["ha2", "validate"]]}),
}

CORE_BODIES = ["plain_ib", "plain_ann", "mixed_unann", "own_hash", "own_eq", "own_setattr_v",
               "fb_conv", "fb_own_setattr", "hb_plain", "hb_val", "exc_base", "conv_val",
               "field_hooks", "bad_order", "pre_post", "conv_opt1", "conv_list21", "bstr_sub", "eq_same", "eq_any"]
CORE_DECOS = ["s_ad_frozen", "s_ad", "s", "define", "define_dict", "frozen", "mutable_hooks",
              "s_ad_frozen_cache", "s_kw", "define_noop", "s_ad_slots", "s_validate"]


def shared_deco_case(deco, names):
    kind, kw = DECOS[deco]
    ops = [["deco", kind, kw]] + [["apply", 0, BODIES[n]] for n in names]
    return mk_case(ops, scenario="shared-decorator:" + deco)


# ------------------------------------------------------------------------------------------
# scenarios with shared containers

CONT_BODIES = ["plain_ib", "own_hash", "fb_plain", "pre_post", "hb_plain", "empty", "own_setattr",
               "exc_base", "own_init"]
HOOK_NAMES = ["__attrs_pre_init__", "__attrs_post_init__", "__init__"]


def these_cases(rng, thorough):
    out = []
    cas = [["attrib", {"v": ["one", "v1"]}], ["attrib", {"d": True, "c": ["one", "c1"]}],
           ["attrib", {"d": True, "kw": True}]]
    nd = ["newdict", [["x", ["ca", 0]], ["y", ["ca", 1]]]]
    decos = [("s", {"these": 0}), ("s", {"these": 0, "kw_only": True}),
             ("s", {"these": 0, "auto_detect": True, "frozen": True}), ("define", {"these": 0}),
             ("s", {"these": 0, "on_setattr": ["one", "validate"]})]
    muts = [[], [["dset", 0, ["z", ["ca", 2]]]], [["ddel", 0, "y"]], [["cavalidator", 0, "v2"]],
            [["dset", 0, ["x", ["ca", 2]]]]]
    bodies = CONT_BODIES if thorough else CONT_BODIES[:6]
    for (kind, kw), mut in itertools.product(decos, muts):
        pairs = list(itertools.permutations(bodies, 2))
        if not thorough:
            pairs = rng.sample(pairs, 6)
        for a, bb in pairs:
            ops = cas + [nd, ["deco", kind, kw], ["apply", 0, BODIES[a]]] + mut + [["apply", 0, BODIES[bb]]]
            out.append(mk_case(ops, scenario="shared-these"))
    # two decorator objects over one `these` dict: class-level kw_only must not stick to the attr.ib()s
    for d0, d1 in itertools.permutations([("s", {"these": 0, "kw_only": True}), ("s", {"these": 0}),
                                          ("define", {"these": 0, "kw_only": True}),
                                          ("frozen", {"these": 0})], 2):
        for a, bb in (itertools.product(bodies, repeat=2) if thorough else [("plain_ib", "empty"), ("fb_plain", "own_hash")]):
            for order in ([0, 1], [1, 0], [0, 1, 0]):
                ops = cas + [nd, ["deco"] + list(d0), ["deco"] + list(d1)] + \
                      [["apply", i, BODIES[a if n % 2 == 0 else bb]] for n, i in enumerate(order)]
                out.append(mk_case(ops, scenario="shared-these-two-decorators"))
    return out


def make_class_cases(rng, thorough):
    out = []
    cas = [["attrib", {"v": ["one", "v1"], "type": "t:int"}], ["attrib", {"d": True, "c": ["one", "c1"]}],
           ["attrib", {"d": True, "type": "s:Money"}]]
    ann_sets = [None, None, [["registry", "t:typing.ClassVar[dict]"]],
                [["registry", "t:typing.ClassVar[dict]"], ["y", "t:str"]], [["z", "t:float"]]]
    kws = [{}, {"frozen": True}, {"auto_detect": True}, {"kw_only": True}, {"slots": True},
           {"on_setattr": ["lit", ["convert", "validate"]]}, {"auto_detect": True, "frozen": True},
           {"unsafe_hash": True}, {"eq": False, "order": True}]
    bases = ["obj", "frozen", "hooked", "post", "exc", "plain"]
    hook_sets = [[], ["__attrs_post_init__"], ["__attrs_pre_init__", "__attrs_post_init__"],
                 ["__init__"], HOOK_NAMES]
    body_sets = [None, [], ["__hash__"], ["__attrs_post_init__"], ["__setattr__", "__eq__"],
                 ["__init__", "__attrs_pre_init__"]]
    muts = [[], [["dset", 0, ["z", ["ca", 2]]]], [["ddel", 0, "__attrs_post_init__"]],
            [["dset", 0, ["__attrs_post_init__", ["fn"]]]], [["dset", 1, ["__hash__", ["fn"]]]]]
    combos = list(itertools.product(hook_sets, body_sets))
    n_each = 40 if thorough else 6
    for hooks, body in combos:
        for _ in range(n_each):
            items = [["x", ["ca", 0]], ["y", ["ca", 1]]]
            pos = rng.randrange(len(items) + 1)
            items = items[:pos] + [[h, ["fn"]] for h in hooks] + items[pos:]
            ops = cas + [["newdict", items]]
            bid = None
            if body is not None:
                anns = rng.choice(ann_sets)
                ops.append(["newdict", [[n, ["fn"]] for n in body] +
                            ([["__annotations__", ["anns", anns]]] if anns is not None else [])])
                bid = 1
            n_defs = rng.choice([2, 2, 3])
            for i in range(n_defs):
                if i:
                    m = rng.choice(muts)
                    if not (m and m[0][1] == 1 and bid is None):
                        ops = ops + m
                if rng.random() < 0.15:
                    # the same dict handed to attr.s(these=...) in between
                    ops = ops + [["deco", "s", {"these": 0}], ["apply", sum(1 for o in ops if o[0] == "deco"),
                                                               BODIES[rng.choice(CONT_BODIES)]]]
                else:
                    ops = ops + [["make_class", 0, bid if rng.random() < 0.8 else None,
                                  rng.choice(kws), rng.choice(bases)]]
                if rng.random() < 0.35:
                    nd_now = sum(1 for o in ops if o[0] in DEF_OPS)
                    ops = ops + [["cop", rng.randrange(nd_now), rng.choice(COP_KINDS)]]
            out.append(mk_case(ops, scenario="make_class"))
    return out


def shared_ca_cases(rng, thorough):
    out = []
    ca_args = [{"v": ["one", "v1"]}, {"d": True, "c": ["one", "c1"], "m": ["lit", ["k1"]]},
               {"d": True, "h": ["one", "h1"]}, {"kw": True}]
    decos = ["s", "s_kw", "define", "define_kw", "s_ad_frozen", "frozen", "define_dict", "s_aa",
             "mutable_hooks"]
    muts = [[], [["cavalidator", 0, "v2"]]]
    shapes = [
        lambda ann: [_f("x", e="shared", sid=0, ann=ann)],
        lambda ann: [_f("y", ann=ann, d=True), _f("x", e="shared", sid=0, ann=ann)],
        lambda ann: [_f("x", e="shared", sid=0, ann=ann), _f("y", ann=ann, d=True, v=["one", "v3"])],
        lambda ann: [_f("p", e="shared", sid=0, ann=ann), _f("q", e="shared", sid=0, ann=ann)],
    ]
    combos = list(itertools.product(ca_args, itertools.permutations(decos, 2), muts))
    if not thorough:
        combos = rng.sample(combos, 120)
    for ca, (d0, d1), mut in combos:
        sh = [rng.choice(shapes) for _ in range(3)]
        bases = [rng.choice(["obj", "obj", "frozen", "hooked"]) for _ in range(3)]
        anns = [rng.random() < 0.5 for _ in range(3)]
        ops = [["attrib", ca], ["deco"] + list(DECOS[d0]), ["deco"] + list(DECOS[d1]),
               ["apply", 0, _body(sh[0](anns[0]), base=bases[0])]] + mut + \
              [["apply", 1, _body(sh[1](anns[1]), base=bases[1])]]
        if rng.random() < 0.4:
            ops.append(["apply", 0, _body(sh[2](anns[2]), base=bases[2])])
        out.append(mk_case(ops, scenario="shared-attr.ib"))
    return out


def meta_list_cases(rng, thorough):
    out = []
    decos = ["s", "define", "define_dict", "frozen", "mutable_hooks", "s_validate", "s_ad"]
    n = 600 if thorough else 120
    for _ in range(n):
        ops = [["newlist", ["v1"]], ["newlist", ["c1"]], ["newlist", ["h1"]], ["newmeta", ["k1", "k0"]]]
        lens = [1, 1, 1]
        mkinds = ["dict", "proxy", "view"]
        # a shared attr.ib() built from the shared containers
        ops.append(["attrib", {"d": True, "v": ["list", 0], "c": ["list", 1], "m": [rng.choice(mkinds), 0]}])
        nd = rng.choice([1, 2])
        for _i in range(nd):
            r = rng.random()
            if r < 0.25:
                ops.append(["deco", "mutable", {"on_setattr": ["list", 2]}])
            elif r < 0.4:
                ops.append(["deco", "s", {"on_setattr": ["list", 2]}])
            else:
                ops.append(["deco"] + list(DECOS[rng.choice(decos)]))

        def body():
            fs = []
            for name in rng.sample(["x", "y", "z"], rng.choice([1, 2])):
                if rng.random() < 0.25:
                    fs.append(_f(name, e="shared", sid=0, ann=True))
                    continue
                a = {"d": True}
                if rng.random() < 0.6:
                    a["v"] = ["list", 0]
                if rng.random() < 0.5:
                    a["c"] = ["list", 1]
                if rng.random() < 0.3:
                    a["h"] = ["list", 2]
                if rng.random() < 0.7:
                    a["m"] = [rng.choice(mkinds), 0]
                fs.append(_f(name, ann=True, **a))
            return _body(fs, base=rng.choice(["obj", "obj", "hooked", "frozen"]))
        muts = [["lappend", 0, "v2"], ["lappend", 1, "c2"], ["lappend", 2, "validate"],
                ["lappend", 2, "h2"], ["mset", 0, "k2"], ["mset", 0, "k3"], ["cavalidator", 0, "v3"],
                ["mdel", 0, "k1"], ["mdel", 0, "k0"], ["mset", 0, "k1"],
                ["lpop", 0], ["lpop", 1], ["lpop", 2]]

        def mutate(k):
            for m in rng.sample(muts, k):
                if m[0] == "lpop":
                    if lens[m[1]] < 2:
                        continue            # never hand an EMPTY validator/converter list to attr.ib
                    lens[m[1]] -= 1
                elif m[0] == "lappend":
                    lens[m[1]] += 1
                ops.append(m)
        for i in range(rng.choice([2, 2, 3])):
            if i:
                mutate(rng.choice([0, 1, 1, 2, 3]))
            ops.append(["apply", rng.randrange(nd), body()])
        if rng.random() < 0.6:
            mutate(rng.choice([1, 2]))       # mutations AFTER the last definition
        out.append(mk_case(ops, scenario="shared-metadata-and-lists"))
    return out


def shared_converter_cases(rng, thorough):
    """attrs.Converter INSTANCES shared across definitions: used on differently named fields, with
    the later class also having a field of the earlier name that has another converter."""
    out = []
    flags = [(False, False), (True, False), (False, True), (True, True)]
    decos = ["define", "s", "define_dict", "frozen", "s_ad_frozen", "mutable_hooks", "define_noop",
             "s_kw"]
    others = [None, ["one", "c2"], ["conv", 1], ["lit", ["c2", "c3"]]]

    def fld(name, c, ann=True):
        a = {"d": True}
        if c is not None:
            a["c"] = c
        return _f(name, ann=ann, **a)
    combos = list(itertools.product(flags, decos, others, ["x", "y"]))
    if not thorough:
        combos = rng.sample(combos, 64)
    for (ts, tf), d, other, first in combos:
        second = "y" if first == "x" else "x"
        pre = [["newconv", "c1", ts, tf], ["newconv", "c3", tf, ts], ["deco"] + list(DECOS[d])]
        earlier = _body([fld(first, ["conv", 0])])
        later = _body([fld("x", ["conv", 0] if second == "x" else other),
                       fld("y", ["conv", 0] if second == "y" else other)])
        for hist in ([earlier, later], [later, earlier], [earlier, later, earlier]):
            out.append(mk_case(pre + [["apply", 0, h] for h in hist], scenario="shared-Converter"))
    # random bodies over three field names and several shared Converter objects, also through a
    # shared attr.ib() and make_class
    n = 1500 if thorough else 150
    for _ in range(n):
        ops = [["newconv", "c1", rng.random() < 0.5, rng.random() < 0.5],
               ["newconv", "c2", rng.random() < 0.5, rng.random() < 0.5],
               ["attrib", {"d": True, "c": ["conv", 0]}],
               ["newdict", [[rng.choice(["x", "y"]), ["ca", 0]]]]]
        nd = rng.choice([1, 2])
        for _i in range(nd):
            ops.append(["deco"] + list(DECOS[rng.choice(decos)]))
        choices = [None, ["one", "c3"], ["conv", 0], ["conv", 0], ["conv", 1], ["lit", ["c3", "c2"]]]
        for _i in range(rng.choice([2, 2, 3])):
            r = rng.random()
            if r < 0.15:
                ops.append(["make_class", 0, None, rng.choice([{}, {"frozen": True}, {"slots": True}]), "obj"])
                continue
            names = rng.sample(["x", "y", "z"], rng.choice([1, 2, 3]))
            fs = [(_f(nm, e="shared", sid=0, ann=True) if rng.random() < 0.15 else fld(nm, rng.choice(choices)))
                  for nm in names]
            ops.append(["apply", rng.randrange(nd), _body(fs, base=rng.choice(["obj", "obj", "frozen", "hooked"]))])
        out.append(mk_case(ops, scenario="shared-Converter"))
    return out


COP_KINDS = ["resolve", "resolve", "resolve", "fields", "evolve", "validate"]
TYPE_BODIES = ["bstr_sub", "bstr_sub2", "bstrm_sub", "str_ann", "obj_ann", "plain_ann", "fbd_conv_val",
               "hb_plain", "conv_list31", "conv_opt3", "kw_fields", "ann_only"]


def class_op_cases(rng, thorough):
    """Definitions interleaved with what the public API offers on classes that exist already."""
    out = []
    decos = ["define", "frozen", "define_dict", "s", "s_aa", "define_kw", "mutable_hooks", "s_kw",
             "frozen_dict_ad"]
    # systematic: (A, op on A, B) for all pairs of the type-relevant bodies
    pairs = list(itertools.product(TYPE_BODIES, repeat=2))
    for d in (decos if thorough else decos[:3]):
        for a, bb in (pairs if thorough else rng.sample(pairs, 60)):
            kind = rng.choice(COP_KINDS) if thorough else "resolve"
            ops = [["deco"] + list(DECOS[d]), ["apply", 0, BODIES[a]], ["cop", 0, kind],
                   ["apply", 0, BODIES[bb]]]
            if rng.random() < 0.5:
                ops.append(["cop", rng.randrange(2), rng.choice(COP_KINDS)])
            out.append(mk_case(ops, scenario="class-operations"))
    n = 2500 if thorough else 250
    names = list(BODIES)
    for _ in range(n):
        nd = rng.choice([1, 2])
        ops = [["deco"] + list(DECOS[rng.choice(decos)]) for _i in range(nd)]
        ndef = 0
        for _i in range(rng.choice([2, 3, 3, 4])):
            pool = TYPE_BODIES if rng.random() < 0.7 else names
            ops.append(["apply", rng.randrange(nd), BODIES[rng.choice(pool)]])
            ndef += 1
            for _j in range(rng.choice([0, 1, 1, 2])):
                ops.append(["cop", rng.randrange(ndef), rng.choice(COP_KINDS)])
        out.append(mk_case(ops, scenario="class-operations"))
    return out


def cmp_using_cases(rng, thorough):
    """eq keys built by cmp_using() calls with the SAME function objects (and class_name) that differ
    only in require_same_type, spread over the classes of a history; every class is re-observed at
    the end (== on values of different types)."""
    out = []
    decos = ["s", "define", "frozen", "s_ad_frozen", "define_dict", "s_unsafe_hash", "s_eq_false",
             "mutable_hooks", "s_kw"]
    eq_bodies = ["eq_same", "eq_any", "eq_any_named", "eq_same_conv", "eq_same_fb"]
    for d in decos:
        hists = list(itertools.permutations(eq_bodies, 2)) + [(x, x) for x in eq_bodies]
        if thorough:
            hists += list(itertools.permutations(eq_bodies, 3))
        else:
            hists += rng.sample(list(itertools.permutations(eq_bodies, 3)), 6)
        for h in hists:
            out.append(shared_deco_case(d, list(h)))
            out[-1].sig["scenario"] = "cmp_using"
    n = 800 if thorough else 80
    for _ in range(n):
        nd = rng.choice([1, 2])
        ops = [["deco"] + list(DECOS[rng.choice(decos)]) for _i in range(nd)]
        ops.append(["attrib", {"d": True, "eqk": ["e1", rng.random() < 0.5]}])     # a shared attr.ib()
        for _i in range(rng.choice([2, 3, 4])):
            fs = []
            for nm in rng.sample(["x", "y", "z"], rng.choice([1, 2])):
                r = rng.random()
                if r < 0.15:
                    fs.append(_f(nm, e="shared", sid=0))
                    continue
                a = {"d": True}
                if r < 0.8:
                    a["eqk"] = [rng.choice(["e1", "e1", "e2"]), rng.random() < 0.5] + \
                               ([rng.choice(["K2", "Comparable"])] if rng.random() < 0.3 else [])
                if rng.random() < 0.25:
                    a["c"] = ["one", rng.choice(["c1", "c2"])]
                fs.append(_f(nm, **a))
            ops.append(["apply", rng.randrange(nd), _body(fs, base=rng.choice(["obj", "obj", "frozen", "plain"]))])
        out.append(mk_case(ops, scenario="cmp_using"))
    return out


def equal_callable_cases(rng, thorough):
    """Hook / validator / converter lists and tuples (class- and field-level) whose members are
    callable OBJECTS that compare equal but are distinct: each class must run ITS OWN objects."""
    out = []
    bodies = ["eq_objs_1", "eq_objs_2", "eq_objs_b", "plain_ib", "conv_val"]
    # field-level: one decorator, equal-but-distinct objects in the bodies
    for d in ["s", "define", "define_dict", "mutable_hooks", "s_validate", "s_hooks_a1"]:
        for h in itertools.permutations(bodies, 2):
            out.append(shared_deco_case(d, list(h)))
            out[-1].sig["scenario"] = "equal-callables"
    # class-level: two decorator objects / make_class calls whose on_setattr lists are equal-but-distinct
    level = [("s", {"on_setattr": ["lit", ["ha1", "validate"]]}), ("s", {"on_setattr": ["lit", ["ha2", "validate"]]}),
             ("mutable", {"on_setattr": ["tup", ["ha2", "validate"]]}), ("define", {"on_setattr": ["lit", ["ha1"]]}),
             ("mutable", {"on_setattr": ["lit", ["ha2"]]}), ("s", {"on_setattr": ["one", "ha1"]}),
             ("s", {"on_setattr": ["one", "ha2"]}), ("mutable", {"on_setattr": ["lit", ["hb1", "validate"]]})]
    pairs = list(itertools.permutations(level, 2))
    if not thorough:
        pairs = rng.sample(pairs, 30)
    for d0, d1 in pairs:
        for a, bb in ([("plain_ib", "plain_ib"), ("conv_val", "plain_ann"), ("eq_objs_1", "eq_objs_2")]
                      if thorough else [rng.choice([("plain_ib", "plain_ib"), ("conv_val", "plain_ann")])]):
            ops = [["deco"] + list(d0), ["deco"] + list(d1), ["apply", 0, BODIES[a]], ["apply", 1, BODIES[bb]]]
            if rng.random() < 0.4:
                ops.append(["apply", 0, BODIES[bb]])
            out.append(mk_case(ops, scenario="equal-callables"))
    # make_class(**kwargs) with equal-but-distinct hook lists
    cas = [["attrib", {"d": True, "v": ["one", "v1"]}], ["newdict", [["x", ["ca", 0]]]]]
    for (k0, a0), (k1, a1) in (pairs if thorough else pairs[:12]):
        if k0 != "s" or k1 != "s":
            continue
        out.append(mk_case(cas + [["make_class", 0, None, a0, "obj"], ["make_class", 0, None, a1, "obj"]],
                           scenario="equal-callables"))
    return out


_PAIR_MEMO = {}


def generate(tier, seed):
    rng = random.Random(seed)
    thorough = tier == "thorough"
    _alone_cache.clear()
    cases = []
    names = list(BODIES)
    # 1. one shared decorator object, all ordered pairs
    for d in DECOS:
        pool = names if thorough else (rng.sample(names, 32) if d == "define" else CORE_BODIES)
        if thorough and d not in CORE_DECOS:
            pool = rng.sample(names, 24)
        if not thorough and d in CORE_DECOS and d != "define":
            pool = rng.sample(CORE_BODIES, 13)
        if not thorough and d not in CORE_DECOS:
            pool = rng.sample(CORE_BODIES, 6)
        for a, bb in itertools.product(pool, repeat=2):
            cases.append(shared_deco_case(d, [a, bb]))
    # 2. triples / longer histories (sampled)
    n_long = 4000 if thorough else 200
    dn = list(DECOS)
    for _ in range(n_long):
        d = rng.choice(dn)
        k = rng.choice([3, 3, 3, 4, 5])
        cases.append(shared_deco_case(d, [rng.choice(names) for _ in range(k)]))
    # 3. shared containers
    cases += these_cases(rng, thorough)
    cases += make_class_cases(rng, thorough)
    cases += shared_ca_cases(rng, thorough)
    cases += meta_list_cases(rng, thorough)
    cases += shared_converter_cases(rng, thorough)
    cases += class_op_cases(rng, thorough)
    cases += cmp_using_cases(rng, thorough)
    cases += equal_callable_cases(rng, thorough)
    return cases


def rerun(inp):
    _alone_cache.clear()
    return mk_case(inp["ops"], scenario=inp.get("scenario", "?"))


def corpus():
    import importlib.util
    import os
    spec = importlib.util.spec_from_file_location("verif_defects", os.path.join(vlib.VERIF, "corpus", "defects.py"))
    m = importlib.util.module_from_spec(spec)
    spec.loader.exec_module(m)
    return [(k, f) for k, f in m.ALL.items() if "_C16_" in k]


def EXHAUSTIVE(tier):
    return False


def distribution(cases):
    from collections import Counter
    sc = Counter(c.inp["scenario"].split(":")[0] for c in cases)
    nd = Counter(sum(1 for o in c.inp["ops"] if o[0] in DEF_OPS) for c in cases)
    excs = Counter()
    for c in cases:
        for f in c.seen["full"]:
            excs[f["exc"] or "built"] += 1
    return {"scenarios": dict(sc), "definitions_per_history": dict(sorted(nd.items())),
            "definition_results": dict(excs)}
