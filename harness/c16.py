"""C16 - class definition is a pure function of body, bases, arguments (no leaked state).

Real-side driver + case generator.  A case is a *history*: a list of operations on a small
world of caller-owned objects (decorator objects returned by attr.s(...)/attrs.define(...),
`attr.ib()` objects, `these`/make_class dicts, class_body dicts, metadata dicts,
validator/converter/hook lists).  Operations either create/mutate such an object (what the
*caller* does) or define a class (apply a decorator to a freshly exec'ed class body /
call make_class).  For every definition step k the harness also runs the history "alone":
the same caller operations up to k but WITHOUT the other class definitions.  The behaviour
fingerprint of class k observed at the END of the full history must equal the fingerprint
observed in the alone run, and both must equal what the Coq model computes.
"""
from __future__ import annotations

import inspect
import itertools
import linecache
import random
import sys
import types

import attr
import attrs
from attr import setters
from attr.exceptions import FrozenInstanceError

from . import vlib
from .driver import Case
from .vlib import b, lst, q

PROP = "C16"
HEADER = "From Attrs Require Import Base Core.Attr Core.Init C16.Model C16.Corr."
CASE_TYPE = "case"
CHECK = "check_case"
MODEL = "model_of"

# ------------------------------------------------------------------------------------------
# recording callables

LOG = []


def _mk_validator(name):
    def v(inst, a, value):
        LOG.append(name)
    v.__name__ = name
    return v


def _mk_converter(name):
    def c(value):
        LOG.append(name)
        return value
    c.__name__ = name
    return c


def _mk_hook(name):
    def h(inst, a, value):
        LOG.append(name)
        return value
    h.__name__ = name
    return h


VALS = {n: _mk_validator(n) for n in ("v1", "v2", "v3", "vb")}
CONVS = {n: _mk_converter(n) for n in ("c1", "c2", "c3")}
HOOKS = {n: _mk_hook(n) for n in ("h1", "h2")}
HOOKS["convert"] = setters.convert
HOOKS["validate"] = setters.validate


def _own_hash(self):
    return 424242


def _own_eq(self, other):
    return self is other


def _own_setattr(self, name, value):
    LOG.append("own_setattr")
    object.__setattr__(self, name, value)


def _own_init(self, *a, **k):
    LOG.append("own_init")


def _pre(self):
    LOG.append("pre")


def _post(self):
    LOG.append("post")


OWN_FUNCS = {"__hash__": _own_hash, "__eq__": _own_eq, "__setattr__": _own_setattr,
             "__init__": _own_init, "__attrs_pre_init__": _pre, "__attrs_post_init__": _post}
OWN_KEYS = {"hash": "__hash__", "eq": "__eq__", "setattr": "__setattr__", "init": "__init__",
            "pre": "__attrs_pre_init__", "post": "__attrs_post_init__"}

# ------------------------------------------------------------------------------------------
# bases (defined once with fresh decorators; facts used by the model are in BASE_FACTS)


@attr.s(frozen=True)
class BFrozen:
    a = attr.ib(default=0)


@attrs.frozen
class BFrozenD:
    a: int = 0


@attrs.define
class BHooked:
    a: int = attrs.field(default=0, validator=VALS["vb"])


@attrs.define(slots=False)
class BHookedD:
    a: int = attrs.field(default=0, validator=VALS["vb"])


@attr.s
class BPlain:
    a = attr.ib(default=0)


@attr.s
class BPost:
    a = attr.ib(default=0)

    def __attrs_post_init__(self):
        LOG.append("post")


BASES = {"obj": object, "frozen": BFrozen, "frozend": BFrozenD, "hooked": BHooked,
         "hookedd": BHookedD, "plain": BPlain, "post": BPost, "exc": Exception}

# name -> (frozen, is_exc, own_setattr, hashable, pre, post, base field: None | (has validator))
BASE_FACTS = {
    "obj":     dict(frozen=False, exc=False, ownsa=False, hashable=True, pre=False, post=False, attrs=[]),
    "frozen":  dict(frozen=True, exc=False, ownsa=False, hashable=True, pre=False, post=False, attrs=[("a", [])]),
    "frozend": dict(frozen=True, exc=False, ownsa=False, hashable=True, pre=False, post=False, attrs=[("a", [])]),
    "hooked":  dict(frozen=False, exc=False, ownsa=True, hashable=False, pre=False, post=False, attrs=[("a", ["vb"])]),
    "hookedd": dict(frozen=False, exc=False, ownsa=True, hashable=False, pre=False, post=False, attrs=[("a", ["vb"])]),
    "plain":   dict(frozen=False, exc=False, ownsa=False, hashable=False, pre=False, post=False, attrs=[("a", [])]),
    "post":    dict(frozen=False, exc=False, ownsa=False, hashable=False, pre=False, post=True, attrs=[("a", [])]),
    "exc":     dict(frozen=False, exc=True, ownsa=False, hashable=True, pre=False, post=False, attrs=[]),
}

# ------------------------------------------------------------------------------------------
# the world of caller-owned objects


class World:
    def __init__(self):
        self.cas = []
        self.decos = []
        self.dicts = []
        self.lists = []
        self.metas = []
        self.classes = []     # per definition step: class object or exception class name
        self.mods = []

    # -- argument decoding ---------------------------------------------------------------
    def seq_arg(self, a, table):
        """None | ["one", sym] | ["lit", [syms]] | ["list", id]"""
        if a is None:
            return None
        if a[0] == "one":
            return table[a[1]]
        if a[0] == "lit":
            return [table[s] for s in a[1]]
        return self.lists[a[1]]          # the shared list object itself

    def hook_arg(self, a):
        if a is None:
            return None
        if a == "noop":
            return setters.NO_OP
        return self.seq_arg(a, HOOKS)

    def attrib(self, a):
        kw = {}
        if a.get("d"):
            kw["default"] = 7
        if a.get("v") is not None:
            kw["validator"] = self.seq_arg(a["v"], VALS)
        if a.get("c") is not None:
            kw["converter"] = self.seq_arg(a["c"], CONVS)
        if a.get("h") is not None:
            kw["on_setattr"] = self.hook_arg(a["h"])
        if a.get("kw"):
            kw["kw_only"] = True
        if a.get("init") is False:
            kw["init"] = False
        m = a.get("m")
        if m is not None:
            kw["metadata"] = self.metas[m[1]] if m[0] == "dict" else {k: 1 for k in m[1]}
        if a.get("field"):
            return attrs.field(**kw)
        return attr.ib(**kw)

    def mk_deco(self, kind, kwargs):
        kw = {}
        for k, v in kwargs.items():
            if k == "these":
                kw[k] = self.dicts[v]
            elif k == "on_setattr":
                kw[k] = self.hook_arg(v)
            else:
                kw[k] = v
        f = {"s": attr.s, "define": attrs.define, "frozen": attrs.frozen, "mutable": attrs.mutable}[kind]
        return f(**kw)


_modcount = itertools.count()


def body_source(spec):
    """Python source of the class statement (without decorator) for a body spec."""
    base = spec.get("base", "obj")
    lines = ["class K(%s):" % ("BASES[%r]" % base if base != "obj" else "")]
    if base == "obj":
        lines = ["class K:"]
    n = 0
    for f in spec["fields"]:
        e = f["e"]
        ann = (": ClassVar[int]" if f.get("cv") else ": int") if f.get("ann") else ""
        if e == "own":
            lines.append("    %s%s = W.attrib(%r)" % (f["n"], ann, f["a"]))
        elif e == "shared":
            lines.append("    %s%s = W.cas[%d]" % (f["n"], ann, f["sid"]))
        elif e == "val":
            lines.append("    %s%s = 5" % (f["n"], ann))
        else:
            assert ann
            lines.append("    %s%s" % (f["n"], ann))
        n += 1
    for k, on in sorted(spec.get("own", {}).items()):
        if on:
            lines.append("    %s = OWN_FUNCS[%r]" % (OWN_KEYS[k], OWN_KEYS[k]))
            n += 1
    if n == 0:
        lines.append("    pass")
    return "\n".join(lines) + "\n"


def _fresh_module():
    name = "c16_m%d" % next(_modcount)
    return types.ModuleType(name)


def exec_body(world, spec):
    mod = _fresh_module()
    ns = mod.__dict__
    ns.update(W=world, BASES=BASES, OWN_FUNCS=OWN_FUNCS, ClassVar=__import__("typing").ClassVar)
    exec(compile(body_source(spec), "<c16 body>", "exec"), ns)
    return ns["K"]


def _exc_name(e):
    for k in ("UnannotatedAttributeError", "DefaultAlreadySetError"):
        if type(e).__name__ == k:
            return k
    for t in (ValueError, TypeError, AttributeError):
        if isinstance(e, t):
            return t.__name__
    return type(e).__name__


def step(world, op):
    """Execute one operation.  Returns True when it was a definition step."""
    k = op[0]
    if k == "attrib":
        world.cas.append(world.attrib(op[1]))
    elif k == "deco":
        world.decos.append(world.mk_deco(op[1], op[2]))
    elif k == "newlist":
        world.lists.append([(VALS | CONVS | HOOKS)[s] for s in op[1]])
    elif k == "newmeta":
        world.metas.append({key: 1 for key in op[1]})
    elif k == "newdict":
        d = {}
        for name, v in op[1]:
            d[name] = world.cas[v[1]] if v[0] == "ca" else OWN_FUNCS[name]
        world.dicts.append(d)
    elif k == "lappend":
        world.lists[op[1]].append((VALS | CONVS | HOOKS)[op[2]])
    elif k == "mset":
        world.metas[op[1]][op[2]] = 1
    elif k == "cavalidator":
        world.cas[op[1]].validator(VALS[op[2]])
    elif k == "dset":
        name, v = op[2]
        world.dicts[op[1]][name] = world.cas[v[1]] if v[0] == "ca" else OWN_FUNCS[name]
    elif k == "ddel":
        world.dicts[op[1]].pop(op[2], None)
    elif k == "apply":
        try:
            cls = exec_body(world, op[2])          # the body runs first (creates its attr.ib()s)
            cls = world.decos[op[1]](cls)
        except Exception as e:                     # noqa: BLE001
            cls = _exc_name(e)
        world.classes.append(cls)
        return True
    elif k == "make_class":
        _, did, bid, kwargs, base = op
        kw = dict(kwargs)
        if "on_setattr" in kw:
            kw["on_setattr"] = world.hook_arg(kw["on_setattr"])
        try:
            cls = attr.make_class("K", world.dicts[did], bases=(BASES[base],),
                                  class_body=None if bid is None else world.dicts[bid], **kw)
        except Exception as e:                     # noqa: BLE001
            cls = _exc_name(e)
        world.classes.append(cls)
        return True
    else:
        raise AssertionError(op)
    return False


DEF_OPS = ("apply", "make_class")


def alone_ops(ops, k):
    """The history of definition step number k (0-based among definitions) without the other
    definitions: every caller operation before it, then the definition itself."""
    out = []
    n = -1
    for op in ops:
        if op[0] in DEF_OPS:
            n += 1
            if n == k:
                out.append(op)
                return out
        else:
            out.append(op)
    raise AssertionError


# ------------------------------------------------------------------------------------------
# behaviour fingerprint of a class


def _fired(fn):
    LOG.clear()
    try:
        fn()
        return list(LOG), None
    except Exception as e:                         # noqa: BLE001
        return list(LOG), type(e).__name__


def _kind_of(cls, name):
    """How `name` is provided by the class itself: absent / none / own (body's function) / gen."""
    if name not in vars(cls):
        return "absent"
    v = vars(cls)[name]
    if v is None:
        return "none"
    if v is OWN_FUNCS.get(name):
        return "own"
    return "gen"


def fingerprint(cls):
    if isinstance(cls, str):
        return {"exc": cls}
    fp = {"exc": None}
    flds = []
    for a in attr.fields(cls):
        vs = _fired(lambda: a.validator(None, a, 0))[0] if a.validator is not None else []
        if a.converter is None:
            cs = []
        else:
            cs = _fired(lambda: a.converter(0))[0]
        flds.append({"n": a.name, "kw": bool(a.kw_only), "d": a.default is not attr.NOTHING,
                     "init": bool(a.init), "v": vs, "c": cs, "m": sorted(a.metadata),
                     "inh": bool(a.inherited)})
    fp["fields"] = flds
    fp["hash"] = _kind_of(cls, "__hash__")
    fp["eq"] = _kind_of(cls, "__eq__")
    init_kind = _kind_of(cls, "__init__")
    fp["init"] = init_kind
    # construction
    kw = {}
    for a in attr.fields(cls):
        if a.init:
            kw[a.alias] = 1
    inst = None
    if init_kind == "gen":
        try:
            fp["sig"] = [[p.name, p.kind == p.KEYWORD_ONLY, p.default is not p.empty]
                         for p in list(inspect.signature(cls.__init__).parameters.values())[1:]]
        except Exception as e:                     # noqa: BLE001
            fp["sig"] = type(e).__name__

        def build():
            nonlocal inst
            inst = cls(**kw)
        log, exc = _fired(build)
        fp["construct"] = {"pre": "pre" in log, "post": "post" in log, "own": "own_init" in log,
                           "exc": exc}
    else:
        def build():
            nonlocal inst
            inst = cls()
        log, exc = _fired(build)
        fp["sig"] = None
        fp["construct"] = {"pre": "pre" in log, "post": "post" in log, "own": "own_init" in log,
                           "exc": exc}
    if inst is None:
        fp["hashes"] = None
        fp["assign"] = None
        return fp
    if init_kind == "gen":
        try:
            hash(inst)
            fp["hashes"] = True
        except TypeError:
            fp["hashes"] = False
    else:
        fp["hashes"] = None
    asg = []
    for a in attr.fields(cls):
        log, exc = _fired(lambda: setattr(inst, a.name, 2))
        asg.append([a.name, log, exc])
    fp["assign"] = asg
    return fp


def run_history(ops):
    w = World()
    for op in ops:
        step(w, op)
    return w


def containers(world):
    """Content of the caller-owned containers (keys / member names / identities as indices)."""
    sym_of = {id(v): k for k, v in itertools.chain(VALS.items(), CONVS.items(), HOOKS.items())}
    ca_idx = {id(c): i for i, c in enumerate(world.cas)}

    def dval(name, v):
        if id(v) in ca_idx:
            return ["ca", ca_idx[id(v)]]
        if v is OWN_FUNCS.get(name):
            return ["fn"]
        return ["?"]
    return {
        "lists": [[sym_of.get(id(x), "?") for x in l] for l in world.lists],
        "metas": [sorted(m) for m in world.metas],
        "dicts": [[[n, dval(n, v)] for n, v in d.items()] for d in world.dicts],
    }


def observe(ops):
    """Full run + alone runs.  Returns (full fingerprints, alone fingerprints, containers at the
    end, per-shared-attr.ib snapshot)."""
    saved = attr._make._CountingAttr.cls_counter
    lc = set(linecache.cache)
    try:
        w = run_history(ops)
        full = [fingerprint(c) for c in w.classes]
        cont = containers(w)
        alone = []
        for k in range(len(w.classes)):
            wa = run_history(alone_ops(ops, k))
            alone.append(fingerprint(wa.classes[-1]))
    finally:
        LOG.clear()
        for k in set(linecache.cache) - lc:
            linecache.cache.pop(k, None)
    return full, alone, cont
