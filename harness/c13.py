"""C13 - asdict / astuple structural conversion.  Real-side driver + case generator."""
from __future__ import annotations

import collections
import itertools
import json
import random

import attr
import attrs
from attr import filters as afilters

from . import vlib
from .driver import Case
from .vlib import b, lst, q

PROP = "C13"
CASE_TYPE = "case"
CHECK = "check_case"
MODEL = "model_of"
RULE = ("random nested values to depth 4 (quick) / 5 (thorough) built from {instances of 6 attrs "
        "classes (attr.s and attrs.define/frozen, slots and dict, 0-3 fields, private names), list, "
        "tuple, 3 namedtuple classes (0/1/2 fields), a tuple subclass, set, frozenset, dict, "
        "OrderedDict, a dict subclass, int/float/None/bytes/str scalars} as the field values of an "
        "attrs instance x {attr.asdict, attr.astuple, attrs.asdict, attrs.astuple} x recurse x "
        "retain_collection_types x filter in {None, include(types/names/Attributes), exclude(...), "
        "table predicate} x dict_factory in {dict, OrderedDict, dict subclass} / tuple_factory in "
        "{tuple, list, tuple subclass} x value_serializer in {None, wrap-everything, wrap-leaves}; "
        "a fixed set of hand-written instances is crossed with EVERY configuration; a malformed "
        "stream puts attrs instances into set members / dict keys (both sides must raise TypeError "
        "or agree); a fault stream buries one poisoned spot (a leaf the value_serializer rejects, an "
        "instance field the filter rejects, a set/frozenset of instances, an instance inside a key) under "
        "1..depth-1 random containers (list, tuple, tuple subclass, namedtuple, set, frozenset, dict value, "
        "key, member of a key tuple, field of a nested instance) with faulty callables raising one of "
        "{TypeError, a TypeError subclass, ValueError, KeyError, a custom Exception}; faulty filters / "
        "serializers are also mixed into the other streams; round-trip cases run C(**asdict(x)); the real "
        "outcome - the result converted back into the model's value language with exact classes, or the "
        "exact class of the exception that came out - is compared in Coq with the code-shaped model "
        "and with the reference specification; distinct = distinct (value, configuration); "
        "non-trivial = the instance contains a nested instance or collection")
EXTRA_TRUSTED = [
    "Python data-model layer of the model (hash-ability, == on hashable values, set()/dict() "
    "construction with first-key-wins, namedtuple call conventions): hand-written oracle functions "
    "in C13/Model.v section Builtins, exercised by the correspondence",
    "value_serializer is modelled as returning either its argument or an opaque non-collection, "
    "non-attrs value; filters as arbitrary boolean functions of (field, value)",
    "tie by translation: harness/translate_c13.py (Python AST of asdict/_asdict_anything/_rebuild_collection/"
    "astuple and the next-gen wrappers -> Gallina over the operations of C13/TieBase.v, whose reading of "
    "has/isinstance/issubclass/__class__/iteration/calls of class objects is hand-written)",
]


def pre_build():
    # Gen/C13_Funcs.v is regenerated from the current source text (a fresh checkout has none)
    from . import translate_c13
    translate_c13.regenerate(typecheck=False)


def translated_tie():
    from . import translate_c13
    return translate_c13.regenerate(), "theories/C13/Tie.vo"


ASSUMPTIONS = [
    "scalars used as dict keys / set members are pairwise unequal unless identical (the harness draws "
    "from such a pool); attrs classes whose instances are put into sets/keys compare and hash by value",
    "no cyclic values",
]


# --------------------------------------------------------------------------------------
# the universe of classes

@attr.s
class A0:
    x = attr.ib()
    y = attr.ib()


@attr.s(slots=True, frozen=True)
class A1:
    a = attr.ib()
    _b = attr.ib()
    c = attr.ib()


@attrs.define
class A2:
    x: object


@attrs.frozen
class A3:
    x: object
    _p: object


@attr.s(unsafe_hash=True)
class A4:
    pass


@attr.s(slots=True)
class A5:
    x = attr.ib()
    z = attr.ib()


CLASSES = [A0, A1, A2, A3, A4, A5]
HASHABLE = [False, True, False, True, True, False]
FLAT_PUBLIC = [True, False, True, False, True, True]

N2 = collections.namedtuple("N2", "a b")
N1 = collections.namedtuple("N1", "a")
N0 = collections.namedtuple("N0", "")
NTS = [N2, N1, N0]
NT_ARITY = [2, 1, 0]


class MyTuple(tuple):
    pass


class MyDict(dict):
    pass


class Boom(Exception):
    pass


class SubTE(TypeError):
    pass


# exception classes the faulty callables raise -> model's [exc]
EXCS = {"TypeError": TypeError, "ValueError": ValueError, "KeyError": KeyError, "Boom": Boom, "SubTE": SubTE}
EXC_COQ = {"TypeError": "ETypeError", "ValueError": "(EUser 0)", "KeyError": "(EUser 1)", "Boom": "(EUser 2)",
           "SubTE": "(EUser 3)"}
EXC_NAME = {v: k for k, v in EXCS.items()}


class W:
    """What the symbolic value_serializer returns: hashes and compares by identity."""
    __slots__ = ("inst", "attr", "v")

    def __init__(self, inst, attr_, v):
        self.inst, self.attr, self.v = inst, attr_, v


def _attr_ids():
    """Attribute-id = index of the equivalence class of the Attribute under ==."""
    reps = []
    out = {}
    for ci, c in enumerate(CLASSES):
        for a in attr.fields(c):
            for i, r in enumerate(reps):
                if r == a and hash(r) == hash(a):
                    out[(ci, a.name)] = i
                    break
            else:
                reps.append(a)
                out[(ci, a.name)] = len(reps) - 1
    return out, reps


AID, AREPS = _attr_ids()
FIELDS = [[a.name for a in attr.fields(c)] for c in CLASSES]

HEADER = (
    "From Coq Require Import List String.\nImport ListNotations.\nOpen Scope string_scope.\n"
    "From Attrs Require Import Base C13.Model C13.Corr.\n"
    "Definition CL : list (list field * bool) := %s.\nDefinition NT : list nat := %s."
    % (lst("(%s, %s)" % (lst("(%s, %d)" % (q(n), AID[(ci, n)]) for n in FIELDS[ci]), b(HASHABLE[ci]))
           for ci in range(len(CLASSES))),
       lst(str(n) for n in NT_ARITY)))

SCALAR_TYPES = [int, float, type(None), bytes]
STRS = ["s0", "s1", "x", "a", "_b"]
DKINDS = {"d": dict, "o": collections.OrderedDict, "s": MyDict}
DK_COQ = {"d": "DkD", "o": "DkO", "s": "DkS"}
TFS = {"t": tuple, "l": list, "s": MyTuple}
TF_COQ = {"t": "TfTuple", "l": "TfList", "s": "TfSub"}


# --------------------------------------------------------------------------------------
# JSON tree -> live object;  live object -> Gallina / JSON

def build(j):
    t = j[0]
    if t == "i":
        return j[1]
    if t == "f":
        return j[1] + 0.5
    if t == "n":
        return None
    if t == "b":
        return b"b%d" % j[1]
    if t == "s":
        return j[1]
    if t == "I":
        return CLASSES[j[1]](*[build(x) for x in j[2]])
    if t == "L":
        return [build(x) for x in j[1]]
    if t == "T":
        items = [build(x) for x in j[2]]
        k = j[1]
        if k == "t":
            return tuple(items)
        if k == "s":
            return MyTuple(items)
        return NTS[k](*items)
    if t == "S":
        return {build(x) for x in j[1]}
    if t == "F":
        return frozenset(build(x) for x in j[1])
    if t == "D":
        return DKINDS[j[1]]((build(k), build(v)) for k, v in j[2])
    raise ValueError(j)


def _tk(t):
    if t is tuple:
        return "TkT"
    if t is MyTuple:
        return "TkS"
    return "(TkN %d)" % NTS.index(t)


def _dk(t):
    return "DkD" if t is dict else "DkO" if t is collections.OrderedDict else "DkS"


def enc(o):
    """Live object -> Gallina term of type val (exact classes; VAlien for the unknown)."""
    t = type(o)
    if t is int:
        return "(VSc 0 %d)" % o if 0 <= o < 1000 else "VAlien"
    if t is float:
        i = o - 0.5
        return "(VSc 1 %d)" % int(i) if i == int(i) and 0 <= i < 1000 else "VAlien"
    if o is None:
        return "(VSc 2 0)"
    if t is bytes:
        return "(VSc 3 %d)" % int(o[1:]) if o[:1] == b"b" and o[1:].isdigit() else "VAlien"
    if t is str:
        return "(VStr %s)" % q(o)
    if t in CLASSES:
        ci = CLASSES.index(t)
        return "(VI %d %s)" % (ci, lst(enc(getattr(o, n)) for n in FIELDS[ci]))
    if t is list:
        return "(VL %s)" % lst(enc(x) for x in o)
    if t is tuple or t is MyTuple or t in NTS:
        return "(VT %s %s)" % (_tk(t), lst(enc(x) for x in o))
    if t is set:
        return "(VS %s)" % lst(enc(x) for x in o)
    if t is frozenset:
        return "(VF %s)" % lst(enc(x) for x in o)
    if t is dict or t is collections.OrderedDict or t is MyDict:
        return "(VD %s %s)" % (_dk(t), lst("(%s, %s)" % (enc(k), enc(v)) for k, v in o.items()))
    if t is W:
        if o.inst is None and o.attr is None:
            who = "None"
        elif o.inst is not None and type(o.inst) in CLASSES and isinstance(o.attr, attr.Attribute):
            who = "(Some (%d, %s))" % (CLASSES.index(type(o.inst)), q(o.attr.name))
        else:
            return "VAlien"
        return "(VW %s %s)" % (who, enc(o.v))
    return "VAlien"


def show(o):
    """JSON-able rendering of a result for replay files."""
    t = type(o)
    if t in CLASSES:
        return {"inst": t.__name__, "fields": [show(getattr(o, n)) for n in FIELDS[CLASSES.index(t)]]}
    if t is W:
        return {"W": [type(o.inst).__name__ if o.inst is not None else None,
                      getattr(o.attr, "name", None), show(o.v)]}
    if isinstance(o, dict):
        return {"type": t.__name__, "items": [[show(k), show(v)] for k, v in o.items()]}
    if isinstance(o, (list, tuple, set, frozenset)):
        return {"type": t.__name__, "members": [show(x) for x in o]}
    if t is bytes:
        return "bytes:" + o.decode()
    return o if t in (int, float, str, type(None)) else repr(o)


TYPE_TAGS = ([(int, "(TySc 0)"), (float, "(TySc 1)"), (type(None), "(TySc 2)"), (bytes, "(TySc 3)"),
              (str, "TyStr"), (list, "TyL"), (tuple, "(TyT TkT)"), (MyTuple, "(TyT TkS)"),
              (set, "TyS"), (frozenset, "TyF"), (dict, "(TyD DkD)"),
              (collections.OrderedDict, "(TyD DkO)"), (MyDict, "(TyD DkS)"), (W, "TyW")]
             + [(c, "(TyI %d)" % i) for i, c in enumerate(CLASSES)]
             + [(c, "(TyT (TkN %d))" % i) for i, c in enumerate(NTS)])
TAG_OF = dict(TYPE_TAGS)
TYPE_BY_NAME = {("%s#%d" % (t.__name__, i)): t for i, (t, _) in enumerate(TYPE_TAGS)}
NAME_OF_TYPE = {t: n for n, t in TYPE_BY_NAME.items()}
ALL_NAMES = sorted({n for fs in FIELDS for n in fs}) + ["nope"]


# --------------------------------------------------------------------------------------
# filters and serializers (JSON description -> real callable + Gallina)

def mk_filter(fj):
    """fj: None | ["inc"|"exc", [type names], [names], [[cls, field]...]] | ["pred", [[name, type name]...], positive]
    | ["raise", [[name, type name]...], exception name, <rest filter>]"""
    if fj is None:
        return None, "FNo"
    if fj[0] == "raise":
        tbl = {(n, TYPE_BY_NAME[t]) for n, t in fj[1]}
        exc = EXCS[fj[2]]
        rest, rest_t = mk_filter(fj[3])

        def faulty(a, v, tbl=tbl, exc=exc, rest=rest):
            if (a.name, type(v)) in tbl:
                raise exc("filter rejects %s" % a.name)
            return True if rest is None else rest(a, v)

        term = "(FRaise %s %s %s)" % (lst("(%s, %s)" % (q(n), TAG_OF[TYPE_BY_NAME[t]]) for n, t in fj[1]),
                                      EXC_COQ[fj[2]], rest_t)
        return faulty, term
    if fj[0] in ("inc", "exc"):
        types = [TYPE_BY_NAME[n] for n in fj[1]]
        names = list(fj[2])
        ats = [getattr(attr.fields(CLASSES[c]), n) for c, n in fj[3]]
        what = types + names + ats
        f = (afilters.include if fj[0] == "inc" else afilters.exclude)(*what)
        term = "(%s %s %s %s)" % ("FInc" if fj[0] == "inc" else "FExc",
                                  lst(TAG_OF[t] for t in types), lst(q(n) for n in names),
                                  lst(str(AID[(c, n)]) for c, n in fj[3]))
        return f, term
    tbl = {(n, TYPE_BY_NAME[t]) for n, t in fj[1]}
    positive = fj[2]

    def pred(a, v, tbl=tbl, positive=positive):
        return ((a.name, type(v)) in tbl) == positive

    term = "(FPred %s %s)" % (lst("(%s, %s)" % (q(n), TAG_OF[TYPE_BY_NAME[t]]) for n, t in fj[1]), b(positive))
    return pred, term


def _is_leaf(v):
    return not (attr.has(type(v)) or isinstance(v, (tuple, list, set, frozenset, dict)))


def mk_ser(sj):
    """sj: None | "all" | "leaf" | ["fail", type name, exception name, <base>]"""
    if sj is None:
        return None, "SNo"
    if isinstance(sj, list):
        t = TYPE_BY_NAME[sj[1]]
        exc = EXCS[sj[2]]
        base, base_t = mk_ser(sj[3])

        def faulty(inst, a, v, t=t, exc=exc, base=base):
            if type(v) is t:
                raise exc("cannot serialize a %s" % t.__name__)
            return v if base is None else base(inst, a, v)

        return faulty, "(SFail %s %s %s)" % (TAG_OF[t], EXC_COQ[sj[2]], base_t)
    if sj == "all":
        return (lambda inst, a, v: W(inst, a, v)), "SAll"
    return (lambda inst, a, v: W(inst, a, v) if _is_leaf(v) else v), "SLeaf"


# --------------------------------------------------------------------------------------
# running the real functions

FN_COQ = {"asdict": "FAsdict", "astuple": "FAstuple", "ng_asdict": "FNgAsdict",
          "ng_astuple": "FNgAstuple", "round": "FRound"}

_runtime_n = [0]       # runtime-only observations made / violated
_runtime_bad = [0]


def _mutable_containers(o, acc, seen):
    """ids of every list / set / dict object reachable from o (through W too)."""
    if id(o) in seen:
        return
    seen.add(id(o))
    t = type(o)
    if t in CLASSES:
        for n in FIELDS[CLASSES.index(t)]:
            _mutable_containers(getattr(o, n), acc, seen)
    elif isinstance(o, dict):
        acc[id(o)] = o
        for k, v in o.items():
            _mutable_containers(k, acc, seen)
            _mutable_containers(v, acc, seen)
    elif isinstance(o, (list, set)):
        acc[id(o)] = o
        for x in o:
            _mutable_containers(x, acc, seen)
    elif isinstance(o, (tuple, frozenset)):
        for x in o:
            _mutable_containers(x, acc, seen)
    elif t is W:
        pass      # the serializer keeps the original object on purpose


def real_call(inst, cfg):
    fn = cfg["fn"]
    flt, _ = mk_filter(cfg.get("filter"))
    ser, _ = mk_ser(cfg.get("ser"))
    rec = cfg.get("recurse", True)
    ret = cfg.get("retain", False)
    try:
        if fn == "asdict":
            r = attr.asdict(inst, recurse=rec, filter=flt, dict_factory=DKINDS[cfg.get("df", "d")],
                            retain_collection_types=ret, value_serializer=ser)
        elif fn == "astuple":
            r = attr.astuple(inst, recurse=rec, filter=flt, tuple_factory=TFS[cfg.get("tf", "t")],
                             retain_collection_types=ret)
        elif fn == "ng_asdict":
            r = attrs.asdict(inst, recurse=rec, filter=flt, value_serializer=ser)
        elif fn == "ng_astuple":
            r = attrs.astuple(inst, recurse=rec, filter=flt)
        elif fn == "round":
            r = type(inst)(**attr.asdict(inst))
        else:
            raise ValueError(fn)
        return "ok", r
    except Exception as e:
        if type(e) in EXC_NAME:
            return EXC_NAME[type(e)], None
        return "other:" + type(e).__name__, None   # a class outside the model: forced mismatch


def _observe_runtime(inst, cfg, status, r, before):
    """Aliasing facts no model can express.  Returns [(kind, text)] of the violated ones."""
    bad = []
    fn = cfg["fn"]
    _runtime_n[0] += 1
    after = enc(inst)
    if after != before:
        bad.append(("argument-mutated", "%s changed its argument" % fn))
    if status != "ok":
        return bad
    ci = CLASSES.index(type(inst))
    names = FIELDS[ci]
    if fn == "round":
        if FLAT_PUBLIC[ci] and all(_is_leaf(getattr(inst, n)) for n in names):
            if not (r == inst and type(r) is type(inst) and r is not inst):
                bad.append(("roundtrip-unequal", "C(**asdict(x)) != x for a flat class with public names"))
        return bad
    rec = cfg.get("recurse", True)
    if cfg.get("filter") is None and cfg.get("ser") is None:
        vals = list(r.values()) if fn in ("asdict", "ng_asdict") else list(r)
        if len(vals) == len(names):
            for n, out in zip(names, vals):
                v = getattr(inst, n)
                if not rec and out is not v:
                    bad.append(("recurse-false-not-identical",
                                "recurse=False returned a different object for field " + n))
                if rec and isinstance(v, (list, set, dict)) and out is v:
                    bad.append(("container-not-new", "field-level container returned as is for field " + n))
    if rec and fn in ("asdict", "ng_asdict"):
        a, c = {}, {}
        _mutable_containers(inst, a, set())
        _mutable_containers(r, c, set())
        if set(a) & set(c):
            bad.append(("container-not-new", "asdict result shares a mutable container with its argument"))
    if r is inst:
        bad.append(("container-not-new", "the result is the argument itself"))
    return bad


def _nontrivial(j):
    return any(x[0] in "ILTSFD" for x in j[2])


def mk_case(inp):
    """inp = {"val": ["I", cls, [...]], "cfg": {...}}"""
    inst = build(inp["val"])
    cfg = inp["cfg"]
    before = enc(inst)
    status, r = real_call(inst, cfg)
    bad = _observe_runtime(inst, cfg, status, r, before)
    if status == "ok":
        seen_t = "(Ok %s)" % enc(r)
        seen_j = {"result": show(r)}
    elif status in EXC_COQ:
        seen_t = "(Err %s)" % EXC_COQ[status]
        seen_j = {"raised": status}
    else:
        seen_t = "(Ok VAlien)"
        seen_j = {"raised": status[6:]}
    if bad:
        # a violated runtime-only observation is reported through the same channel: the case is
        # made to differ from every model answer (VAlien equals nothing) and says why
        seen_t = "(Ok VAlien)"
        seen_j["runtime_violation"] = [t for _, t in bad]
        _runtime_bad[0] += 1
    _, ft = mk_filter(cfg.get("filter"))
    _, st = mk_ser(cfg.get("ser"))
    term = "(K CL NT %s %s %s %s %s %s %s %s %s)" % (
        FN_COQ[cfg["fn"]], b(cfg.get("recurse", True)), b(cfg.get("retain", False)), ft,
        DK_COQ[cfg.get("df", "d")], TF_COQ[cfg.get("tf", "t")], st, before, seen_t)
    sig = {"fn": cfg["fn"], "outcome": status if status == "ok" or status in EXC_COQ else "other"}
    if bad:
        sig["kind"] = bad[0][0]
    return Case(term, inp, seen_j, sig=sig, nontrivial=_nontrivial(inp["val"]),
                key=json.dumps([inp["val"], cfg], sort_keys=True))


# --------------------------------------------------------------------------------------
# generators

def gen_leaf(rng):
    k = rng.randrange(7)
    if k <= 1:
        return ["i", rng.randrange(6)]
    if k == 2:
        return ["f", rng.randrange(3)]
    if k == 3:
        return ["n"]
    if k == 4:
        return ["b", rng.randrange(3)]
    return ["s", rng.choice(STRS)]


def gen_val(rng, depth, need_hash=False, inst_ok=True, width=3):
    """need_hash: the value must be hashable (set member / dict key).
    inst_ok: attrs instances may occur (False inside set members and keys of the main stream)."""
    if depth <= 0 or rng.random() < 0.22:
        return gen_leaf(rng)
    kinds = ["T", "T", "N", "F"] if need_hash else ["L", "L", "T", "N", "S", "F", "D", "D"]
    if inst_ok:
        kinds += ["I", "I", "I"] if not need_hash else ["I"]
    k = rng.choice(kinds)
    n = rng.randrange(width + 1)
    sub = lambda **kw: gen_val(rng, depth - 1, **{"need_hash": need_hash, "inst_ok": inst_ok, "width": width, **kw})
    if k == "I":
        cands = [i for i in range(len(CLASSES)) if HASHABLE[i]] if need_hash else list(range(len(CLASSES)))
        c = rng.choice(cands)
        return ["I", c, [sub() for _ in FIELDS[c]]]
    if k == "L":
        return ["L", [sub() for _ in range(n)]]
    if k == "T":
        return ["T", rng.choice(["t", "t", "s"]), [sub() for _ in range(n)]]
    if k == "N":
        i = rng.choice([0, 0, 0, 1, 2])
        return ["T", i, [sub() for _ in range(NT_ARITY[i])]]
    if k == "S":
        return ["S", [sub(need_hash=True) for _ in range(n)]]
    if k == "F":
        return ["F", [sub(need_hash=True) for _ in range(n)]]
    if k == "D":
        return ["D", rng.choice(["d", "d", "o", "s"]),
                [[sub(need_hash=True), sub(need_hash=False)] for _ in range(n)]]
    raise AssertionError(k)


def gen_main_val(rng, depth, need_hash=False, width=3):
    """Main stream: no attrs instance inside a set member or a dict key."""
    def go(d, nh, in_hashed):
        if d <= 0 or rng.random() < 0.22:
            return gen_leaf(rng)
        kinds = ["T", "T", "N", "F"] if nh else ["L", "L", "T", "N", "S", "F", "D", "D"]
        if not in_hashed:
            kinds += ["I", "I", "I"]
        k = rng.choice(kinds)
        n = rng.randrange(width + 1)
        if k == "I":
            c = rng.randrange(len(CLASSES))
            return ["I", c, [go(d - 1, False, False) for _ in FIELDS[c]]]
        if k == "L":
            return ["L", [go(d - 1, nh, in_hashed) for _ in range(n)]]
        if k == "T":
            return ["T", rng.choice(["t", "t", "s"]), [go(d - 1, nh, in_hashed) for _ in range(n)]]
        if k == "N":
            i = rng.choice([0, 0, 0, 1, 2])
            return ["T", i, [go(d - 1, nh, in_hashed) for _ in range(NT_ARITY[i])]]
        if k == "S":
            return ["S", [go(d - 1, True, True) for _ in range(n)]]
        if k == "F":
            return ["F", [go(d - 1, True, True) for _ in range(n)]]
        return ["D", rng.choice(["d", "d", "o", "s"]),
                [[go(d - 1, True, True), go(d - 1, False, in_hashed)] for _ in range(n)]]
    return go(depth, need_hash, False)


def gen_inst(rng, depth, malformed=False):
    c = rng.randrange(len(CLASSES))
    if malformed:
        return ["I", c, [gen_val(rng, depth - 1) for _ in FIELDS[c]]]
    return ["I", c, [gen_main_val(rng, depth - 1) for _ in FIELDS[c]]]


def gen_filter(rng):
    k = rng.randrange(8)
    if k <= 1:
        return None
    tnames = sorted(TYPE_BY_NAME)
    if k <= 5:
        nt = rng.choice([0, 0, 1, 2, 4])
        nn = rng.choice([0, 0, 1, 2])
        na = rng.choice([0, 0, 1, 2])
        if nt + nn + na == 0:
            nt = 1
        pairs = sorted(AID)
        return ["inc" if k in (2, 3) else "exc", rng.sample(tnames, nt), rng.sample(ALL_NAMES, nn),
                [list(p) for p in rng.sample(pairs, na)]]
    return ["pred", [[rng.choice(ALL_NAMES), rng.choice(tnames)] for _ in range(rng.randrange(1, 7))],
            rng.random() < 0.5]


def gen_cfg(rng):
    fn = rng.choice(["asdict", "asdict", "asdict", "astuple", "astuple", "ng_asdict", "ng_astuple"])
    cfg = {"fn": fn, "recurse": rng.random() < 0.85, "filter": gen_filter(rng)}
    if fn in ("asdict", "astuple"):
        cfg["retain"] = rng.random() < 0.5
    if fn == "asdict":
        cfg["df"] = rng.choice(["d", "d", "o", "s"])
    if fn == "astuple":
        cfg["tf"] = rng.choice(["t", "t", "l", "s"])
    if fn in ("asdict", "ng_asdict"):
        cfg["ser"] = rng.choice([None, None, "all", "leaf", "leaf"])
        if rng.random() < 0.08:
            cfg["ser"] = gen_fault_ser(rng, cfg["ser"])
    if rng.random() < 0.06:
        cfg["filter"] = gen_fault_filter(rng, cfg["filter"])
    return cfg


SCALAR_TYPE_NAMES = [NAME_OF_TYPE[t] for t in (int, float, type(None), bytes, str)]


def leaf_of_type(rng, tname):
    t = TYPE_BY_NAME[tname]
    if t is int:
        return ["i", rng.randrange(6)]
    if t is float:
        return ["f", rng.randrange(3)]
    if t is type(None):
        return ["n"]
    if t is bytes:
        return ["b", rng.randrange(3)]
    return ["s", rng.choice(STRS)]


def gen_fault_ser(rng, base=None):
    return ["fail", rng.choice(SCALAR_TYPE_NAMES), rng.choice(sorted(EXCS)), base if base is not None else rng.choice([None, None, "leaf", "all"])]


def gen_fault_filter(rng, rest=None):
    n = rng.randrange(1, 4)
    return ["raise", [[rng.choice(ALL_NAMES), rng.choice(SCALAR_TYPE_NAMES)] for _ in range(n)],
            rng.choice(sorted(EXCS)), rest]


def wrap_poison(rng, poison, hashable, levels):
    """Bury a value under `levels` random containers (siblings around it), keeping it reachable by the
    conversion: list / tuple / tuple subclass / namedtuple / frozenset / set / dict value / member of a
    key tuple / key / field of a nested instance."""
    v = poison
    for _ in range(levels):
        fill = lambda: gen_leaf(rng)
        pre = [fill() for _ in range(rng.randrange(3))]
        post = [fill() for _ in range(rng.randrange(3))]
        kinds = ["L", "T", "T", "T", "Ts", "N", "DV", "I"]
        if hashable:
            kinds += ["F", "S", "DK", "DKT", "DKT"]
        k = rng.choice(kinds)
        if k == "L":
            v, hashable = ["L", pre + [v] + post], False
        elif k == "T":
            v = ["T", "t", pre + [v] + post]
        elif k == "Ts":
            v = ["T", "s", pre + [v] + post]
        elif k == "N":
            v = ["T", 0, [v, fill()] if rng.random() < 0.5 else [fill(), v]]
        elif k == "F":
            v = ["F", pre + [v] + post]
        elif k == "S":
            v, hashable = ["S", pre + [v] + post], False
        elif k == "DV":
            v, hashable = ["D", rng.choice(["d", "o", "s"]), [[fill(), fill()] for _ in pre] + [[fill(), v]] + [[fill(), fill()] for _ in post]], False
        elif k == "DK":
            v, hashable = ["D", rng.choice(["d", "o", "s"]), [[v, fill()]] + [[fill(), fill()] for _ in post]], False
        elif k == "DKT":
            v, hashable = ["D", rng.choice(["d", "o", "s"]),
                           [[["T", "t", pre + [v] + post], fill()]] + [[fill(), fill()] for _ in post]], False
        else:
            cands = [i for i in range(len(CLASSES)) if FIELDS[i] and (HASHABLE[i] or not hashable)]
            c = rng.choice(cands)
            j = rng.randrange(len(FIELDS[c]))
            v = ["I", c, [v if i == j else fill() for i in range(len(FIELDS[c]))]]
            hashable = hashable and HASHABLE[c]
    return v


def gen_fault_case(rng, maxdepth):
    """A value with one poisoned spot at depth >= 1 and a configuration under which converting that spot
    raises: a leaf the serializer rejects, an instance field the filter rejects, a set/frozenset of
    instances (unhashable once converted), an instance inside a key."""
    kind = rng.choice(["ser", "ser", "filter", "filter", "hash", "hash", "key"])
    cfg = gen_cfg(rng)
    cfg["recurse"] = rng.random() < 0.93
    levels = rng.randint(1, maxdepth - 1)
    if kind == "ser":
        cfg["fn"] = rng.choice(["asdict", "asdict", "ng_asdict"])
        for k in ("tf",):
            cfg.pop(k, None)
        cfg.setdefault("retain", rng.random() < 0.6)
        cfg.setdefault("df", rng.choice(["d", "o", "s"]))
        if cfg["fn"] == "ng_asdict":
            cfg.pop("retain", None)
            cfg.pop("df", None)
        ser = gen_fault_ser(rng)
        cfg["ser"] = ser
        poison, h = leaf_of_type(rng, ser[1]), True
    elif kind == "filter":
        hc = rng.choice([i for i in range(len(CLASSES)) if FIELDS[i]])
        j = rng.randrange(len(FIELDS[hc]))
        tname = rng.choice(SCALAR_TYPE_NAMES)
        cfg["filter"] = ["raise", [[FIELDS[hc][j], tname]], rng.choice(sorted(EXCS)), cfg.get("filter")]
        poison = ["I", hc, [leaf_of_type(rng, tname) if i == j else gen_leaf(rng) for i in range(len(FIELDS[hc]))]]
        h = HASHABLE[hc]
    elif kind == "hash":
        hc = rng.choice([i for i in range(len(CLASSES)) if HASHABLE[i]])
        inst = ["I", hc, [gen_leaf(rng) for _ in FIELDS[hc]]]
        poison = [rng.choice(["F", "F", "S"]), [gen_leaf(rng) for _ in range(rng.randrange(2))] + [inst]]
        h = poison[0] == "F"
    else:
        hc = rng.choice([i for i in range(len(CLASSES)) if HASHABLE[i]])
        inst = ["I", hc, [gen_leaf(rng) for _ in FIELDS[hc]]]
        key = inst if rng.random() < 0.4 else ["T", "t", [gen_leaf(rng), inst]]
        poison, h = ["D", rng.choice(["d", "o", "s"]), [[key, gen_leaf(rng)]]], False
    if kind in ("hash", "key") and rng.random() < 0.7:
        cfg["retain"] = True if cfg["fn"] in ("asdict", "astuple") else cfg.get("retain", False)
    if cfg["fn"] in ("ng_asdict", "ng_astuple"):
        cfg.pop("retain", None)
    body = wrap_poison(rng, poison, h, levels)
    c = rng.choice([i for i in range(len(CLASSES)) if FIELDS[i]])
    j = rng.randrange(len(FIELDS[c]))
    val = ["I", c, [body if i == j else gen_main_val(rng, 1) for i in range(len(FIELDS[c]))]]
    return {"val": val, "cfg": cfg, "stream": "fault"}


I = lambda c, *fs: ["I", c, list(fs)]
i_ = lambda n: ["i", n]
s_ = lambda x: ["s", x]

FIXED = [
    # every container kind directly in a field, instances inside lists / tuples / dict values
    I(0, ["L", [I(2, i_(1)), ["T", "t", [I(4), i_(2)]], ["T", 0, [i_(3), I(2, s_("x"))]]]],
      ["D", "o", [[["T", "t", [i_(1), ["T", "t", [i_(2), i_(3)]]]], I(5, i_(0), ["L", [i_(4)]])],
                  [["F", [i_(1), i_(2)]], ["S", [i_(5), ["T", 1, [i_(0)]]]]], [s_("x"), ["n"]]]]),
    I(1, ["T", 1, [["L", [I(4)]]]], ["S", [["T", "t", [i_(1)]], ["F", [s_("a")]], ["f", 0]]],
      ["T", "s", [["D", "d", [[i_(0), I(3, ["b", 0], ["T", 2, []])]]]]]),
    I(3, I(0, I(2, ["L", []]), ["D", "s", []]), ["F", []]),
    I(5, ["D", "d", [[["T", "t", [i_(1), i_(2)]], i_(0)], [["F", [i_(2), i_(1)]], i_(1)], [["T", 0, [i_(1), i_(2)]], i_(2)]]],
      ["L", [["L", [["L", [I(2, ["S", [i_(1)]])]]]]]]),
    I(4),
    I(2, i_(3)),
]


def all_cfgs():
    flts = [None, ["inc", [NAME_OF_TYPE[int], NAME_OF_TYPE[list], NAME_OF_TYPE[A2]], ["y"], [[1, "a"]]],
            ["exc", [NAME_OF_TYPE[dict], NAME_OF_TYPE[A4]], ["_b", "z"], [[0, "x"]]],
            ["exc", [NAME_OF_TYPE[W]], [], []],
            ["pred", [["x", NAME_OF_TYPE[list]], ["y", NAME_OF_TYPE[collections.OrderedDict]],
                      ["a", NAME_OF_TYPE[N1]], ["x", NAME_OF_TYPE[A0]]], False]]
    for rec, flt in itertools.product([True, False], flts):
        for ret, df, ser in itertools.product([False, True], "dos", [None, "all", "leaf"]):
            yield {"fn": "asdict", "recurse": rec, "retain": ret, "filter": flt, "df": df, "ser": ser}
        for ret, tf in itertools.product([False, True], "tls"):
            yield {"fn": "astuple", "recurse": rec, "retain": ret, "filter": flt, "tf": tf}
        for ser in [None, "all", "leaf"]:
            yield {"fn": "ng_asdict", "recurse": rec, "filter": flt, "ser": ser}
        yield {"fn": "ng_astuple", "recurse": rec, "filter": flt}


def generate(tier, seed):
    rng = random.Random(seed)
    _runtime_n[0] = 0
    _runtime_bad[0] = 0
    cases = []
    for v in FIXED:
        for cfg in all_cfgs():
            cases.append(mk_case({"val": v, "cfg": cfg}))
    n_main, n_mal, n_round, n_fault = (2500, 600, 300, 1500) if tier == "quick" else (25000, 6000, 2000, 15000)
    maxd = 4 if tier == "quick" else 5
    for _ in range(n_main):
        v = gen_inst(rng, rng.randint(2, maxd))
        for _ in range(3):
            cases.append(mk_case({"val": v, "cfg": gen_cfg(rng)}))
    for _ in range(n_mal):
        v = gen_inst(rng, rng.randint(2, maxd), malformed=True)
        for _ in range(2):
            cases.append(mk_case({"val": v, "cfg": gen_cfg(rng), "stream": "malformed"}))
    for _ in range(n_fault):
        cases.append(mk_case(gen_fault_case(rng, maxd)))
    for _ in range(n_round):
        c = rng.randrange(len(CLASSES))
        flat = rng.random() < 0.7
        v = ["I", c, [gen_leaf(rng) if flat else gen_main_val(rng, 2) for _ in FIELDS[c]]]
        cases.append(mk_case({"val": v, "cfg": {"fn": "round"}}))
    return cases


def extra(tier, seed):
    # violated runtime observations are reported through their case (see mk_case)
    return [], {"runtime_observations": _runtime_n[0], "runtime_observations_violated": _runtime_bad[0],
                                 "runtime_observation_kinds": ["argument deep-equal before/after the call",
                                                               "converted mutable containers are new objects",
                                                               "recurse=False returns the identical field objects",
                                                               "C(**asdict(x)) == x for flat public classes"]}


def rerun(inp):
    return mk_case(inp)


def corpus():
    import importlib.util, os
    spec = importlib.util.spec_from_file_location("verif_defects", os.path.join(vlib.VERIF, "corpus", "defects.py"))
    m = importlib.util.module_from_spec(spec)
    spec.loader.exec_module(m)
    return [(k, f) for k, f in m.ALL.items() if "_C13_" in k]


def EXHAUSTIVE(tier):
    return False


def distribution(cases):
    from collections import Counter

    def depth(j):
        t = j[0]
        if t == "I":
            return 1 + max([depth(x) for x in j[2]] or [0])
        if t in "LSF":
            return 1 + max([depth(x) for x in j[1]] or [0])
        if t == "T":
            return 1 + max([depth(x) for x in j[2]] or [0])
        if t == "D":
            return 1 + max([max(depth(k), depth(v)) for k, v in j[2]] or [0])
        return 0

    def feats(j, acc, in_key=False, in_set=False):
        t = j[0]
        if t == "I":
            if in_key or in_set:
                acc.add("instance_in_key_or_set")
            for x in j[2]:
                feats(x, acc, in_key, in_set)
        elif t == "T":
            if j[1] == 1:
                acc.add("single_field_namedtuple")
            if isinstance(j[1], int):
                acc.add("namedtuple")
            if in_key == "seq":
                acc.add("collection_nested_in_key_collection")
            for x in j[2]:
                feats(x, acc, "seq" if in_key else False, in_set)
        elif t in "LSF":
            if in_key == "seq":
                acc.add("collection_nested_in_key_collection")
            acc.add({"L": "list", "S": "set", "F": "frozenset"}[t])
            for x in j[1]:
                feats(x, acc, "seq" if in_key else False, in_set or t in "SF")
        elif t == "D":
            acc.add("dict:" + j[1])
            for k, v in j[2]:
                feats(k, acc, True, in_set)
                feats(v, acc, False, in_set)

    fc = Counter()
    for c in cases:
        acc = set()
        feats(c.inp["val"], acc)
        fc.update(acc)
    fns = Counter(c.inp["cfg"]["fn"] for c in cases)
    outs = Counter(c.sig["outcome"] for c in cases)
    dep = Counter(depth(c.inp["val"]) for c in cases)
    flt = Counter((c.inp["cfg"].get("filter") or ["none"])[0] for c in cases)
    ser = Counter(str(c.inp["cfg"].get("ser")) for c in cases if c.inp["cfg"]["fn"] in ("asdict", "ng_asdict"))
    return {"functions": dict(fns), "outcomes": dict(outs), "value_depth": dict(sorted(dep.items())),
            "filters": dict(flt), "serializers": dict(ser), "value_features": dict(sorted(fc.items())),
            "malformed_stream": sum(1 for c in cases if c.inp.get("stream") == "malformed"),
            "fault_stream": sum(1 for c in cases if c.inp.get("stream") == "fault"),
            "fault_stream_outcomes": dict(Counter(c.sig["outcome"] for c in cases if c.inp.get("stream") == "fault")),
            "faulty_filter_or_serializer": sum(1 for c in cases if (c.inp["cfg"].get("filter") or [""])[0] == "raise"
                                               or isinstance(c.inp["cfg"].get("ser"), list)),
            "recurse_false": sum(1 for c in cases if c.inp["cfg"].get("recurse") is False)}
